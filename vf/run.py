"""Runner: ./check <Cnn> [quick|thorough] | --replay <file> | --shard … (internal).

Exit codes: 0 held on everything explored (KNOWN-FINDING lines allowed), 1 violation
(`VIOLATION property=<id> replay=<path>`), 2 harness error (never reported as a violation).
"""

from __future__ import annotations

import importlib
import json
import os
import pkgutil
import shutil
import subprocess
import sys
import tempfile
import time
from collections import Counter
from typing import Any

from vf.core import ROOT, Ctx, Outcome, h12, jdump, load_known, match_known

LEVEL = "exploration"


def find_check(prop: str):
    import vf.checks as pkg

    want = prop.lower()
    for m in pkgutil.iter_modules(pkg.__path__):
        if m.name.split("_")[0] == want:
            return importlib.import_module(f"vf.checks.{m.name}")
    raise SystemExit(f"HARNESS-ERROR: no check module for {prop}")


def all_checks():
    import vf.checks as pkg

    mods = []
    for m in sorted(pkgutil.iter_modules(pkg.__path__), key=lambda m: m.name):
        if m.name[0] == "c" and m.name[1:3].isdigit():
            mods.append(importlib.import_module(f"vf.checks.{m.name}"))
    return mods


def plan_of(mod, tier: str) -> dict[str, Any]:
    plan = dict(getattr(mod, "PLAN", {}).get(tier, {}))
    plan.setdefault("shards", 8)
    plan.setdefault("examples", 200)
    plan.setdefault("timeout", 1500 if tier == "quick" else 5400)
    if tier == "thorough":
        # the hard cap only guards against a hung shard; thorough campaigns are bounded by their case counts
        plan["timeout"] = max(float(plan["timeout"]), 14400.0)
    return plan


def scratch_base() -> str:
    base = os.environ.get("VERIF_SCRATCH") or tempfile.gettempdir()
    os.makedirs(base, exist_ok=True)
    return base


# ------------------------------------------------------------------------------------------ shard
def shard_main(prop: str, tier: str, idx: int, n: int, out_path: str) -> int:
    mod = find_check(prop)
    seed = int(os.environ.get("VERIF_SEED", "1"))
    scratch = tempfile.mkdtemp(prefix=f"vf_{prop}_{idx}_", dir=scratch_base())
    ctx = Ctx(prop, tier, seed, idx, n, plan_of(mod, tier), load_known(prop), scratch)
    try:
        if hasattr(mod, "shard"):
            mod.shard(ctx)
        else:
            from vf.hyp import run_cases

            per = max(1, ctx.params["examples"] // n)
            run_cases(ctx, mod.strategy(ctx), lambda c: mod.evaluate(c), per)
    finally:
        shutil.rmtree(scratch, ignore_errors=True)
    with open(out_path, "w") as fh:
        json.dump(ctx.result.to_json(), fh, default=repr)
    return 0


# ------------------------------------------------------------------------------------------ replay
def run_replay_case(mod, case: Any) -> list[tuple[str, str]]:
    from vf.hyp import guarded

    fn = getattr(mod, "replay", None) or mod.evaluate
    out = guarded(fn)(case)
    if isinstance(out, Outcome):
        return out.failures
    return list(out)


def replay_main(path: str) -> int:
    data = json.loads(open(path).read())
    prop = data["property"]
    mod = find_check(prop)
    known = [e for e in load_known(prop) if e.get("status") == "known"]
    scratch = tempfile.mkdtemp(prefix=f"vf_{prop}_replay_", dir=scratch_base())
    os.environ["VF_SCRATCH_DIR"] = scratch
    try:
        fails = run_replay_case(mod, data["case"])
    finally:
        shutil.rmtree(scratch, ignore_errors=True)
    want = data.get("sig")
    hit = [f for f in fails if want is None or f[0] == want]
    for sig, detail in fails:
        print(f"replay: signature {sig}\n  {detail.strip()[:600]}")
    if os.environ.get("VF_REPLAY_RAW"):
        print("REPLAY-RESULT " + json.dumps({"reproduced": bool(hit), "sigs": [f[0] for f in fails]}))
        return 0
    new = [f for f in fails if not any(match_known(e, f[0]) for e in known)]
    if new:
        print(f"VIOLATION property={prop} replay={path}")
        return 1
    for e in known:
        if any(match_known(e, f[0]) for f in fails):
            print(f"KNOWN-FINDING: property={prop} {e['key']}: {e['what']}")
    if not fails:
        print(f"replay: no failure reproduced for {path}")
    return 0


def replay_known(entry: dict[str, Any]) -> str:
    rp = entry.get("replay")
    if not rp or not (ROOT / rp).exists():
        return "no replay file"
    env = dict(os.environ, VF_REPLAY_RAW="1")
    try:
        cp = subprocess.run([sys.executable, "-m", "vf.run", "--replay", str(ROOT / rp)], cwd=ROOT, env=env,
                            capture_output=True, text=True, timeout=600)
    except subprocess.TimeoutExpired:
        return "replay timed out"
    for line in cp.stdout.splitlines():
        if line.startswith("REPLAY-RESULT "):
            res = json.loads(line[len("REPLAY-RESULT "):])
            return "reproduced" if res["reproduced"] else "not reproduced by its replay on this tree"
    return f"replay harness error (exit {cp.returncode})"


# ------------------------------------------------------------------------------------------ main
def main_check(prop: str, tier: str) -> int:
    t0 = time.time()
    mod = find_check(prop)
    prop = mod.PROPERTY
    seed = int(os.environ.get("VERIF_SEED", "1"))
    os.environ["VERIF_TIER"] = tier
    plan = plan_of(mod, tier)
    n = int(plan["shards"])
    known_all = load_known(prop)
    known = [e for e in known_all if e.get("status") == "known"]
    tmp = tempfile.mkdtemp(prefix=f"vf_{prop}_run_", dir=scratch_base())
    procs = []
    try:
        for i in range(n):
            outp = os.path.join(tmp, f"shard{i}.json")
            logp = os.path.join(tmp, f"shard{i}.log")
            lf = open(logp, "w")
            p = subprocess.Popen([sys.executable, "-m", "vf.run", "--shard", prop, tier, str(i), str(n), outp],
                                 cwd=ROOT, stdout=lf, stderr=subprocess.STDOUT)
            procs.append((i, p, outp, logp, lf))
        deadline = t0 + float(plan["timeout"])
        shard_results, errors = [], []
        for i, p, outp, logp, lf in procs:
            try:
                p.wait(timeout=max(1.0, deadline - time.time()))
            except subprocess.TimeoutExpired:
                p.kill()
                p.wait()
                errors.append(f"shard {i}: exceeded the hard limit of {plan['timeout']} s")
                continue
            finally:
                lf.close()
            if p.returncode != 0 or not os.path.exists(outp):
                tail = open(logp).read()[-3000:]
                errors.append(f"shard {i}: exit {p.returncode}\n{tail}")
                continue
            shard_results.append(json.load(open(outp)))
    finally:
        for _, p, *_ in procs:
            if p.poll() is None:
                p.kill()
        shutil.rmtree(tmp, ignore_errors=True)

    if errors and not shard_results:
        for e in errors:
            print("HARNESS-ERROR:", e)
        return 2

    # ---- merge
    evaluations = sum(r["evaluations"] for r in shard_results)
    cases = sum(r["cases"] for r in shard_results)
    nontrivial = set().union(*[set(r["nontrivial"]) for r in shard_results]) if shard_results else set()
    labels: Counter[str] = Counter()
    inconclusive: Counter[str] = Counter()
    samples: list[Any] = []
    failures: dict[str, dict[str, Any]] = {}
    notes: dict[str, Any] = {}
    excluded = 0
    for r in shard_results:
        labels.update(r["labels"])
        inconclusive.update(r["inconclusive"])
        excluded += r["excluded"]
        for s in r["samples"]:
            if len(samples) < 5:
                samples.append(s)
        for k, v in r["notes"].items():
            if isinstance(v, (int, float)) and isinstance(notes.get(k), (int, float)):
                notes[k] += v
            else:
                notes.setdefault(k, v)
        for sig, slot in r["failures"].items():
            cur = failures.get(sig)
            if cur is None:
                failures[sig] = dict(slot)
            else:
                cur["count"] += slot["count"]
                if slot["size"] < cur["size"]:
                    cnt = cur["count"]
                    cur.update(slot)
                    cur["count"] = cnt

    known_hits: Counter[str] = Counter()
    new: dict[str, dict[str, Any]] = {}
    for sig, slot in failures.items():
        ent = next((e for e in known if match_known(e, sig)), None)
        if ent is not None:
            known_hits[ent["key"]] += slot["count"]
        else:
            new[sig] = slot

    # ---- known findings: re-run each entry's replay and say so
    known_status = {}
    for e in known:
        status = replay_known(e)
        known_status[e["key"]] = status
        print(f"KNOWN-FINDING: property={prop} {e['key']}: {e['what']} [{status}; "
              f"{known_hits.get(e['key'], 0)} generated cases hit it in this run]")

    # ---- new violations
    import pathlib

    # runs against another tree (sensitivity mutants, seeded changes) keep their replays out of the checkout
    rdir = pathlib.Path(os.environ["VERIF_REPLAY_DIR"]) / prop if os.environ.get("VERIF_REPLAY_DIR") else ROOT / "replays" / prop
    vio_paths = []
    for sig, slot in sorted(new.items()):
        rdir.mkdir(parents=True, exist_ok=True)
        path = rdir / f"new-{h12(sig)}.json"
        path.write_text(json.dumps({"property": prop, "sig": sig, "detail": slot["detail"], "count": slot["count"],
                                    "seed": seed, "tier": tier, "case": slot["case"]}, indent=1, default=repr))
        vio_paths.append((sig, path))

    meta = getattr(mod, "META", {})
    ev = {
        "property_id": prop,
        "tier": tier,
        "seed": seed,
        "level": LEVEL,
        "coverage": {
            "evaluations": int(evaluations),
            "generated_cases": int(cases),
            "distinct_nontrivial": len(nontrivial),
            "rule": meta.get("rule", ""),
            "samples": samples[:5] if samples else [],
            "classes": dict(labels.most_common()),
            "excluded_by_known_findings": int(excluded),
            "inconclusive": dict(inconclusive),
            "shards": n,
            "shards_failed": errors,
            "known_findings_reproduced": known_status,
            "known_finding_hits": dict(known_hits),
            "new_violation_signatures": sorted(new),
            "notes": notes,
            "params": {k: v for k, v in plan.items()},
        },
        "assumptions": meta.get("assumptions", []),
        "wall_s": round(time.time() - t0, 2),
        "violations": len(new),
    }
    edir = pathlib.Path(os.environ["VERIF_EVIDENCE_DIR"]) if os.environ.get("VERIF_EVIDENCE_DIR") else ROOT / "evidence"
    edir.mkdir(exist_ok=True)
    (edir / f"{prop}.json").write_text(json.dumps(ev, indent=1, default=repr) + "\n")

    print(f"{prop} {tier} seed={seed}: {cases} cases / {evaluations} evaluations, {len(nontrivial)} distinct non-trivial, "
          f"{sum(inconclusive.values())} inconclusive, {len(new)} new violation signature(s), "
          f"{ev['wall_s']} s")
    if vio_paths:
        for sig, path in vio_paths:
            print(f"  signature: {sig} ({new[sig]['count']}x): {new[sig]['detail'].strip()[:400]}")
            print(f"VIOLATION property={prop} replay={path}")
        return 1
    if errors:
        for e in errors:
            print("HARNESS-ERROR:", e)
        return 2
    if not samples or len(nontrivial) < 2:
        print("HARNESS-ERROR: the run produced fewer than 2 distinct non-trivial cases (vacuous)")
        return 2
    return 0


def main(argv: list[str]) -> int:
    if not argv:
        print(__doc__)
        return 2
    if argv[0] == "--shard":
        return shard_main(argv[1], argv[2], int(argv[3]), int(argv[4]), argv[5])
    if argv[0] == "--replay":
        return replay_main(argv[1])
    if argv[0] == "--list":
        for m in all_checks():
            print(m.PROPERTY, m.__name__)
        return 0
    tier = argv[1] if len(argv) > 1 else os.environ.get("VERIF_TIER", "quick")
    if tier not in ("quick", "thorough"):
        tier = "quick"
    return main_check(argv[0], tier)


if __name__ == "__main__":
    sys.exit(main(sys.argv[1:]))
