"""Hypothesis plumbing: seeded collect-then-shrink driver.

Hypothesis stops at the first failing example.  The unchanged tree has shallow defects in front of
deeper ones, so the *collect* phase never raises: the oracle's verdicts are recorded per root-cause
signature and generation continues for the whole budget.  For every signature that is not a listed
known finding a second, identically seeded run raises only on that signature, which lets the
built-in shrinker minimise it (bounded by a call and time budget; the smallest failing case seen so
far is kept when the budget ends).
"""

from __future__ import annotations

import time
from typing import Any, Callable

import hypothesis
from hypothesis import HealthCheck, Phase, given, settings

from vf.core import Ctx, Outcome, exc_detail, exc_sig, has_pynguin_frame, jdump


class _Abort(BaseException):
    """Leaves a Hypothesis run early (not caught by Hypothesis: not an Exception)."""


class _Target(Exception):
    """Raised in the shrink phase when the targeted signature is observed."""


def base_settings(max_examples: int, phases: Any) -> settings:
    return settings(
        max_examples=max_examples,
        database=None,
        deadline=None,
        derandomize=False,
        report_multiple_bugs=False,
        phases=phases,
        suppress_health_check=list(HealthCheck),
        print_blob=False,
    )


def guarded(evaluate: Callable[[Any], Outcome]) -> Callable[[Any], Outcome]:
    """Wrap ``evaluate`` so an exception escaping from pynguin code becomes a recorded failure.

    An exception whose traceback contains no pynguin frame is a harness bug and propagates (exit 2).
    """

    def run(case: Any) -> Outcome:
        try:
            return evaluate(case)
        except _Abort:
            raise
        except Exception as exc:  # noqa: BLE001
            if not has_pynguin_frame(exc):
                raise
            out = Outcome()
            out.fail("unexpected-exception|" + exc_sig(exc), exc_detail(exc))
            return out

    return run


def run_cases(ctx: Ctx, strategy: Any, evaluate: Callable[[Any], Outcome], max_examples: int,
              shrink: bool = True, time_budget: float | None = None) -> None:
    """Collect phase + per-signature shrink phase. Results go to ``ctx.result``."""
    ev = guarded(evaluate)
    t0 = time.time()
    # Hypothesis always starts with the all-minimal example; when a shard runs only a handful of (expensive) cases
    # that would make a large share of the campaign identical, so every shard but the first skips it.
    skip_first = ctx.shard > 0 and max_examples <= 50
    state = {"stopped": False, "n": 0}

    @hypothesis.seed(ctx.hyp_seed)
    @base_settings(max_examples + (1 if skip_first else 0), [Phase.generate])
    @given(strategy)
    def collect(case: Any) -> None:
        state["n"] += 1
        if skip_first and state["n"] == 1:
            return
        if time_budget is not None and time.time() - t0 > time_budget:
            state["stopped"] = True
            raise _Abort
        ctx.record(case, ev(case))

    try:
        collect()
    except _Abort:
        ctx.result.inconclusive["case-budget-cut-by-time"] += 1

    if not shrink:
        return
    new_sigs = [s for s in ctx.result.failures if not ctx.is_known(s)]
    max_sigs = int(ctx.params.get("shrink_sigs", 3))
    for sig in sorted(new_sigs)[:max_sigs]:
        best = _shrink_one(ctx, strategy, ev, sig, max_examples)
        if best is not None:
            slot = ctx.result.failures[sig]
            if len(jdump(best[0])) <= slot["size"]:
                slot.update(case=best[0], detail=best[1], size=len(jdump(best[0])), shrunk=True)


def _shrink_one(ctx: Ctx, strategy: Any, ev: Callable[[Any], Outcome], sig: str,
                max_examples: int) -> tuple[Any, str] | None:
    budget_calls = int(ctx.params.get("shrink_calls", 300 if ctx.tier == "quick" else 3000))
    budget_s = float(ctx.params.get("shrink_seconds", 45 if ctx.tier == "quick" else 240))
    st = {"calls": 0, "found": False, "best": None, "t0": time.time()}

    @hypothesis.seed(ctx.hyp_seed)
    @base_settings(max_examples + 1, [Phase.generate, Phase.shrink])
    @given(strategy)
    def hunt(case: Any) -> None:
        if st["found"]:
            st["calls"] += 1
            if st["calls"] > budget_calls or time.time() - st["t0"] > budget_s:
                raise _Abort
        elif time.time() - st["t0"] > 4 * budget_s:
            raise _Abort
        out = ev(case)
        for s, detail in out.failures:
            if s == sig:
                if not st["found"]:
                    st["found"] = True
                    st["t0"] = time.time()
                if st["best"] is None or len(jdump(case)) <= len(jdump(st["best"][0])):
                    st["best"] = (case, detail)
                raise _Target(sig)

    try:
        hunt()
    except (_Abort, _Target):
        pass
    except Exception:  # noqa: BLE001  (Flaky etc.: keep the best seen)
        pass
    return st["best"]
