"""Shared harness of C02 (line coverage truth) and C03 (branch coverage truth).

One *case* = {"module": pygen module model, "calls": [pygen calls], "metrics": ["LINE", "BRANCH", ...]}.

Isolation.  ``_child(case, want, scratch)`` evaluates one case and leaves nothing behind: it creates its own
``SubjectProperties`` + tracer, a uniquely named module file, its own import hook and monitoring tool id, and removes
module, hook, ``sys.path`` entry, tool id and files in ``finally``.  It is run
 * by ``run_shard`` (the campaign of a shard): in-process inside ONE forked, supervised worker per shard -- a worker killed
   by a signal (a wrongly rewritten code object can crash CPython; seen: SIGSEGV) is turned into the failure
   ``interpreter-crash|signal|…`` for the case it was working on, a worker that makes no progress for CASE_TIMEOUT seconds
   into the inconclusive verdict ``case-timeout``; the campaign is then replayed by a fresh worker;
 * by ``evaluate_case`` (``./check --replay``, replay files of known findings): in a forked child per case (``vf.iso.forked``).
(Fork-per-example for the whole campaign was measured at 0.5-5 s per fork on a busy machine vs. 0.2 s for the case itself.)

``_child``:
 1. the module source is written to ``<scratch>/vfsut_<hash>.py`` and compiled once;
 2. **ground truth**: that code object is executed, and every call performed, under ``vf.oracle.monitor.Monitor``
    restricted to the module's own code objects (LINE / INSTRUCTION / BRANCH / PY_START / CALL events);
 3. **pynguin**: the same file is imported through the real machinery, wired as ``generator._setup_import_hook`` /
    ``_load_sut`` do it: ``SubjectProperties`` -> ``install_import_hook(module, sp, coverage_metrics=…)`` (which adds the
    dynamic-seeding adapter exactly as in production) -> ``with sp.instrumentation_tracer: importlib.import_module``.
    The import trace is the report for the module execution; every call then runs under ``with tracer:`` on a fresh
    trace (``tracer.reset()`` drops the import trace, so a call's report contains only what the call did);
 4. the reports are compared with the ground truth (``_check_lines`` / ``_check_branches``).

A window is only compared when the instrumented run behaved like the original one (same outcome kind / exception
type) and the tracer did not raise into the subject: pynguin's branch-distance code has known defects for some
operands (C04) and leaves the tracer disabled after an exception (C05); such windows are counted as *excluded*
(label ``excluded:…``) instead of being blamed on C02/C03.
"""

from __future__ import annotations

import importlib
import os
import shutil
import sys
import tempfile
from typing import Any

from vf.core import Outcome, exc_detail, exc_sig, h12, has_pynguin_frame
from vf.gen import pygen
from vf.iso import forked
from vf.oracle.monitor import Monitor, all_code_objects, conditional_jumps

CHILD_TIMEOUT = 120.0


# ------------------------------------------------------------------------------------------ child side
def _outcome_key(kind: str, value: Any) -> str:
    if kind == "exc":
        return "exc:" + type(value).__name__
    try:
        return "ok:" + repr(value)[:200]
    except Exception as exc:  # noqa: BLE001
        return "ok:<unreprable " + type(exc).__name__ + ">"


def _make_watch_tracer():
    """An ``ExecutionTracer`` that additionally records exceptions escaping from its own recording methods."""
    from pynguin.instrumentation.tracer import ExecutionTracer

    class WatchTracer(ExecutionTracer):
        def __init__(self) -> None:
            super().__init__()
            self.raised: list[str] = []

        def _guard(self, name: str, *args: Any) -> None:
            try:
                getattr(ExecutionTracer, name)(self, *args)
            except BaseException as exc:  # noqa: BLE001
                self.raised.append(f"{name}:{type(exc).__name__}")
                raise

        def executed_compare_predicate(self, value1, value2, predicate, cmp_op) -> None:  # noqa: ANN001
            self._guard("executed_compare_predicate", value1, value2, predicate, cmp_op)

        def executed_bool_predicate(self, value, predicate) -> None:  # noqa: ANN001
            self._guard("executed_bool_predicate", value, predicate)

        def executed_exception_match(self, err, exc, predicate) -> None:  # noqa: ANN001
            self._guard("executed_exception_match", err, exc, predicate)

        def executed_code_object(self, code_object_id) -> None:  # noqa: ANN001
            self._guard("executed_code_object", code_object_id)

        def track_line_visit(self, line_id) -> None:  # noqa: ANN001
            self._guard("track_line_visit", line_id)

    return WatchTracer()


def _truth(case: dict[str, Any], code: Any, codes: list[Any]) -> dict[str, Any]:
    """Execute module and calls uninstrumented under the monitor."""
    ns: dict[str, Any] = {"__name__": "vfsut_truth"}
    windows = []
    with Monitor(codes) as mon:
        with mon.window() as obs:
            try:
                exec(code, ns)  # noqa: S102
                key = "ok"
            except Exception as exc:  # noqa: BLE001
                key = "exc:" + type(exc).__name__
        windows.append({"what": "import", "obs": obs, "key": key})
        if key == "ok":
            for idx, call in enumerate(case["calls"]):
                with mon.window() as obs:
                    kind, value = pygen.invoke(ns, call)
                windows.append({"what": f"call{idx}:{call['target']}", "obs": obs, "key": _outcome_key(kind, value)})
    return {"windows": windows}


def _child(case: dict[str, Any], want: str, scratch: str, short_lived: bool = False) -> dict[str, Any]:  # noqa: C901, PLR0912, PLR0915
    import pynguin.configuration as config
    from pynguin.instrumentation.machinery import install_import_hook
    from pynguin.instrumentation.tracer import SubjectProperties

    if short_lived:
        import gc

        gc.disable()  # forked one-case child: a collection would only touch (and thereby copy) the parent's pages
    res: dict[str, Any] = {"failures": [], "labels": [], "excluded": 0, "nontrivial": False, "windows": 0,
                           "inconclusive": None}
    model = case["module"]
    src = pygen.render(model)
    name = "vfsut_" + h12(case)
    workdir = tempfile.mkdtemp(prefix="c02c03_", dir=scratch)
    path = os.path.join(workdir, name + ".py")
    with open(path, "w") as fh:
        fh.write(src)
    try:
        code = compile(src, path, "exec")
        codes = all_code_objects(code)
        truth = _truth(case, code, codes)

        metrics = {config.CoverageMetric[m] for m in case["metrics"]}
        sp = SubjectProperties()
        watch = _make_watch_tracer()
        sp.instrumentation_tracer.tracer = watch
        sys.path.insert(0, workdir)
        hook = install_import_hook(name, sp, coverage_metrics=metrics, to_cover_config=config.ToCoverConfiguration())
        module = None
        import_key = "ok"
        try:
            with sp.instrumentation_tracer:
                module = importlib.import_module(name)
        except Exception as exc:  # noqa: BLE001
            if has_pynguin_frame(exc):
                res["failures"].append(["instrument|" + exc_sig(exc), exc_detail(exc) + "\n" + src[:1200]])
                return res
            import_key = "exc:" + type(exc).__name__
        finally:
            hook.uninstall()
        lines_src = src.splitlines()
        ctx = {"sp": sp, "codes": codes, "path": path, "nlines": len(lines_src), "line_map": pygen.line_map(model),
               "src": src, "res": res, "want": want, "metrics": "+".join(sorted(case["metrics"]))}
        if not _map_code_objects(ctx):
            return res

        def compare(window: dict[str, Any], trace: Any, key: str) -> None:
            res["windows"] += 1
            if watch.raised:
                res["excluded"] += 1
                res["labels"].append("excluded:tracer-raised:" + watch.raised[0])
                return
            if sp.instrumentation_tracer.is_disabled():
                res["excluded"] += 1
                res["labels"].append("excluded:tracer-left-disabled")
                return
            if key != window["key"]:
                res["excluded"] += 1
                res["labels"].append("excluded:behaviour-diverged")
                return
            if want == "line":
                _check_lines(ctx, window, trace)
            else:
                _check_branches(ctx, window, trace)

        # module execution = the import trace
        compare(truth["windows"][0], sp.instrumentation_tracer.import_trace, import_key)
        if module is None or truth["windows"][0]["key"] != "ok":
            res["labels"].append("import-raises")
            return res
        ns = module.__dict__
        for idx, call in enumerate(case["calls"]):
            del watch.raised[:]
            sp.instrumentation_tracer.enable()
            sp.instrumentation_tracer.reset()  # fresh trace, no import trace merged
            with sp.instrumentation_tracer:
                kind, value = pygen.invoke(ns, call)
            trace = sp.instrumentation_tracer.get_trace()
            compare(truth["windows"][idx + 1], trace, _outcome_key(kind, value))
        if want == "branch":
            _check_registration(ctx)
        return res
    finally:
        sys.modules.pop(name, None)
        if workdir in sys.path:
            sys.path.remove(workdir)
        shutil.rmtree(workdir, ignore_errors=True)


def _map_code_objects(ctx: dict[str, Any]) -> bool:
    """Registered code object id -> code object of the original module.

    Both trees are walked from the module code object; the registered children of a code object (registration
    order = order in ``co_consts``) are matched with the code constants of the original by (name, first line),
    keeping the order.  Originals without a partner are code objects that exist only in dead code (pynguin
    re-assembles the parent without them); they simply have no goals.
    """
    from types import CodeType

    sp, res = ctx["sp"], ctx["res"]
    metas = sp.existing_code_objects
    roots = [i for i, m in metas.items() if m.parent_code_object_id is None]
    if len(roots) != 1:
        res["inconclusive"] = "code-object-mapping"
        return False
    mapping: dict[int, Any] = {}

    def walk(cid: int, orig: Any) -> bool:
        mapping[cid] = orig
        children = sorted(i for i, m in metas.items() if m.parent_code_object_id == cid)
        originals = [c for c in orig.co_consts if isinstance(c, CodeType)]
        used: set[int] = set()
        for child in children:
            code = metas[child].code_object
            for pos, cand in enumerate(originals):
                if pos not in used and (cand.co_name, cand.co_firstlineno) == (code.co_name, code.co_firstlineno):
                    used.add(pos)
                    if not walk(child, cand):
                        return False
                    break
            else:
                return False
        return True

    if not walk(roots[0], ctx["codes"][0]):
        res["inconclusive"] = "code-object-mapping"
        return False
    ctx["all_codes"] = list(ctx["codes"])
    ctx["codes"] = mapping
    return True


def _line_kind(ctx: dict[str, Any], line: Any) -> str:
    info = ctx["line_map"].get(line)
    return info["kind"] if info else "?"


def _check_lines(ctx: dict[str, Any], window: dict[str, Any], trace: Any) -> None:
    sp, res, obs = ctx["sp"], ctx["res"], window["obs"]
    coverable = {m.line_number for m in sp.existing_lines.values() if isinstance(m.line_number, int)}
    reported: set[int] = set()
    for line_id in trace.covered_line_ids:
        meta = sp.existing_lines.get(line_id)
        if meta is None:
            res["failures"].append(["line|reported-unregistered-id", f"{window['what']}: line id {line_id} not registered"])
            continue
        if meta.file_name != ctx["path"]:
            res["failures"].append(["line|reported-foreign-file", f"{window['what']}: {meta.file_name!r} != {ctx['path']!r}"])
            continue
        ln = meta.line_number
        if not isinstance(ln, int) or isinstance(ln, bool):
            code_name = sp.existing_code_objects[meta.code_object_id].code_object.co_name
            gen = bool(sp.existing_code_objects[meta.code_object_id].code_object.co_flags & 0x20)
            res["failures"].append([f"line|reported-line-number-{ln!r}|{'generator' if gen else 'plain'}-code-object",
                                    f"{window['what']}: covered line goal with line_number {ln!r} in code object "
                                    f"{code_name!r}\n{ctx['src'][:1500]}"])
            continue
        if not 1 <= ln <= ctx["nlines"]:
            res["failures"].append(["line|reported-line-outside-source", f"{window['what']}: line {ln}"])
            continue
        reported.add(ln)
    lo, hi = obs.lines_lo(), obs.lines_hi()
    if not sp.existing_lines and len(lo) >= 2 and window["what"] == "import":
        # Not registration completeness (C08): only "a module that executes lines has line goals at all".
        res["failures"].append(["line|no-line-goal-registered-at-all",
                                f"module execution ran lines {sorted(lo)[:8]} but existing_lines is empty"])
    missing = sorted((lo & coverable) - reported)
    extra = sorted(reported - hi)
    for ln in missing[:3]:
        res["failures"].append([f"line|executed-not-reported|{_line_kind(ctx, ln)}",
                                f"{window['what']} metrics={ctx_metrics(ctx)}: line {ln} had a LINE event, is registered, "
                                f"but is not reported\n{_numbered(ctx, ln)}"])
    for ln in extra[:3]:
        res["failures"].append([f"line|reported-not-executed|{_line_kind(ctx, ln)}",
                                f"{window['what']} metrics={ctx_metrics(ctx)}: line {ln} is reported but no instruction of "
                                f"it was executed\n{_numbered(ctx, ln)}"])
    if len(lo) >= 2 and (coverable - hi):
        res["nontrivial"] = True
    res["labels"].append("window:line-compared")


def ctx_metrics(ctx: dict[str, Any]) -> str:
    return ctx.get("metrics", "")


def _numbered(ctx: dict[str, Any], focus: int, radius: int = 40) -> str:
    lines = ctx["src"].splitlines()
    lo, hi = max(1, focus - radius), min(len(lines), focus + 12)
    return "\n".join(f"{'>>' if i == focus else '  '}{i:4d} {lines[i - 1]}" for i in range(lo, hi + 1))


def _predicate_jumps(ctx: dict[str, Any], code_id: int) -> list[dict[str, Any]] | None:
    """Pair the conditional jumps of the instrumented CFG with those of the original code, in linear order.

    Returns one record per jump: original offset/fall-through/opname plus the CFG node and the labels of its
    two outgoing edges.  None if the two sequences do not line up (asserted by opcode name).
    """
    from bytecode.instr import Instr

    from pynguin.instrumentation import controlflow as cf
    from pynguin.instrumentation import version

    sp = ctx["sp"]
    meta = sp.existing_code_objects[code_id]
    cfg = meta.cfg
    blocks = cfg.bytecode_cfg
    orig = conditional_jumps(ctx["codes"][code_id])
    found = []
    for index, block in enumerate(blocks):
        for instr in block:
            if isinstance(instr, Instr) and not isinstance(instr, cf.ArtificialInstr) and version.is_conditional_jump(instr):
                found.append((index, block, instr))
    if [f[2].name for f in found] != [o["opname"] for o in orig]:
        return None
    graph_nodes = {n.index: n for n in cfg.basic_block_nodes}
    out = []
    for (index, block, instr), o in zip(found, orig):
        rec = dict(o)
        rec["node"] = graph_nodes.get(index)  # None: dead code, removed from the CFG
        rec["last"] = block.get_last_non_artificial_instruction() is instr
        jump_block, next_block = block.get_jump(), block.next_block
        rec["lab_jump"] = rec["lab_fall"] = None
        rec["ambiguous"] = jump_block is next_block
        if rec["node"] is not None and rec["last"] and jump_block is not None and next_block is not None:
            jn = graph_nodes.get(blocks.get_block_index(jump_block))
            fn = graph_nodes.get(blocks.get_block_index(next_block))
            if jn is not None:
                rec["lab_jump"] = (cfg.graph.get_edge_data(rec["node"], jn) or {}).get(cf.EDGE_DATA_BRANCH_VALUE)
            if fn is not None:
                rec["lab_fall"] = (cfg.graph.get_edge_data(rec["node"], fn) or {}).get(cf.EDGE_DATA_BRANCH_VALUE)
        out.append(rec)
    return out


def _jump_table(ctx: dict[str, Any]) -> dict[int, list[dict[str, Any]] | None]:
    table = ctx.get("jump_table")
    if table is None:
        table = ctx["jump_table"] = {cid: _predicate_jumps(ctx, cid) for cid in ctx["sp"].existing_code_objects}
    return table


def _check_branches(ctx: dict[str, Any], window: dict[str, Any], trace: Any) -> None:  # noqa: C901, PLR0912
    from pynguin.ga.coveragegoals import BranchGoalPool
    from pynguin.testcase.execution import ExecutionResult

    sp, res, obs = ctx["sp"], ctx["res"], window["obs"]
    result = ExecutionResult()
    result.execution_trace = trace
    pool = ctx.get("pool")
    if pool is None:
        pool = ctx["pool"] = BranchGoalPool(sp)
    covered = {(g.predicate_id, g.value) for g in pool.branch_goals if g.is_covered(result)}
    by_node = {(m.code_object_id, m.node.index): pid for pid, m in sp.existing_predicates.items()}
    one_sided = False
    for cid, jumps in _jump_table(ctx).items():
        if jumps is None:
            res["inconclusive"] = "jump-mapping"
            continue
        code = ctx["codes"][cid]
        events = obs.branches(code)
        for j in jumps:
            pid = by_node.get((cid, j["node"].index)) if j["node"] is not None and j["last"] else None
            if pid is None:
                # Ground-truth direction of the registration demand: a conditional jump the interpreter really executed must be
                # a predicate, also when pynguin's CFG lost the block (static part (4) only sees live CFG nodes).  Jumps in
                # genuinely dead code are never executed and therefore never demanded.
                if obs.branch_count(code, j["offset"]) > 0:
                    res["failures"].append([f"executed-jump-without-predicate|{j['opname']}",
                                            f"{window['what']} metrics={ctx.get('metrics')}: {j['opname']} at offset {j['offset']} "
                                            f"(line {j['line']}) of {code.co_name!r} was executed "
                                            f"{obs.branch_count(code, j['offset'])}x but no predicate is registered for it "
                                            f"(CFG node: {'pruned/absent' if j['node'] is None else j['node'].index})\n"
                                            f"{_numbered(ctx, j['line'] or 1, 25)}"])
                continue
            dsts = {d for s, d in events if s == j["offset"]}
            fell = j["fall"] in dsts
            jumped = any(d != j["fall"] for d in dsts)
            if j["ambiguous"] or j["lab_jump"] is None or j["lab_fall"] is None or j["lab_jump"] == j["lab_fall"]:
                res["labels"].append("skipped:ambiguous-edge-labels")
                continue
            exp_true = (j["lab_jump"] is True and jumped) or (j["lab_fall"] is True and fell)
            exp_false = (j["lab_jump"] is False and jumped) or (j["lab_fall"] is False and fell)
            rep_true, rep_false = (pid, True) in covered, (pid, False) in covered
            executed = pid in trace.executed_predicates
            where = (f"{window['what']} metrics={ctx.get('metrics')}: predicate {pid} = {j['opname']} at offset {j['offset']} "
                     f"(line {j['line']}) of {code.co_name!r}; interpreter: jumped={jumped} fell-through={fell}; CFG labels: "
                     f"jump edge={j['lab_jump']} fall-through edge={j['lab_fall']}; reported: true={rep_true} false={rep_false} "
                     f"executed={executed}\n{_numbered(ctx, j['line'] or 1, 25)}")
            op = j["opname"]
            before = len(res["failures"])
            reports = trace.executed_predicates.get(pid, 0)
            if op != "FOR_ITER" and reports > obs.branch_count(code, j["offset"]):
                # The tracer is told the operands *before* the comparison runs; here the comparison itself raised in the
                # original run (the jump was reached less often than an outcome was reported).
                if (rep_true and not exp_true) or (rep_false and not exp_false):
                    res["failures"].append([f"branch|{j['prev']}+{op}|outcome-reported-although-comparison-raised", where])
                res["labels"].append("comparison-raised-before-jump:" + str(j["prev"]))
                continue
            if (exp_true, exp_false) == (rep_false, rep_true) and exp_true != exp_false:
                res["failures"].append([f"branch|{op}|outcome-reported-for-opposite-branch", where])
            else:
                if rep_true and not exp_true:
                    res["failures"].append([f"branch|{op}|true-reported-not-taken", where])
                if exp_true and not rep_true:
                    res["failures"].append([f"branch|{op}|true-taken-not-reported", where])
                if rep_false and not exp_false:
                    res["failures"].append([f"branch|{op}|false-reported-not-taken", where])
                if exp_false and not rep_false:
                    res["failures"].append([f"branch|{op}|false-taken-not-reported", where])
            if len(res["failures"]) == before and executed != (jumped or fell):
                res["failures"].append([f"branch|{op}|executed-flag-wrong", where])
            if jumped != fell:
                one_sided = True
                res["labels"].append("one-sided:" + op)
            elif jumped and fell:
                res["labels"].append("both-sides:" + op)
    # code objects pynguin did not register at all must not have executed any conditional jump either
    mapped = {id(c) for c in ctx["codes"].values()}
    for code in ctx["all_codes"]:
        if id(code) not in mapped and obs.branches(code):
            res["failures"].append(["executed-jump-without-predicate|unregistered-code-object",
                                    f"{window['what']}: {code.co_name!r} (line {code.co_firstlineno}) executed conditional jumps "
                                    f"but is not a registered code object"])
    # entry of branch-less code objects
    for cid in sp.branch_less_code_objects:
        code = ctx["codes"][cid]
        rep = cid in trace.executed_code_objects
        gt = obs.entered(code)
        if rep != gt:
            kind = "generator" if code.co_flags & 0x20 else ("module" if code.co_name == "<module>" else "function")
            res["failures"].append([f"branchless-code-object|{kind}|{'reported-not-entered' if rep else 'entered-not-reported'}",
                                    f"{window['what']}: code object {cid} {code.co_name!r}: reported={rep} entered={gt}\n"
                                    f"{_numbered(ctx, code.co_firstlineno, 3)}"])
    if one_sided:
        res["nontrivial"] = True
    res["labels"].append("window:branch-compared")


def _check_registration(ctx: dict[str, Any]) -> None:
    """Every CFG node ending in a conditional jump / FOR_ITER is a predicate with a True and a False goal."""
    from pynguin.ga.coveragegoals import BranchGoalPool

    sp, res = ctx["sp"], ctx["res"]
    pool = ctx.get("pool") or BranchGoalPool(sp)
    goals = {(g.predicate_id, g.value) for g in pool.branch_goals}
    by_node = {(m.code_object_id, m.node.index): pid for pid, m in sp.existing_predicates.items()}
    branchless_goals = {g.code_object_id for g in pool.branchless_code_object_goals}
    for cid, jumps in _jump_table(ctx).items():
        if jumps is None:
            continue
        live = [j for j in jumps if j["node"] is not None and j["last"]]
        for j in live:
            pid = by_node.get((cid, j["node"].index))
            if pid is None:
                res["failures"].append([f"registration|{j['opname']}|conditional-jump-without-predicate",
                                        f"code object {cid} {ctx['codes'][cid].co_name!r}: {j['opname']} at offset {j['offset']} "
                                        f"line {j['line']} ends CFG node {j['node'].index} but no predicate is registered\n"
                                        f"{_numbered(ctx, j['line'] or 1, 20)}"])
            elif (pid, True) not in goals or (pid, False) not in goals:
                res["failures"].append([f"registration|{j['opname']}|predicate-without-both-goals", f"predicate {pid}"])
        if not live and cid not in branchless_goals and not any(m.code_object_id == cid for m in sp.existing_predicates.values()):
            res["failures"].append(["registration|branchless-code-object-without-goal", f"code object {cid}"])
    for pid, m in sp.existing_predicates.items():
        jumps = _jump_table(ctx).get(m.code_object_id)
        if jumps is not None and not any(j["node"] is not None and j["node"].index == m.node.index and j["last"]
                                         for j in jumps):
            res["failures"].append(["registration|predicate-on-node-without-conditional-jump",
                                    f"predicate {pid} line {m.line_no} node {m.node.index}"])


# ------------------------------------------------------------------------------------------ parent side
def _preload() -> None:
    """Import everything the child needs in the parent, so that a forked child starts with warm modules."""
    import bytecode  # noqa: F401
    import pynguin.configuration  # noqa: F401
    import pynguin.ga.coveragegoals  # noqa: F401
    import pynguin.instrumentation.machinery  # noqa: F401
    import pynguin.instrumentation.tracer  # noqa: F401
    import pynguin.testcase.execution  # noqa: F401

    global _FROZEN  # noqa: PLW0603
    if not _FROZEN:
        # Keep copy-on-write page faults in the forked children low: no cyclic-GC pass over the parent's heap.
        import gc

        gc.collect()
        gc.freeze()
        _FROZEN = True


_FROZEN = False


def evaluate_case(case: dict[str, Any], want: str) -> Outcome:
    """Run one case in a forked child and convert the result."""
    out = Outcome()
    _preload()
    scratch = os.environ.get("VF_SCRATCH_DIR") or os.environ.get("VERIF_SCRATCH") or tempfile.gettempdir()
    os.makedirs(scratch, exist_ok=True)
    room = tempfile.mkdtemp(prefix="c02c03_eval_", dir=scratch)  # removed here even if the child is killed
    try:
        kind, val = forked(lambda: _child(case, want, room, short_lived=True), CHILD_TIMEOUT)
    finally:
        shutil.rmtree(room, ignore_errors=True)
    _case_labels(out, case)
    if kind == "signal":
        _crash(out, case, val)
        return out
    if kind == "timeout":
        out.inconclusive = "child-timeout"
        return out
    if kind == "exit":
        out.inconclusive = f"child-exit-{val}"
        return out
    if kind == "exc":
        if val.get("pynguin_frame"):
            out.fail("unexpected-exception|" + val["sig"], val["detail"])
            return out
        raise RuntimeError("harness error in child: " + val["detail"])
    _fill(out, case, val)
    return out


def _case_labels(out: Outcome, case: dict[str, Any]) -> None:
    out.labels.extend("has:" + f for f in pygen.features_of(case["module"]))
    out.labels.append("metrics:" + "+".join(sorted(case["metrics"])))


def _crash(out: Outcome, case: dict[str, Any], signo: Any) -> None:
    out.fail("interpreter-crash|signal|metrics=" + "+".join(sorted(case["metrics"])),
             f"process killed by signal {signo} while instrumenting/executing\n{pygen.render(case['module'])[:1500]}")


def _fill(out: Outcome, case: dict[str, Any], val: dict[str, Any]) -> None:
    for sig, detail in val["failures"]:
        out.fail(sig, detail)
    out.labels.extend(val["labels"])
    out.excluded = val["excluded"]
    out.nontrivial = bool(val["nontrivial"])
    out.evaluations = max(1, val["windows"])
    if val["inconclusive"]:
        out.inconclusive = val["inconclusive"]
    out.sample = {"source": pygen.render(case["module"]), "calls": case["calls"][:2], "metrics": case["metrics"]}


# ------------------------------------------------------------------------------------------ shard runner
# Forking once per example costs 10-20 ms on an idle machine but seconds on a busy one.  The shard therefore runs the whole
# Hypothesis campaign inside ONE forked worker; inside the worker every case is evaluated in-process by ``_child`` (which
# builds fresh SubjectProperties/tracer per case and removes module, import hook, sys.path entry and monitoring tool in
# ``finally`` -- nothing is shared between examples).  Before each case the worker writes the case to a marker file.  If the
# worker is killed by a signal (a wrongly rewritten code object can crash CPython) or stops making progress, the supervisor
# takes the marked case as an ``interpreter-crash`` / ``case-timeout`` and starts a new worker, which replays the same seeded
# campaign and records that verdict when it meets the case again instead of executing it.
CASE_TIMEOUT = 120.0
MAX_RESTARTS = 40  # every restart replays the seeded campaign (0.2 s per case); shrinking only in the first attempts
SHRINK_ATTEMPTS = 6


def run_shard(ctx: Any, strategy: Any, want: str) -> None:
    import json
    import signal
    import time

    from vf.core import jdump
    from vf.hyp import run_cases

    _preload()
    per = max(1, int(ctx.params["examples"]) // ctx.nshards)
    marker = os.path.join(ctx.scratch, "current_case.json")
    result_path = os.path.join(ctx.scratch, "worker_result.json")
    verdicts: dict[str, tuple[str, Any]] = {}  # case hash -> ("signal", signo) | ("timeout", None)

    def evaluate(case: dict[str, Any]) -> Outcome:
        out = Outcome()
        _case_labels(out, case)
        verdict = verdicts.get(h12(case))
        if verdict is not None:
            if verdict[0] == "signal":
                _crash(out, case, verdict[1])
            else:
                out.inconclusive = "case-timeout"
            return out
        with open(marker, "w") as fh:
            fh.write(jdump(case))
        _fill(out, case, _child(case, want, ctx.scratch))
        return out

    for attempt in range(MAX_RESTARTS + 1):
        for path in (marker, result_path):
            if os.path.exists(path):
                os.remove(path)
        pid = os.fork()
        if pid == 0:  # worker
            code = 1
            try:
                run_cases(ctx, strategy, evaluate, per, shrink=attempt < SHRINK_ATTEMPTS)
                with open(result_path, "w") as fh:
                    json.dump(ctx.result.to_json(), fh, default=repr)
                code = 0
            except BaseException:  # noqa: BLE001
                import traceback

                traceback.print_exc()
                sys.stdout.flush()
                sys.stderr.flush()
            finally:
                os._exit(code)
        status = None
        while True:
            done, st_ = os.waitpid(pid, os.WNOHANG)
            if done:
                status = st_
                break
            time.sleep(0.2)
            try:
                idle = time.time() - os.path.getmtime(marker)
            except OSError:
                idle = 0.0
            if idle > CASE_TIMEOUT:
                os.kill(pid, signal.SIGKILL)
                os.waitpid(pid, 0)
                break
        stuck = None
        if os.path.exists(marker):
            with open(marker) as fh:
                stuck = json.load(fh)
        if status is None:  # no progress on one case
            if stuck is None:
                raise RuntimeError("worker made no progress before its first case")
            verdicts[h12(stuck)] = ("timeout", None)
            continue
        if os.WIFSIGNALED(status):
            if stuck is None:
                raise RuntimeError(f"worker killed by signal {os.WTERMSIG(status)} before its first case")
            verdicts[h12(stuck)] = ("signal", os.WTERMSIG(status))
            continue
        if os.WEXITSTATUS(status) != 0 or not os.path.exists(result_path):
            raise RuntimeError(f"worker failed with exit status {os.WEXITSTATUS(status)} (traceback above)")
        with open(result_path) as fh:
            data = json.load(fh)
        res = ctx.result
        res.evaluations, res.cases, res.excluded = data["evaluations"], data["cases"], data["excluded"]
        res.nontrivial = set(data["nontrivial"])
        res.labels.update(data["labels"])
        res.samples = data["samples"]
        res.failures = data["failures"]
        res.inconclusive.update(data["inconclusive"])
        res.notes.update(data["notes"])
        res.notes["worker_restarts"] = attempt
        return
    raise RuntimeError("worker restarted too often")
