"""Turns a factory-built test case into one that re-binds variable names, as hand-written / seeded / LLM tests do.

``rebind(test_case, picks)`` returns a NEW ``TestCase``: for some statements (chosen by the drawn ``picks``) the bound
variable is replaced by the name of an *earlier* variable of the same bound type; later reads follow the renaming.
The result is an ordinary, valid test case (every read is bound before, types agree) - only the name reuse is new.
"""
from __future__ import annotations

from typing import Any


def rebind(test_case: Any, picks: list[int]) -> tuple[Any, int]:
    import pynguin.testcase.testcase as tc

    out = tc.TestCase()
    rename: dict[str, str] = {}
    by_type: dict[Any, list[str]] = {}
    by_callee: dict[int, str] = {}  # id(accessible) -> name bound by the latest earlier call of the same callable
    n_rebound = 0
    for idx, stmt in enumerate(test_case.statements()):
        bv = stmt.bound_variable
        mapping = dict(rename)
        new_bound = bv
        pick = picks[idx % len(picks)] if picks else 0
        if bv is not None and stmt.bound_type is not None:
            earlier = by_type.get(stmt.bound_type, [])
            same_callee = by_callee.get(id(stmt.accessible)) if stmt.accessible is not None else None
            if same_callee is not None and pick % 3 != 2:
                # "result = f(a); ...; result = f(b)": the second call of the same callable re-uses the result name
                new_bound = same_callee
                mapping[bv] = new_bound
                rename[bv] = new_bound
                n_rebound += 1
            elif earlier and pick % 3 == 0:
                new_bound = earlier[(pick // 3) % len(earlier)]
                mapping[bv] = new_bound
                rename[bv] = new_bound
                n_rebound += 1
            else:
                by_type.setdefault(stmt.bound_type, []).append(bv)
        if stmt.accessible is not None and new_bound is not None:
            by_callee[id(stmt.accessible)] = new_bound
        node = stmt.node.visit(tc._VariableRenamer(mapping)) if mapping else stmt.node  # noqa: SLF001
        out.add_statement(tc.Statement(node=node, bound_variable=new_bound, bound_type=stmt.bound_type,
                                       assertions=[], accessible=stmt.accessible, ml_info=stmt.ml_info))
    return out, n_rebound
