"""C21 parts (c) and (d): in-process assertion-generation sessions (helper of vf/checks/c21_assertion_minimization.py).

(c) tests built by the real factory get assertions from ``AssertionGenerator`` / ``MutationAnalysisAssertionGenerator``
    (first- and higher-order); afterwards they are re-executed on the *unmutated* module with a fresh
    ``RemoteAssertionVerificationObserver``: no assertion may fail or error.
(d) the same tests go through ``MutationAnalysisAssertionGenerator`` with minimization off (A) and on (B); our own loop
    over ``MutationController.create_mutants()`` computes, per test, the mutants whose assertions are violated:
    kills(B) must contain kills(A).

SUTs: the shared corpus modules plus a deliberately *flaky* module written to the scratch directory (drawn subset of: an object whose
``__len__`` works once per process and raises afterwards, a function whose result changes after the first call, objects with a
value-changing field AND a disappearing attribute at once, so that one statement has failing and erroring assertions): the
filtering pass has to remove the assertions that do not hold / raise on re-execution.
"""

from __future__ import annotations

import hashlib
import os
import tempfile
from typing import Any

from hypothesis import strategies as st

FLAKY_HEAD = '''"""Deliberately flaky SUT for C21: assertions observed in the first execution do not hold later."""
_len_calls = 0
_value_calls = 0
_constructed = 0
_made = 0


def stable(value: int) -> int:
    if value > 3:
        return value - 3
    return 3 - value
'''

# member name -> source; which members a case uses is drawn ("flaky_mask")
FLAKY_MEMBERS = {
    # len() works once per process, raises afterwards -> the length assertion ERRORS on re-execution
    "box": '''

class Box:
    def __init__(self, value: int) -> None:
        self.value = value

    def __len__(self) -> int:
        global _len_calls
        _len_calls += 1
        if _len_calls > 1:
            raise RuntimeError("length no longer available")
        return 2

    def double(self) -> int:
        return self.value + self.value


def make_box(value: int) -> Box:
    return Box(value)
''',
    # the result changes after the first call -> the value assertion FAILS on re-execution
    "unstable": '''

def unstable(value: int) -> int:
    global _value_calls
    _value_calls += 1
    if _value_calls > 1:
        return value + 1
    return value
''',
    # both kinds on the SAME object (hence the same statement): 'serial' changes per construction (FAILS),
    # 'warmup' exists only on the very first object (AttributeError -> ERRORS), 'label' is stable
    "tracker": '''

class Tracker:
    def __init__(self) -> None:
        global _constructed
        _constructed += 1
        self.serial = _constructed
        if _constructed == 1:
            self.warmup = True
        self.label = "s"
''',
    # the same two kinds on an object returned by a function, plus a value that disappears instead of changing
    "record": '''

class Record:
    def __init__(self, first: bool, number: int) -> None:
        self.number = number
        self.kind = "r"
        if first:
            self.once = 7
            self.twice = "x"


def make_record(value: int) -> Record:
    global _made
    _made += 1
    return Record(_made == 1, _made + value - value)
''',
}
FLAKY_ORDER = ["box", "unstable", "tracker", "record"]


def flaky_source(mask: int) -> str:
    members = [m for i, m in enumerate(FLAKY_ORDER) if mask & (1 << i)] or list(FLAKY_ORDER)
    return FLAKY_HEAD + "".join(FLAKY_MEMBERS[m] for m in members)


STRATEGIES = ["FIRST_ORDER_MUTANTS", "FIRST_TO_LAST", "EACH_CHOICE", "BETWEEN_OPERATORS", "RANDOM"]


def strategy(ctx) -> st.SearchStrategy | None:
    try:
        from vf.corpus import MODULES  # noqa: F401
        from vf.session import Session  # noqa: F401
    except Exception:  # noqa: BLE001
        return None
    from vf.corpus import MODULES

    return st.fixed_dictionaries({
        "kind": st.just("session"),
        # quick tier: two thirds of the (few) sessions use the flaky module, so that the filtering pass is always exercised
        "module": st.sampled_from([*MODULES, *(["flaky"] * (2 * len(MODULES) if ctx.tier == "quick" else 3))]),
        "seed": st.integers(0, 10_000),
        # which flaky members the generated SUT has (bit i = FLAKY_ORDER[i]); all of them half of the time
        "flaky_mask": st.one_of(st.just(15), st.sampled_from([4, 8, 12, 5, 6, 9, 10, 13, 14, 7, 11])),
        "ntests": st.integers(1, 3),
        "size": st.integers(3, 7),
        "mode": st.sampled_from(["plain", "mutation", "mutation"]),
        "strategy": st.sampled_from(STRATEGIES),
        "order": st.integers(2, 3),
        "minimize": st.booleans(),
        "compare": st.booleans() if ctx.tier == "thorough" else st.integers(0, 3).map(lambda i: i == 0),
    })


def _violations(result: Any) -> list[tuple[str, int, int]]:
    tr = result.assertion_verification_trace
    return [("failed", s, a) for s, aa in tr.failed.items() for a in aa] + [("error", s, a) for s, aa in tr.error.items() for a in aa]


def evaluate_session(case: dict, out: Any) -> None:
    """Runs the session; a violation counts only if a second, independent run of the same case shows it again.

    pynguin's filtering pass skips a test whose filtering execution hits the (wall-clock) execution timeout, so on a
    heavily loaded machine an unverified assertion can survive once in a while; that is a timing effect, which this
    framework classifies as inconclusive, never as a violation.  Deterministic defects reproduce on the second run.
    """
    from vf.core import Outcome

    _session_once(case, out, attempt=0)
    if not out.failures:
        return
    second = Outcome()
    _session_once(case, second, attempt=1)
    again = {sig for sig, _ in second.failures}
    confirmed = [(sig, detail) for sig, detail in out.failures if sig in again]
    if len(confirmed) != len(out.failures):
        out.labels.append("session:violation-not-reproduced")
        if not confirmed:
            out.inconclusive = "violation-not-reproduced-on-second-run"
    out.failures[:] = confirmed


def _session_once(case: dict, out: Any, attempt: int) -> None:  # noqa: C901
    import pynguin.assertion.assertiongenerator as ag
    import pynguin.assertion.assertiontraceobserver as ato
    import pynguin.configuration as config
    import pynguin.generator as gen
    import pynguin.testcase.execution as ex
    from pynguin.utils import randomness
    from vf.corpus import CORPUS_DIR
    from vf.session import Session

    scratch = tempfile.mkdtemp(prefix="vf_c21_", dir=os.environ.get("VF_SCRATCH_DIR") or os.environ.get("VERIF_SCRATCH") or None)
    try:
        if case["module"] == "flaky":
            name = "vfsut_c21_" + hashlib.sha1(repr((sorted(case.items()), attempt)).encode()).hexdigest()[:10]
            with open(os.path.join(scratch, name + ".py"), "w", encoding="utf-8") as fh:
                fh.write(flaky_source(int(case.get("flaky_mask", 15))))
            module_dir = scratch
        else:
            name, module_dir = case["module"], CORPUS_DIR
        mode = case["mode"]
        hom = case["strategy"] != "FIRST_ORDER_MUTANTS"
        overrides = {"test_case_output.filter_assertions_in_subprocess": False,
                     "test_case_output.assertion_minimization": bool(case["minimize"]),
                     "test_case_output.mutation_strategy": case["strategy"],
                     "test_case_output.mutation_order": int(case["order"]) if hom else 1}
        tag = "plain" if mode == "plain" else ("hom" if hom else "first-order") + ("+min" if case["minimize"] else "")
        with Session(module_dir, name, seed=case["seed"], instantiate=False, scratch=scratch,
                     assertion_generation="MUTATION_ANALYSIS" if mode == "mutation" else "SIMPLE", overrides=overrides) as s:
            tests = []
            for i in range(case["ntests"]):
                t = s.random_test_case(seed=case["seed"] * 7 + i, size=case["size"])
                if t is not None and t.size() > 0:
                    tests.append(t)
            if not tests:
                out.inconclusive = "no-test-case-built"
                return
            pristine = [t.clone() for t in tests]
            randomness.RNG.seed(case["seed"])
            if mode == "plain":
                generator: Any = ag.AssertionGenerator(s.executor)
            else:
                generator = gen._setup_mutation_analysis_assertion_generator(s.executor)  # noqa: SLF001
            generator._add_assertions(tests)  # noqa: SLF001
            n_assertions = sum(len(st_.assertions) for t in tests for st_ in t.statements())
            out.labels.append(f"session:{tag}")
            out.labels.append("session:assertions>0" if n_assertions else "session:no-assertions")

            # ---- (c) every kept assertion holds on the unmutated module
            timeouts = 0
            with s.executor.temporarily_add_remote_observer(ato.RemoteAssertionVerificationObserver()):
                for t, r in zip(tests, list(s.executor.execute_multiple(tests))):
                    if r.timeout:
                        timeouts += 1
                        continue
                    for kind, stmt_idx, a_idx in _violations(r):
                        stmts = t.statements()
                        a = list(stmts[stmt_idx].assertions)[a_idx] if stmt_idx < len(stmts) and a_idx < len(stmts[stmt_idx].assertions) else None
                        out.fail(f"session|{'flaky' if case['module'] == 'flaky' else 'corpus'}|kept-assertion-{kind}-on-original|{type(a).__name__}",
                                 f"module {name}, {tag}: statement {stmt_idx} assertion {a_idx} ({a!r}) {kind} on re-execution")
            if timeouts:
                out.inconclusive = "test-execution-timeout"
            out.nontrivial = n_assertions > 0
            out.evaluations = 1 + len(tests)

            # ---- (d) minimization keeps the kills
            # (RANDOM draws its groups from pynguin's RNG: our own enumeration would see other mutants than the generator)
            if mode == "mutation" and case["compare"] and not timeouts and case["strategy"] != "RANDOM" \
                    and case["module"] != "flaky":  # (d) needs a deterministic SUT: both variants must observe the same values
                _compare(case, s, name, pristine, out, gen, ex, ato, config, randomness)
    finally:
        import shutil

        shutil.rmtree(scratch, ignore_errors=True)


def _compare(case, s, name, pristine, out, gen, ex, ato, config, randomness) -> None:  # noqa: ANN001, PLR0913
    import inspect

    from pynguin.assertion.mutation_analysis.controller import MutationController
    from pynguin.assertion.mutation_analysis.transformer import ParentNodeTransformer

    variants = {}
    for label, flag in (("A", False), ("B", True)):
        tests = [t.clone() for t in pristine]
        config.configuration.test_case_output.assertion_minimization = flag
        randomness.RNG.seed(case["seed"])
        g = gen._setup_mutation_analysis_assertion_generator(s.executor)  # noqa: SLF001
        g._add_assertions(tests)  # noqa: SLF001
        variants[label] = tests
    n = len(pristine)
    both = variants["A"] + variants["B"]
    randomness.RNG.seed(case["seed"])
    controller = MutationController(gen._setup_mutant_generator(), ParentNodeTransformer.create_ast(inspect.getsource(s.module)),  # noqa: SLF001
                                    s.module)
    executor = ex.TestCaseExecutor(s.subject_properties.sharing_registries())
    executor.add_remote_observer(ato.RemoteAssertionVerificationObserver())
    kills: list[set[int]] = [set() for _ in both]
    checked = 0
    for m_idx, (mutant, _mutations) in enumerate(controller.create_mutants()):
        if mutant is None:
            continue
        executor.module_provider.add_mutated_version(module_name=name, mutated_module=mutant)
        results = list(executor.execute_multiple(both))
        if any(r is None or r.timeout for r in results):
            continue  # timed-out mutants are outside the score and the selection
        checked += 1
        for i, r in enumerate(results):
            if _violations(r):
                kills[i].add(m_idx)
    out.evaluations += checked
    out.labels.append("session:compared-min-on-off")
    for i in range(n):
        lost = kills[i] - kills[n + i]
        if lost:
            out.fail("session|minimization|kills-lost", f"module {name}: test {i} kills {sorted(kills[i])} without and {sorted(kills[n + i])} with "
                                                         f"minimization (lost {sorted(lost)})")
