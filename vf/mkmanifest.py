"""Regenerates MANIFEST.json from the check modules (python -m vf.mkmanifest)."""
from __future__ import annotations

import json
import subprocess

from vf.core import REPO, ROOT
from vf.run import all_checks

NOT_BUILT_REASON = "no generated-input check has been built for this property yet (see DESIGN.md §3 for the planned one)"


def main() -> None:
    props = [json.loads(l) for l in (ROOT / "properties.jsonl").read_text().splitlines() if l.strip()]
    import vf.manifest_extra as extra_mod
    mods = {m.PROPERTY: m for m in all_checks() if m.PROPERTY in extra_mod.READY}
    checks = []
    for p in props:
        m = mods.get(p["id"])
        if m is None:
            continue
        meta = m.META
        entry = {
            "property_id": p["id"],
            "quick_cmd": f"./check {p['id']} quick",
            "thorough_cmd": f"./check {p['id']} thorough",
            "evidence_file": f"evidence/{p['id']}.json",
            "replay_cmd_template": "./check --replay {path}",
            "engine": "vf",
            "level_claimed": {"category": "exploration", "text": meta["level_text"], "design_ref": meta.get("design_ref", "DESIGN.md §3")},
            "level_note": meta["level_note"],
            "technique": meta["technique"],
        }
        checks.append(entry)
    hooks_commits = []
    try:
        out = subprocess.run(["git", "-C", str(REPO), "log", "--format=%H %s"], capture_output=True, text=True).stdout
        hooks_commits = [l.split()[0] for l in out.splitlines() if " verif-hook:" in l]
    except Exception:  # noqa: BLE001
        pass
    extra = getattr(__import__("vf.manifest_extra", fromlist=["x"]), "NOT_APPLICABLE", {})
    man = {
        "version": 1,
        "setup_cmd": "./setup.sh",
        "hooks": {
            "guard": "SE2P_PYNGUIN_VERIF",
            "enable": "environment variable SE2P_PYNGUIN_VERIF=1 (set by ./check); pynguin is pure Python and is imported from /repo/src, so there is no build step",
            "baseline_off_cmd": "cd /repo && env -u SE2P_PYNGUIN_VERIF /venv/bin/python -m pytest -ra -q -p no:cacheprovider --timeout=900 --continue-on-collection-errors",
            "source_commits": hooks_commits,
            "add_only": True,
        },
        "engines": [{
            "name": "vf",
            "path": "vf/",
            "serves_properties": [c["property_id"] for c in checks],
            "kind_free_text": "property-based testing / fuzzing: Hypothesis-driven generators (values, programs, modules, operation histories, fault sequences) against explicit oracles; collect-then-shrink; sharded over 16 cores",
        }],
        "checks": checks,
        "notes": "Every check is `./check <id> quick|thorough`; replays with `./check --replay <file>`. VERIF_SEED selects the Hypothesis seed; VERIF_REPO (default /repo) selects the tree whose src/ is imported. known_findings.json lists recorded defects and fix: commits.",
        "not_applicable": [{"property_id": p["id"], "reason": extra.get(p["id"], NOT_BUILT_REASON)} for p in props if p["id"] not in mods],
    }
    (ROOT / "MANIFEST.json").write_text(json.dumps(man, indent=1) + "\n")
    print(f"MANIFEST.json: {len(checks)} checks, {len(man['not_applicable'])} not claimed")


if __name__ == "__main__":
    main()
