"""Shared data structures of the /verif framework (no pynguin imports here)."""

from __future__ import annotations

import dataclasses
import hashlib
import json
import os
import pathlib
import re
import traceback
from collections import Counter
from typing import Any

ROOT = pathlib.Path(__file__).resolve().parent.parent
REPO = pathlib.Path(os.environ.get("VERIF_REPO", "/repo"))


def jdump(obj: Any) -> str:
    return json.dumps(obj, sort_keys=True, default=repr, ensure_ascii=True)


def h12(obj: Any) -> str:
    return hashlib.sha1(jdump(obj).encode()).hexdigest()[:12]


@dataclasses.dataclass
class Outcome:
    """Result of evaluating the oracle on one generated case."""

    failures: list[tuple[str, str]] = dataclasses.field(default_factory=list)  # (signature, detail)
    nontrivial: bool = False
    key: Any = None  # what "distinct" means; default: the case itself
    labels: list[str] = dataclasses.field(default_factory=list)
    sample: Any = None  # how to show this case in the evidence; default: the case
    inconclusive: str | None = None
    excluded: int = 0  # sub-cases skipped because they match a known finding
    evaluations: int = 1  # how many oracle evaluations this case stands for
    extra_keys: list[Any] = dataclasses.field(default_factory=list)  # more distinct non-trivial keys

    def fail(self, sig: str, detail: str = "") -> None:
        self.failures.append((sig, detail[:2000]))


class ShardResult:
    """What one shard process reports back to the runner."""

    def __init__(self) -> None:
        self.evaluations = 0
        self.cases = 0
        self.nontrivial: set[str] = set()
        self.labels: Counter[str] = Counter()
        self.samples: list[Any] = []
        self.failures: dict[str, dict[str, Any]] = {}  # sig -> {count, case, detail}
        self.inconclusive: Counter[str] = Counter()
        self.excluded = 0
        self.notes: dict[str, Any] = {}

    def record(self, case: Any, out: Outcome, max_samples: int = 4) -> None:
        self.cases += 1
        self.evaluations += out.evaluations
        for lab in out.labels:
            self.labels[lab] += 1
        self.excluded += out.excluded
        if out.inconclusive:
            self.inconclusive[out.inconclusive] += 1
        if out.nontrivial:
            self.nontrivial.add(h12(out.key if out.key is not None else case))
            for k in out.extra_keys:
                self.nontrivial.add(h12(k))
            if len(self.samples) < max_samples:
                self.samples.append(out.sample if out.sample is not None else case)
        for sig, detail in out.failures:
            slot = self.failures.get(sig)
            size = len(jdump(case))
            if slot is None:
                self.failures[sig] = {"count": 1, "case": case, "detail": detail, "size": size}
            else:
                slot["count"] += 1
                if size < slot["size"]:
                    slot.update(case=case, detail=detail, size=size)

    def to_json(self) -> dict[str, Any]:
        return {
            "evaluations": self.evaluations,
            "cases": self.cases,
            "nontrivial": sorted(self.nontrivial),
            "labels": dict(self.labels),
            "samples": self.samples,
            "failures": self.failures,
            "inconclusive": dict(self.inconclusive),
            "excluded": self.excluded,
            "notes": self.notes,
        }


class Ctx:
    """Per-shard context handed to a check's ``shard(ctx)``."""

    def __init__(self, prop: str, tier: str, seed: int, shard: int, nshards: int,
                 params: dict[str, Any], known: list[dict[str, Any]], scratch: str) -> None:
        self.prop = prop
        self.tier = tier
        self.seed = seed
        self.shard = shard
        self.nshards = nshards
        self.params = params
        self.known = known
        self.scratch = scratch
        self.result = ShardResult()

    @property
    def hyp_seed(self) -> int:
        return self.seed * 1_000_003 + self.shard

    def record(self, case: Any, out: Outcome) -> None:
        self.result.record(case, out)

    def note(self, key: str, value: Any) -> None:
        self.result.notes[key] = value

    def is_known(self, sig: str) -> bool:
        return any(match_known(e, sig) for e in self.known if e.get("status") == "known")


def match_known(entry: dict[str, Any], sig: str) -> bool:
    rx = entry.get("sig_regex")
    return bool(rx) and re.search(rx, sig) is not None


def load_known(prop: str | None = None) -> list[dict[str, Any]]:
    entries: list[dict[str, Any]] = []
    paths = [ROOT / "known_findings.json", *sorted((ROOT / "known_findings.d").glob("*.json"))]
    for path in paths:
        if path.exists():
            entries.extend(json.loads(path.read_text()).get("findings", []))
    if prop is not None:
        entries = [e for e in entries if e.get("property") == prop]
    return entries


_PKG_MARKERS = ("/pynguin/",)


def exc_sig(exc: BaseException) -> str:
    """Root-cause bucket of an exception: type + innermost pynguin frame (function name)."""
    frames = traceback.extract_tb(exc.__traceback__)
    inner = None
    for fr in frames:
        if any(m in fr.filename for m in _PKG_MARKERS):
            inner = fr
    where = f"{pathlib.Path(inner.filename).name}:{inner.name}" if inner else "no-pynguin-frame"
    return f"{type(exc).__name__}@{where}"


def exc_detail(exc: BaseException, limit: int = 6) -> str:
    return "".join(traceback.format_exception(type(exc), exc, exc.__traceback__, limit=-limit))[-1800:]


def has_pynguin_frame(exc: BaseException) -> bool:
    return any(any(m in fr.filename for m in _PKG_MARKERS) for fr in traceback.extract_tb(exc.__traceback__))
