"""Independent dynamic-dependence interpreter for the C09 mini-language (DESIGN.md §3 C09, oracle 3).

A *program model* is a JSON-able dict (built by the generator in ``vf/checks/c09_slicing.py``)::

    {"globals": [int, int],                       # module constants G0, G1
     "helpers": [{"kind": "int"|"obj"|"lst", "body": [stmt...], "ret": expr}, ...],
                                                  # hK(a0, a1) / hK(a0, a1, q) (q: a Box) / hK(a0, a1, m) (m: a list)
                                                  # helper K may only call helpers < K (no recursion)
     "main": {"body": [stmt...], "ret": expr},    # f(a0, a1)
     "args": [int, int]}                          # the call  f(*args)

    expr ::= ["c", int] | ["v", name] | ["g", i] | ["b", "+"|"-"|"*", expr, expr]
           | ["call", k, expr, expr] | ["call", k, expr, expr, name]      (name: object / list variable passed by reference)
           | ["rcall", k, expr, expr]    call of a *recursive* helper, rendered ``hK(e1, (e2) % 3)``: a1 is its fuel
           | ["self", k, expr]           the recursive call inside helper K, rendered ``hK(e, a1 - 1)``; the generator puts
                                         it behind the guard ``if a1 <= 0: return ...`` (recursion depth <= 3)
           | ["attr", objvar, "v"|"w"] | ["sub", listvar, index]
    index ::= ["c", 0..2] | expr                   (a non-constant index is rendered / evaluated as ``(expr) % 3``)
    cond ::= ["cmp", "<"|"<="|"=="|"!="|">"|">=", expr, expr]
    stmt ::= ["set", name, expr] | ["if", cond, [stmt...], [stmt...]]
           | ["while", counter, bound, [stmt...]]  (bound ::= ["c", 0..3] | expr, the latter rendered ``(expr) % 4``)
           | ["new", objvar, expr, expr] | ["setattr", objvar, field, expr]
           | ["newlist", listvar, [expr, expr, expr]] | ["setsub", listvar, index, expr]
           | ["alias", dst, src] | ["ret", expr]

``layout(model)`` renders the model to Python, **one statement per line**, and returns the line-annotated tree that
``interpret`` walks.  ``interpret`` never looks at the Python text: it executes the model with its own big-step
semantics and carries, with every value, the set of source lines in the *dynamic data + control dependence closure*
of the statement instance that produced it (forward computation of Korel-Laski dynamic slices, instance based):

* a statement instance depends on the instances that last defined each of its operands (locals, parameters -> the
  argument expressions of the call instance, module globals -> the module-level assignment, attributes / list
  elements -> the store instance into *that heap cell*; for subscript loads also the definition of the variable through
  which the list is reached, for attribute accesses and subscript stores only with ``object_var_deps=True``) and on the
  predicate instance that controls it;
* predicate instances: the evaluation of an ``if`` condition controls the statements of the branch taken; the k-th
  evaluation of a ``while`` header controls the k-th iteration of the body and the (k+1)-th evaluation; statements
  after a loop do NOT depend on the loop-exit evaluation (unless the loop body contains a ``return``); statements that
  follow an ``if`` containing a ``return`` depend on that ``if``'s predicate instance;
* the statements of a callee depend on the call instance: the line of the call, what controls it, and the module-level
  ``def`` / ``class`` line that defines the callee's name.  They do *not* depend on the argument expressions unless they
  read the parameter (so the oracle stays a lower bound for slicers that treat a call as one node).

Everything demanded is a genuine dependence under these rules, i.e. the result is a *lower bound* for a sound slice;
heap cells are tracked per object and per field/index, which is finer than any address-based slicer needs to be.
"""

from __future__ import annotations

from typing import Any

FIELDS = ("v", "w")
LIST_LEN = 3
PRELUDE = [
    "class Box:",
    "    def __init__(self, v, w):",
    "        self.v = v",
    "        self.w = w",
    "",
    "",
]
CLASS_LINE, INIT_DEF_LINE, INIT_V_LINE, INIT_W_LINE = 1, 2, 3, 4
OBJ_PARAM, LST_PARAM = "q", "m"


class Unsupported(Exception):
    """The model left the interpreter's domain (undefined name, unguarded recursion): a generator bug."""


class TooLong(Unsupported):
    """More statement instances than the fuel allows (nested loops x recursion): the case is skipped."""


# --------------------------------------------------------------------------------------------------
# rendering (model -> source + line-annotated tree)
# --------------------------------------------------------------------------------------------------
def _rx(e: list) -> str:
    k = e[0]
    if k == "c":
        return repr(int(e[1]))
    if k == "v":
        return str(e[1])
    if k == "g":
        return f"G{int(e[1])}"
    if k == "b":
        return f"({_rx(e[2])} {e[1]} {_rx(e[3])})"
    if k == "call":
        args = [_rx(e[2]), _rx(e[3])] + ([str(e[4])] if len(e) > 4 else [])
        return f"h{int(e[1])}({', '.join(args)})"
    if k == "rcall":
        return f"h{int(e[1])}({_rx(e[2])}, ({_rx(e[3])}) % 3)"
    if k == "self":
        return f"h{int(e[1])}({_rx(e[2])}, a1 - 1)"
    if k == "attr":
        return f"{e[1]}.{e[2]}"
    if k == "sub":
        return f"{e[1]}[{_ridx(e[2])}]"
    raise ValueError(f"unknown expression {e!r}")


def _ridx(e: list) -> str:
    return repr(int(e[1])) if e[0] == "c" else f"({_rx(e)}) % {LIST_LEN}"


def _rbound(e: list) -> str:
    return repr(int(e[1])) if e[0] == "c" else f"({_rx(e)}) % 4"


def _rcond(c: list) -> str:
    return f"{_rx(c[2])} {c[1]} {_rx(c[3])}"


class _Layout:
    def __init__(self) -> None:
        self.lines: list[str] = []

    def emit(self, indent: int, text: str) -> int:
        self.lines.append("    " * indent + text)
        return len(self.lines)

    def block(self, stmts: list, indent: int) -> list[dict[str, Any]]:
        out = []
        for s in stmts:
            k = s[0]
            if k == "set":
                out.append({"k": k, "line": self.emit(indent, f"{s[1]} = {_rx(s[2])}"), "name": s[1], "e": s[2]})
            elif k == "if":
                line = self.emit(indent, f"if {_rcond(s[1])}:")
                then = self.block(s[2], indent + 1)
                els: list[dict[str, Any]] = []
                if s[3]:
                    self.emit(indent, "else:")
                    els = self.block(s[3], indent + 1)
                out.append({"k": k, "line": line, "cond": s[1], "then": then, "else": els})
            elif k == "while":
                init = self.emit(indent, f"{s[1]} = 0")
                head = self.emit(indent, f"while {s[1]} < {_rbound(s[2])}:")
                body = self.block(s[3], indent + 1)
                inc = self.emit(indent + 1, f"{s[1]} = {s[1]} + 1")
                out.append({"k": k, "init": init, "line": head, "inc": inc, "counter": s[1], "bound": s[2], "body": body})
            elif k == "new":
                out.append({"k": k, "line": self.emit(indent, f"{s[1]} = Box({_rx(s[2])}, {_rx(s[3])})"),
                            "name": s[1], "e1": s[2], "e2": s[3]})
            elif k == "setattr":
                out.append({"k": k, "line": self.emit(indent, f"{s[1]}.{s[2]} = {_rx(s[3])}"),
                            "name": s[1], "field": s[2], "e": s[3]})
            elif k == "newlist":
                out.append({"k": k, "line": self.emit(indent, f"{s[1]} = [{', '.join(_rx(x) for x in s[2])}]"),
                            "name": s[1], "es": s[2]})
            elif k == "setsub":
                out.append({"k": k, "line": self.emit(indent, f"{s[1]}[{_ridx(s[2])}] = {_rx(s[3])}"),
                            "name": s[1], "idx": s[2], "e": s[3]})
            elif k == "alias":
                out.append({"k": k, "line": self.emit(indent, f"{s[1]} = {s[2]}"), "name": s[1], "src": s[2]})
            elif k == "ret":
                out.append({"k": k, "line": self.emit(indent, f"return {_rx(s[1])}"), "e": s[1]})
            else:
                raise ValueError(f"unknown statement {s!r}")
        return out


def layout(model: dict[str, Any]) -> dict[str, Any]:
    """Render *model*; returns {"source", "globals": [(value, line)], "helpers": [fn], "main": fn, "n_lines"} with
    fn = {"def_line", "params", "body" (annotated statements, the last one is the final ``ret``)}."""
    lay = _Layout()
    lay.lines.extend(PRELUDE)
    globs = []
    for i, val in enumerate(model["globals"]):
        globs.append((int(val), lay.emit(0, f"G{i} = {int(val)!r}")))
    helpers = []
    for k, h in enumerate(model["helpers"]):
        lay.emit(0, "")
        lay.emit(0, "")
        kind = h.get("kind", "int")
        params = ["a0", "a1"] + ([OBJ_PARAM] if kind == "obj" else [LST_PARAM] if kind == "lst" else [])
        def_line = lay.emit(0, f"def h{k}({', '.join(params)}):")
        body = lay.block(list(h["body"]) + [["ret", h["ret"]]], 1)
        helpers.append({"def_line": def_line, "params": params, "body": body, "kind": kind})
    lay.emit(0, "")
    lay.emit(0, "")
    def_line = lay.emit(0, "def f(a0, a1):")
    body = lay.block(list(model["main"]["body"]) + [["ret", model["main"]["ret"]]], 1)
    main = {"def_line": def_line, "params": ["a0", "a1"], "body": body, "kind": "int"}
    return {"source": "\n".join(lay.lines) + "\n", "globals": globs, "helpers": helpers, "main": main,
            "n_lines": len(lay.lines)}




# --------------------------------------------------------------------------------------------------
# interpretation with dependence sets
# --------------------------------------------------------------------------------------------------
Lines = frozenset  # of int: closure of lines
Origins = frozenset  # of (line, dependence type): the *direct* dependences of a value / control context
EMPTY: frozenset = frozenset()


class _Box:
    __slots__ = ("fields",)

    def __init__(self) -> None:
        self.fields: dict[str, tuple[int, frozenset, frozenset]] = {}


class _List:
    __slots__ = ("elems",)

    def __init__(self) -> None:
        self.elems: list[tuple[int, frozenset, frozenset]] = []


class _Return(Exception):
    def __init__(self, value: int, deps: frozenset, line: int) -> None:
        super().__init__()
        self.value = value
        self.deps = deps
        self.line = line


def _contains_return(stmts: list[dict[str, Any]]) -> bool:
    for s in stmts:
        if s["k"] == "ret":
            return True
        if s["k"] == "if" and (_contains_return(s["then"]) or _contains_return(s["else"])):
            return True
        if s["k"] == "while" and _contains_return(s["body"]):
            return True
    return False


_CMP = {"<": lambda a, b: a < b, "<=": lambda a, b: a <= b, "==": lambda a, b: a == b,
        "!=": lambda a, b: a != b, ">": lambda a, b: a > b, ">=": lambda a, b: a >= b}


class Interpreter:
    """Big-step interpreter over the annotated tree of ``layout``.

    Values are triples (value, closure, origins): *closure* is the set of lines in the dependence closure of the
    instance that produced the value, *origins* the set of (line, type) of that instance itself (the direct dependence
    a reader of the value gets).  A control context is a pair (closure, origins).  ``edges[line]`` collects the direct
    dependences of all instances of a line; it is only used to name the *first* missing dependence in a report.
    """

    def __init__(self, lay: dict[str, Any], fuel: int = 4000, object_var_deps: bool = False) -> None:
        self.lay = lay
        self.fuel = fuel
        #: demand, for ``o.v`` / ``o.v = e`` / ``l[i] = e``, also the definition of the variable ``o`` / ``l``
        #: (``o = Box(..)``, ``o = p``, the parameter binding).  Off by default: pynguin's slicer documents that it does
        #: not search the uses of the instructions that prepare the object of an attribute access or of a store
        #: (stacksimulation.update_push_operations: "DISABLED INCLUDE USE").  Subscript *loads* always demand it.
        self.object_var_deps = object_var_deps
        self.executed: set[int] = set()
        self.kinds: dict[int, str] = {}
        self.edges: dict[int, set[tuple[int, str]]] = {}
        self.instances = 0
        self.depth = 0
        self.stats = {"calls": 0, "iterations": 0, "heap_reads": 0, "heap_writes": 0, "preds": 0, "early_returns": 0,
                      "recursive_calls": 0}

    # ---- bookkeeping
    def _tick(self, line: int, kind: str) -> None:
        self.instances += 1
        if self.instances > self.fuel:
            raise TooLong("fuel exhausted")
        self.executed.add(line)
        self.kinds[line] = kind

    def _edge(self, line: int, *origin_sets: frozenset) -> None:
        slot = self.edges.setdefault(line, set())
        for o in origin_sets:
            slot.update(o)

    # ---- expressions: returns (value, closure, origins)
    def ev(self, e: list, env: dict[str, tuple], line: int, ctrl: tuple[frozenset, frozenset]):
        k = e[0]
        if k == "c":
            return int(e[1]), EMPTY, EMPTY
        if k == "v":
            if e[1] not in env or isinstance(env[e[1]][0], (_Box, _List)):
                raise Unsupported(f"undefined int variable {e[1]}")
            return env[e[1]]
        if k == "g":
            val, gline = self.lay["globals"][int(e[1])]
            return val, frozenset((gline,)), frozenset(((gline, "global"),))
        if k == "b":
            a, da, oa = self.ev(e[2], env, line, ctrl)
            b, db, ob = self.ev(e[3], env, line, ctrl)
            val = a + b if e[1] == "+" else a - b if e[1] == "-" else a * b
            return val, da | db, oa | ob
        if k == "attr":
            obj, dvar, ovar = self._lookup(env, e[1], _Box)
            self.stats["heap_reads"] += 1
            val, dfield, ofield = obj.fields[e[2]]
            if not self.object_var_deps:
                return val, dfield, ofield
            return val, dvar | dfield, ovar | ofield
        if k == "sub":
            lst, dvar, ovar = self._lookup(env, e[1], _List)
            idx, didx, oidx = self._index(e[2], env, line, ctrl)
            self.stats["heap_reads"] += 1
            val, delem, oelem = lst.elems[idx]
            return val, dvar | didx | delem, ovar | oidx | oelem
        if k in ("call", "rcall", "self"):
            fn = self.lay["helpers"][int(e[1])]
            a, da, oa = self.ev(e[2], env, line, ctrl)
            if k == "self":
                b, db, ob = env["a1"]
                b -= 1
                if b < 0:
                    raise Unsupported("unguarded recursion")
            else:
                b, db, ob = self.ev(e[3], env, line, ctrl)
                if k == "rcall":
                    b %= 3
            here = frozenset((line,))
            via = frozenset(((line, "param"),))
            base = here | ctrl[0]
            callee_env: dict[str, tuple] = {"a0": (a, da | base, oa | via), "a1": (b, db | base, ob | via)}
            if k == "call" and len(e) > 4:
                ref, dref, oref = env[e[4]]
                callee_env[fn["params"][2]] = (ref, dref | base, oref | via)
            call_ctrl = (base | frozenset((fn["def_line"],)),
                         frozenset(((line, "ctrl-call"), (fn["def_line"], "callee-def"))))
            self.stats["calls"] += 1
            if k == "self":
                self.depth += 1
                self.stats["recursive_calls"] += 1
            try:
                val, dret, ret_line = self.run_function(fn, callee_env, call_ctrl)
            finally:
                if k == "self":
                    self.depth -= 1
            return val, dret | call_ctrl[0], frozenset(((ret_line, "return"), (fn["def_line"], "callee-def")))
        raise Unsupported(f"unknown expression {e!r}")

    @staticmethod
    def _lookup(env, name: str, cls: type):
        if name not in env or not isinstance(env[name][0], cls):
            raise Unsupported(f"{name} is not a {cls.__name__}")
        return env[name]

    def _index(self, e: list, env, line: int, ctrl):
        if e[0] == "c":
            return int(e[1]), EMPTY, EMPTY
        val, deps, orig = self.ev(e, env, line, ctrl)
        return val % LIST_LEN, deps, orig

    # ---- statements
    def run_function(self, fn: dict[str, Any], env, ctrl):
        try:
            self.block(fn["body"], env, ctrl)
        except _Return as r:
            return r.value, r.deps, r.line
        raise Unsupported("function fell off its end")

    def block(self, stmts: list[dict[str, Any]], env, ctrl):
        """Executes the statements; returns the control context at the end of the block (it grows after an ``if`` /
        ``while`` that contains a ``return`` which was not taken)."""
        for s in stmts:
            k = s["k"]
            line = s["line"]
            if k == "while":
                ctrl = self._while(s, env, ctrl)
                continue
            self._tick(line, k)
            here = frozenset((line,))
            if k == "set":
                val, d, o = self.ev(s["e"], env, line, ctrl)
                self._edge(line, o, ctrl[1])
                env[s["name"]] = (val, d | here | ctrl[0], frozenset(((line, "local"),)))
            elif k == "if":
                c = s["cond"]
                a, da, oa = self.ev(c[2], env, line, ctrl)
                b, db, ob = self.ev(c[3], env, line, ctrl)
                self._edge(line, oa, ob, ctrl[1])
                self.stats["preds"] += 1
                pred = (da | db | here | ctrl[0], frozenset(((line, "ctrl-if"),)))
                branch = s["then"] if _CMP[c[1]](a, b) else s["else"]
                end = self.block(branch, env, pred)
                if _contains_return(s["then"]) or _contains_return(s["else"]):
                    ctrl = (ctrl[0] | end[0], ctrl[1] | end[1])
            elif k == "new":
                a, da, oa = self.ev(s["e1"], env, line, ctrl)
                b, db, ob = self.ev(s["e2"], env, line, ctrl)
                base = ctrl[0] | here | frozenset((CLASS_LINE,))
                corig = frozenset(((line, "ctrl-call"), (CLASS_LINE, "callee-def")))
                via = frozenset(((line, "param"),))
                obj = _Box()
                self._tick(INIT_V_LINE, "init-store")
                self._edge(INIT_V_LINE, oa, via, corig)
                obj.fields["v"] = (a, da | base | frozenset((INIT_V_LINE,)), frozenset(((INIT_V_LINE, "attr"),)))
                self._tick(INIT_W_LINE, "init-store")
                self._edge(INIT_W_LINE, ob, via, corig)
                obj.fields["w"] = (b, db | base | frozenset((INIT_W_LINE,)), frozenset(((INIT_W_LINE, "attr"),)))
                self.stats["heap_writes"] += 2
                self._edge(line, frozenset(((CLASS_LINE, "callee-def"),)), ctrl[1])
                env[s["name"]] = (obj, base, frozenset(((line, "local-object"),)))
            elif k == "setattr":
                obj, dvar, ovar = self._lookup(env, s["name"], _Box)
                if not self.object_var_deps:
                    dvar, ovar = EMPTY, EMPTY
                val, d, o = self.ev(s["e"], env, line, ctrl)
                self._edge(line, o, ovar, ctrl[1])
                self.stats["heap_writes"] += 1
                obj.fields[s["field"]] = (val, d | dvar | here | ctrl[0], frozenset(((line, "attr"),)))
            elif k == "newlist":
                lst = _List()
                for x in s["es"]:
                    val, d, o = self.ev(x, env, line, ctrl)
                    self._edge(line, o)
                    lst.elems.append((val, d | here | ctrl[0], frozenset(((line, "elem"),))))
                self._edge(line, ctrl[1])
                self.stats["heap_writes"] += 1
                env[s["name"]] = (lst, here | ctrl[0], frozenset(((line, "local-object"),)))
            elif k == "setsub":
                lst, dvar, ovar = self._lookup(env, s["name"], _List)
                if not self.object_var_deps:
                    dvar, ovar = EMPTY, EMPTY
                val, d, o = self.ev(s["e"], env, line, ctrl)
                idx, didx, oidx = self._index(s["idx"], env, line, ctrl)
                self._edge(line, o, oidx, ovar, ctrl[1])
                self.stats["heap_writes"] += 1
                lst.elems[idx] = (val, d | didx | dvar | here | ctrl[0], frozenset(((line, "elem"),)))
            elif k == "alias":
                ref, dsrc, osrc = env[s["src"]]
                self._edge(line, osrc, ctrl[1])
                env[s["name"]] = (ref, dsrc | here | ctrl[0], frozenset(((line, "local-object"),)))
            elif k == "ret":
                val, d, o = self.ev(s["e"], env, line, ctrl)
                self._edge(line, o, ctrl[1])
                raise _Return(val, d | here | ctrl[0], line)
            else:
                raise Unsupported(f"unknown statement kind {k}")
        return ctrl

    def _while(self, s: dict[str, Any], env, ctrl):
        counter = s["counter"]
        self._tick(s["init"], "while-init")
        self._edge(s["init"], ctrl[1])
        env[counter] = (0, frozenset((s["init"],)) | ctrl[0], frozenset(((s["init"], "local"),)))
        has_return = _contains_return(s["body"])
        head = frozenset((s["line"],))
        loop_ctrl = ctrl  # what controls the next evaluation of the header
        while True:
            self._tick(s["line"], "while")
            cval, dc, oc = env[counter]
            if s["bound"][0] == "c":
                bound, dbound, obound = int(s["bound"][1]), EMPTY, EMPTY
            else:
                raw, dbound, obound = self.ev(s["bound"], env, s["line"], loop_ctrl)
                bound = raw % 4
            self._edge(s["line"], oc, obound, loop_ctrl[1])
            self.stats["preds"] += 1
            pred = (dc | dbound | head | loop_ctrl[0], frozenset(((s["line"], "ctrl-while"),)))
            if not cval < bound:
                # loop exit: later statements depend on this evaluation only if the body could have returned instead
                return (ctrl[0] | pred[0], ctrl[1] | pred[1]) if has_return else ctrl
            self.stats["iterations"] += 1
            end = self.block(s["body"], env, pred)
            self._tick(s["inc"], "while-inc")
            cval, dc, oc = env[counter]
            self._edge(s["inc"], oc, end[1])
            env[counter] = (cval + 1, dc | frozenset((s["inc"],)) | end[0], frozenset(((s["inc"], "local"),)))
            loop_ctrl = end


def interpret(model: dict[str, Any], lay: dict[str, Any] | None = None, fuel: int = 4000,
              object_var_deps: bool = False) -> dict[str, Any]:
    """Run ``f(*args)`` of the model.

    Returns {"value", "deps": sorted lines the returned value depends on, "executed": sorted lines with at least one
    executed statement instance (module level included), "kinds": {line: statement kind}, "edges": {line: sorted
    [(line, dependence type)]} with the virtual line 0 standing for the caller of ``f``, "instances", "stats"}.
    """
    lay = lay or layout(model)
    it = Interpreter(lay, fuel=fuel, object_var_deps=object_var_deps)
    # module level: class statement, its body (the ``def __init__`` line), global assignments, def statements
    it.executed.update((CLASS_LINE, INIT_DEF_LINE))
    it.kinds[CLASS_LINE] = "class"
    it.kinds[INIT_DEF_LINE] = "def"
    for _, line in lay["globals"]:
        it.executed.add(line)
        it.kinds[line] = "global"
    for fn in [*lay["helpers"], lay["main"]]:
        it.executed.add(fn["def_line"])
        it.kinds[fn["def_line"]] = "def"
    a0, a1 = (int(x) for x in model["args"])
    env: dict[str, tuple] = {"a0": (a0, EMPTY, EMPTY), "a1": (a1, EMPTY, EMPTY)}
    value, deps, ret_line = it.run_function(lay["main"], env, (EMPTY, EMPTY))
    it.edges[0] = {(ret_line, "return")}
    if lay["main"]["body"][-1]["line"] != ret_line:
        it.stats["early_returns"] += 1
    return {"value": value, "deps": sorted(deps), "executed": sorted(it.executed), "kinds": dict(it.kinds),
            "edges": {line: sorted(v) for line, v in it.edges.items()}, "instances": it.instances,
            "stats": dict(it.stats)}


def first_missing(result: dict[str, Any], present: set[int]) -> list[tuple[int, str, str]]:
    """The missing dependences that are *directly* needed by something present: [(line, dependence type, kind)].

    ``present`` is the set of lines a slicer reported.  A line of ``result["deps"]`` that is not present is reported
    only if the caller of ``f`` or a line that is both demanded and present depends on it directly, which keeps the
    consequences of one missed dependence (everything reachable only through it) out of the report.
    """
    demanded = set(result["deps"])
    missing = demanded - set(present)
    out: set[tuple[int, str, str]] = set()
    for src, targets in result["edges"].items():
        if src != 0 and (src not in demanded or src in missing):
            continue
        for line, typ in targets:
            if line in missing:
                out.add((line, typ, result["kinds"].get(line, "?")))
    return sorted(out)
