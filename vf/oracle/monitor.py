"""Ground truth about what the interpreter executed, observed through ``sys.monitoring`` (PEP 669, Python 3.12).

INTERFACE (used by C02, C03; usable by C01, C05, C08, C09, C35)
===============================================================

    with Monitor(code_objects) as mon:            # a free tool id is claimed; always freed again
        with mon.window() as obs:                 # one observation window
            exec(code, namespace)                 # or: call a function of the module
    obs.line_events(code)    -> set of line numbers of LINE events in ``code``
    obs.offsets(code)        -> set of instruction offsets of INSTRUCTION events in ``code``
    obs.instr_lines(code)    -> lines of those instructions (offset -> ``co_positions``; location-less ones dropped)
    obs.branches(code)       -> set of (source offset, destination offset) of BRANCH events
    obs.branch_count(code, src) -> number of BRANCH events of the jump at offset ``src``
    obs.started(code)        -> True if a PY_START (function entry) or PY_RESUME was seen for ``code``
    obs.entered(code)        -> started, or an instruction of it was seen, or a monitored caller CALLed a function with
                                this code (a generator function that is called but never iterated executes only its
                                unmonitored prologue), or the harness declared the call with ``obs.note_called(code)``
    obs.lines_lo() / obs.lines_hi()   -> two-sided bracket over *all* monitored code objects (see below)

Events are restricted with ``sys.monitoring.set_local_events`` to exactly the given code objects (use
``all_code_objects(module_code)`` to get a module's code objects recursively through ``co_consts``), so nothing
outside the generated module is observed and the rest of the process runs at full speed.

The code objects must be the *uninstrumented* ones that are executed inside the window: compile the source once,
pass ``all_code_objects(code)``, and execute that very code object.

Facts about CPython 3.12 that shaped the interface (each was observed with a probe):
* A generator function that is called but never iterated executes only its prologue: no event at all is emitted for
  its code object (PY_START comes with the first ``next()``), although pynguin's probes at the start of the code object
  have run -> ``entered`` also uses CALL events of monitored callers and ``note_called``.
* LINE events are not emitted for the generator prologue (``RETURN_GENERATOR``/``POP_TOP`` before ``RESUME``) and not for
  ``RESUME`` itself, although these instructions carry a line and are executed -> ``lines_lo`` (LINE events) is a lower
  bound, ``lines_hi`` (lines of all INSTRUCTION events + ``co_firstlineno`` of every code object entered) an upper
  bound of "the lines that were executed".
* An exhausted ``FOR_ITER`` jumps *behind* the ``END_FOR`` its argument points at: classify a BRANCH event by
  comparing its destination with the fall-through offset (``conditional_jumps(code)[k]["fall"]``), never with the jump target.
"""

from __future__ import annotations

import dis
import sys
from contextlib import contextmanager
from types import CodeType
from typing import Any, Iterator

TOOL_NAME = "vf-oracle"
COND_JUMPS = ("POP_JUMP_IF_TRUE", "POP_JUMP_IF_FALSE", "POP_JUMP_IF_NONE", "POP_JUMP_IF_NOT_NONE", "FOR_ITER")


def all_code_objects(code: CodeType) -> list[CodeType]:
    """The code object itself and, recursively, all code objects among its constants (pre-order)."""
    out = [code]
    for const in code.co_consts:
        if isinstance(const, CodeType):
            out.extend(all_code_objects(const))
    return out


def offset_lines(code: CodeType) -> dict[int, int | None]:
    """Instruction offset -> line number (None for location-less instructions), from ``co_positions``."""
    return {2 * i: pos[0] for i, pos in enumerate(code.co_positions())}


def conditional_jumps(code: CodeType) -> list[dict[str, Any]]:
    """The conditional jumps / ``FOR_ITER`` of a code object in linear order.

    Each entry: {"offset", "opname", "target" (jump target offset), "fall" (offset of the next instruction that is
    not a CACHE entry, i.e. where execution continues when the jump is not taken), "prev" (opname of the instruction in
    front of the jump, e.g. COMPARE_OP / CONTAINS_OP / IS_OP), "line"}.
    """
    instrs = list(dis.get_instructions(code))
    out = []
    for i, ins in enumerate(instrs):
        if ins.opname in COND_JUMPS:
            fall = instrs[i + 1].offset if i + 1 < len(instrs) else None
            prev = instrs[i - 1].opname if i > 0 else None
            out.append({"offset": ins.offset, "opname": ins.opname, "target": ins.argval, "fall": fall, "prev": prev,
                        "line": ins.positions.lineno if ins.positions else None})
    return out


class Observation:
    """Events of one window, per code object."""

    def __init__(self, codes: list[CodeType]) -> None:
        self._codes = codes
        self.lines: dict[CodeType, set[int]] = {}
        self.instrs: dict[CodeType, set[int]] = {}
        self.branch: dict[CodeType, set[tuple[int, int]]] = {}
        self.branch_n: dict[CodeType, dict[int, int]] = {}
        self.starts: dict[CodeType, int] = {}
        self.called: dict[CodeType, int] = {}

    def note_called(self, code: CodeType) -> None:
        """Declare that the harness itself called a function with this code object inside the window."""
        self.called[code] = self.called.get(code, 0) + 1

    def line_events(self, code: CodeType) -> set[int]:
        return set(self.lines.get(code, ()))

    def offsets(self, code: CodeType) -> set[int]:
        return set(self.instrs.get(code, ()))

    def instr_lines(self, code: CodeType) -> set[int]:
        table = offset_lines(code)
        return {table[o] for o in self.instrs.get(code, ()) if table.get(o) is not None}  # type: ignore[misc]

    def branches(self, code: CodeType) -> set[tuple[int, int]]:
        return set(self.branch.get(code, ()))

    def branch_count(self, code: CodeType, src: int) -> int:
        """How many BRANCH events the jump at offset ``src`` produced (= how often the jump was executed)."""
        return self.branch_n.get(code, {}).get(src, 0)

    def started(self, code: CodeType) -> bool:
        return self.starts.get(code, 0) > 0

    def entered(self, code: CodeType) -> bool:
        """Function entry or any instruction of the code object was observed."""
        return (self.started(code) or bool(self.instrs.get(code)) or bool(self.lines.get(code))
                or self.called.get(code, 0) > 0)

    def lines_lo(self) -> set[int]:
        """Lines with a LINE event (what a line tracer calls executed)."""
        out: set[int] = set()
        for s in self.lines.values():
            out |= s
        return out

    def lines_hi(self) -> set[int]:
        """Lines of every executed instruction plus the first line of every code object entered."""
        out: set[int] = set()
        for code in self._codes:
            out |= self.instr_lines(code)
            if self.entered(code):
                out.add(code.co_firstlineno)
        return out


class Monitor:
    """Claims a free ``sys.monitoring`` tool id and observes exactly the given code objects."""

    def __init__(self, codes: list[CodeType], instructions: bool = True) -> None:
        self.codes = list(codes)
        self._ids = {id(c): c for c in self.codes}
        self.instructions = instructions
        self.tool: int | None = None
        self._cur: Observation | None = None

    # ---- callbacks (return None: never DISABLE, every occurrence is wanted)
    def _on_line(self, code: CodeType, line: int) -> None:
        obs = self._cur
        if obs is not None and id(code) in self._ids:
            obs.lines.setdefault(code, set()).add(line)

    def _on_instruction(self, code: CodeType, offset: int) -> None:
        obs = self._cur
        if obs is not None and id(code) in self._ids:
            obs.instrs.setdefault(code, set()).add(offset)

    def _on_branch(self, code: CodeType, src: int, dst: int) -> None:
        obs = self._cur
        if obs is not None and id(code) in self._ids:
            obs.branch.setdefault(code, set()).add((src, dst))
            counts = obs.branch_n.setdefault(code, {})
            counts[src] = counts.get(src, 0) + 1

    def _on_start(self, code: CodeType, offset: int) -> None:
        obs = self._cur
        if obs is not None and id(code) in self._ids:
            obs.starts[code] = obs.starts.get(code, 0) + 1

    def _on_call(self, code: CodeType, offset: int, func: Any, arg0: Any) -> None:
        obs = self._cur
        if obs is None:
            return
        target = getattr(getattr(func, "__func__", func), "__code__", None)
        if target is not None and id(target) in self._ids:
            obs.called[target] = obs.called.get(target, 0) + 1

    def __enter__(self) -> "Monitor":
        mon = sys.monitoring
        for cand in (4, 3, 5, 2, 1, 0):
            if mon.get_tool(cand) is None:
                self.tool = cand
                break
        else:
            raise RuntimeError("no free sys.monitoring tool id")
        mon.use_tool_id(self.tool, TOOL_NAME)
        try:
            ev = mon.events
            mon.register_callback(self.tool, ev.LINE, self._on_line)
            mon.register_callback(self.tool, ev.BRANCH, self._on_branch)
            mon.register_callback(self.tool, ev.PY_START, self._on_start)
            mon.register_callback(self.tool, ev.PY_RESUME, self._on_start)
            mon.register_callback(self.tool, ev.CALL, self._on_call)
            mask = ev.LINE | ev.BRANCH | ev.PY_START | ev.PY_RESUME | ev.CALL
            if self.instructions:
                mon.register_callback(self.tool, ev.INSTRUCTION, self._on_instruction)
                mask |= ev.INSTRUCTION
            for code in self.codes:
                mon.set_local_events(self.tool, code, mask)
        except BaseException:
            self._release()
            raise
        return self

    def _release(self) -> None:
        mon = sys.monitoring
        tool = self.tool
        if tool is None:
            return
        try:
            for code in self.codes:
                try:
                    mon.set_local_events(tool, code, 0)
                except Exception:  # noqa: BLE001
                    pass
            ev = mon.events
            for e in (ev.LINE, ev.BRANCH, ev.PY_START, ev.PY_RESUME, ev.INSTRUCTION, ev.CALL):
                try:
                    mon.register_callback(tool, e, None)
                except Exception:  # noqa: BLE001
                    pass
        finally:
            mon.free_tool_id(tool)
            self.tool = None

    def __exit__(self, *exc: object) -> None:
        self._cur = None
        self._release()

    @contextmanager
    def window(self) -> Iterator[Observation]:
        obs = Observation(self.codes)
        self._cur = obs
        try:
            yield obs
        finally:
            self._cur = None
