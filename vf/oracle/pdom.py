"""Naive post-dominator sets and Ferrante/Ottenstein/Warren control dependence on plain graphs.

Deliberately primitive and independent of the code under test: no networkx, no dominator *tree*, no
lowest-common-ancestor walk.  Graphs are given as

    nodes : list of hashable ids
    edges : list of (source, target, label)   label in {True, False, None}; parallel edges allowed

Definitions (Ferrante et al. 1987, on the graph augmented with START -> ENTRY and START -> EXIT):

    pdom(EXIT) = {EXIT};  pdom(n) = {n} | intersection of pdom(s) over the successors s of n
    (greatest fixed point, computed by iteration from "all nodes")

    B is control dependent on A under the label of the CFG edge (A, S)  iff
    B in pdom(S)  and  B not in pdom(A) - {A}

The result keeps a *set* of labels per (A, B) because several CFG edges of A can make the same B
control dependent (possible as soon as A has more than two successors).
"""

from __future__ import annotations

from typing import Any, Hashable, Iterable

Node = Hashable
Edge = tuple[Any, Any, Any]


def successors(nodes: Iterable[Node], edges: Iterable[Edge]) -> dict[Node, list[Node]]:
    succ: dict[Node, list[Node]] = {n: [] for n in nodes}
    for a, b, _ in edges:
        if b not in succ[a]:
            succ[a].append(b)
    return succ


def predecessors(nodes: Iterable[Node], edges: Iterable[Edge]) -> dict[Node, list[Node]]:
    pred: dict[Node, list[Node]] = {n: [] for n in nodes}
    for a, b, _ in edges:
        if a not in pred[b]:
            pred[b].append(a)
    return pred


def reachable(start: Node, adj: dict[Node, list[Node]]) -> set[Node]:
    seen = {start}
    todo = [start]
    while todo:
        n = todo.pop()
        for m in adj[n]:
            if m not in seen:
                seen.add(m)
                todo.append(m)
    return seen


def structural_problems(nodes: list[Node], edges: list[Edge], entry: Node, exit_: Node) -> list[tuple[str, str]]:
    """Single entry / single exit / everything on a path from entry to exit.  Returns (kind, detail)."""
    problems: list[tuple[str, str]] = []
    nodeset = set(nodes)
    for a, b, _ in edges:
        if a not in nodeset or b not in nodeset:
            problems.append(("edge-to-unknown-node", f"{a!r}->{b!r}"))
            return problems
    if entry not in nodeset:
        return [("no-entry-node", "")]
    if exit_ not in nodeset:
        return [("no-exit-node", "")]
    succ = successors(nodes, edges)
    pred = predecessors(nodes, edges)
    no_in = [n for n in nodes if not pred[n]]
    no_out = [n for n in nodes if not succ[n]]
    if no_in != [entry]:
        problems.append(("in-degree-0-not-exactly-entry", repr(no_in)))
    if no_out != [exit_]:
        problems.append(("out-degree-0-not-exactly-exit", repr(no_out)))
    fwd = reachable(entry, succ)
    if fwd != nodeset:
        problems.append(("unreachable-from-entry", repr(sorted(map(repr, nodeset - fwd)))))
    bwd = reachable(exit_, pred)
    if bwd != nodeset:
        problems.append(("cannot-reach-exit", repr(sorted(map(repr, nodeset - bwd)))))
    return problems


def postdominators(nodes: list[Node], edges: list[Edge], exit_: Node) -> dict[Node, frozenset[Node]]:
    succ = successors(nodes, edges)
    allnodes = frozenset(nodes)
    pdom: dict[Node, frozenset[Node]] = {n: allnodes for n in nodes}
    pdom[exit_] = frozenset([exit_])
    changed = True
    while changed:
        changed = False
        for n in nodes:
            if n == exit_:
                continue
            acc: frozenset[Node] | None = None
            for s in succ[n]:
                acc = pdom[s] if acc is None else (acc & pdom[s])
            new = frozenset([n]) | (acc if acc is not None else frozenset())
            if new != pdom[n]:
                pdom[n] = new
                changed = True
    return pdom


def control_dependence(nodes: list[Node], edges: list[Edge], entry: Node, exit_: Node, start: Node
                       ) -> dict[tuple[Node, Node], set[Any]]:
    """Expected CDG edges (A, B) -> label set, on the graph augmented with ``start``; entry/exit dropped."""
    aug_nodes = [start, *nodes]
    aug_edges = [(start, entry, None), (start, exit_, None), *edges]
    pdom = postdominators(aug_nodes, aug_edges, exit_)
    cd: dict[tuple[Node, Node], set[Any]] = {}
    for a, s, lab in aug_edges:
        strict_a = pdom[a] - {a}
        for b in pdom[s]:
            if b in strict_a:
                continue
            if a in (entry, exit_) or b in (entry, exit_):
                continue
            cd.setdefault((a, b), set()).add(lab)
    return cd


def cd_predecessors(cd: dict[tuple[Node, Node], set[Any]]) -> dict[Node, list[tuple[Node, set[Any]]]]:
    pred: dict[Node, list[tuple[Node, set[Any]]]] = {}
    for (a, b), labs in cd.items():
        pred.setdefault(b, []).append((a, labs))
    return pred


def direct_dependencies(cd: dict[tuple[Node, Node], set[Any]], node: Node, is_branch_node,
                        pred: dict[Node, list[tuple[Node, set[Any]]]] | None = None) -> tuple[set[tuple[Node, bool]], set[Node]]:
    """Labelled predecessors of ``node`` reached backwards through unlabelled dependences.

    Returns (set of (branch node, outcome), multi) where ``multi`` holds the sources of edges with more than
    one label met on the way (a representation with one label per edge cannot express those).
    """
    pred = cd_predecessors(cd) if pred is None else pred
    out: set[tuple[Node, bool]] = set()
    multi: set[Node] = set()
    seen: set[Node] = set()
    todo = [node]
    while todo:
        n = todo.pop()
        if n in seen:
            continue
        seen.add(n)
        for a, labs in pred.get(n, []):
            if len(labs) > 1:
                multi.add(a)
            follow = False
            for lab in labs:
                if lab is not None and is_branch_node(a):
                    out.add((a, lab))
                else:
                    follow = True
            if follow:
                todo.append(a)
    return out, multi


def depends_on_root(cd: dict[tuple[Node, Node], set[Any]], node: Node, start: Node, is_branch_node,
                    pred: dict[Node, list[tuple[Node, set[Any]]]] | None = None) -> tuple[bool, set[Node]]:
    """``node`` reachable from ``start`` through unlabelled dependence edges only. Returns (verdict, multi)."""
    pred = cd_predecessors(cd) if pred is None else pred
    multi: set[Node] = set()
    seen: set[Node] = set()
    todo = [node]
    verdict = False
    while todo:
        n = todo.pop()
        if n in seen:
            continue
        seen.add(n)
        for a, labs in pred.get(n, []):
            if len(labs) > 1:
                multi.add(a)
            if not any(lab is None or not is_branch_node(a) for lab in labs):
                continue
            if a == start:
                verdict = True
            else:
                todo.append(a)
    return verdict, multi
