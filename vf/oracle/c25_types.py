"""Shared helpers of C25/C26: type worlds over generated modules, independent class-subsumption oracle, structure utilities.

Nothing here calls the queries under test (``is_subclass``, ``is_subtype``, ``is_maybe_subtype``, ``subtype_distance``) to
produce an *expected* value; ``blame`` only uses them to locate the innermost violating sub-pair of an already observed
violation (bucketing, not deciding).
"""

from __future__ import annotations

import contextlib
import logging
import os
import tempfile
from typing import Any, Iterator

from hypothesis import strategies as st

from vf.gen import modules as gm

TOWER = ["bool", "int", "float", "complex"]
BUILTIN_NAMES = ["int", "float", "bool", "complex", "str", "bytes", "object", "list", "dict", "set", "tuple"]
C25_PRIMS = ["int", "str", "bool", "float", "bytes", "complex", "object"]


# ------------------------------------------------------------------------------------------ world
@contextlib.contextmanager
def world(model: dict[str, Any], selection: str | None = None, visibility: str = "PUBLIC") -> Iterator[tuple[Any, Any]]:
    """Write + import the module pair and build the real test cluster; yields ``(imported, cluster)``.

    pynguin's configuration is replaced for the duration and restored afterwards.
    """
    import pynguin.configuration as config
    from pynguin.analyses.module import generate_test_cluster

    logging.getLogger("pynguin").setLevel(logging.ERROR)
    base = os.environ.get("VF_SCRATCH_DIR") or os.environ.get("VERIF_SCRATCH") or tempfile.gettempdir()
    saved = config.configuration
    with gm.write_and_import(model, base) as imp:
        cfg = config.Configuration(project_path=imp.path, module_name=imp.sut,
                                   test_case_output=config.TestCaseOutputConfiguration(output_path=imp.path))
        cfg.statistics_output.report_dir = imp.path
        cfg.element_visibility = config.ElementVisibility(visibility)
        if selection is not None:
            cfg.generator_selection.generator_selection_algorithm = config.Selection(selection)
        config.configuration = cfg
        try:
            yield imp, generate_test_cluster(imp.sut)
        finally:
            config.configuration = saved


# ------------------------------------------------------------------------------------------ type specs
def count_leaves(h: Any) -> int:
    tag = h[0]
    if tag in ("list", "set"):
        return count_leaves(h[1])
    if tag == "dict":
        return count_leaves(h[1]) + count_leaves(h[2])
    if tag in ("tuple", "union"):
        return sum(count_leaves(x) for x in h[1])
    return 1


def replace_leaf(h: Any, k: int, leaf: Any) -> Any:
    """The hint model with its k-th leaf (left to right) replaced; unions are re-normalised."""
    counter = [k]

    def go(x: Any) -> Any:
        tag = x[0]
        if tag in ("list", "set"):
            return [tag, go(x[1])]
        if tag == "dict":
            return ["dict", go(x[1]), go(x[2])]
        if tag == "tuple":
            return ["tuple", [go(y) for y in x[1]]]
        if tag == "union":
            return gm._mk_union([go(y) for y in x[1]])
        counter[0] -= 1
        return leaf if counter[0] == -1 else x

    return go(h)


def type_specs(desc: dict[str, Any], atoms_only: bool = False) -> st.SearchStrategy:
    """Strategy of type specs ``{"h": HINT, "via": "hint"|"direct"}`` over a module description.

    HINT is the hint model of ``vf.gen.modules`` extended by ``["prim","complex"|"object"]`` and ``["bare", name]``
    (un-parameterised ``tuple``/``list``/``dict``/``set``: tuple of unknown size, ``list[Any]`` ...).
    """
    refs = sorted((c["mod"], c["name"]) for c in desc["classes"].values()
                  if c["toplevel"] and c["vis"] != "private" and nameable(desc, c))
    atoms = [st.sampled_from(C25_PRIMS).map(lambda n: ["prim", n])] * 5
    if refs:
        atoms += [st.sampled_from(refs).map(lambda r: ["cls", r[0], r[1]])] * 7
    atoms += [st.just(["none"]), st.just(["any"]), st.sampled_from(["tuple", "list", "dict", "set"]).map(lambda n: ["bare", n])]
    atom = st.one_of(*atoms)
    if atoms_only:
        return st.fixed_dictionaries({"h": atom, "via": st.just("hint")})

    def extend(inner: st.SearchStrategy) -> st.SearchStrategy:
        return st.one_of(
            inner.map(lambda h: ["list", h]),
            inner.map(lambda h: ["set", h]),
            st.tuples(inner, inner).map(lambda kv: ["dict", kv[0], kv[1]]),
            st.lists(inner, min_size=1, max_size=3).map(lambda hs: ["tuple", hs]),
            st.lists(inner, min_size=1, max_size=2).map(lambda hs: ["tuple", hs]),
            st.lists(inner, min_size=2, max_size=3, unique_by=repr).map(gm._mk_union),
            st.lists(inner, min_size=2, max_size=3, unique_by=repr).map(gm._mk_union),
            inner.map(lambda h: gm._mk_union([h, ["none"]])),
        )

    hint = st.one_of(atom, atom, st.recursive(atom, extend, max_leaves=4), st.recursive(atom, extend, max_leaves=4))
    return st.fixed_dictionaries({"h": hint, "via": st.sampled_from(["hint", "hint", "direct"])})


def nameable(desc: dict[str, Any], cls: dict[str, Any]) -> bool:
    return cls["mod"] == "sut" or cls["name"] in desc["bindings"] or "hlp" in desc["bindings"]


def _ref(desc: dict[str, Any]):
    def ref(mod: str, name: str) -> str:
        if mod == "sut" or name in desc["bindings"]:
            return name
        return f"hlp.{name}"

    return ref


def source_of(desc: dict[str, Any], hint: Any) -> str:
    def render(h: Any) -> str:
        if h[0] == "bare":
            return h[1]
        if h[0] in ("list", "set"):
            return f"{h[0]}[{render(h[1])}]"
        if h[0] == "dict":
            return f"dict[{render(h[1])}, {render(h[2])}]"
        if h[0] == "tuple":
            return "tuple[" + ", ".join(render(x) for x in h[1]) + "]"
        if h[0] == "union":
            return "typing.Union[" + ", ".join(render(x) for x in h[1]) + "]"
        return gm.hint_source(h, _ref(desc))

    return render(hint)


def materialise(spec: dict[str, Any], desc: dict[str, Any], module: Any, ts: Any) -> Any:
    """ProperType of a type spec: through ``convert_type_hint`` of the evaluated hint, or by direct construction."""
    import typing

    from pynguin.analyses import typesystem as t

    ns = dict(vars(module))
    ns["typing"] = typing
    hint = spec["h"]
    if spec["via"] == "hint":
        return ts.convert_type_hint(eval(source_of(desc, hint), ns))  # noqa: S307

    def build(h: Any) -> Any:
        tag = h[0]
        if tag == "none":
            return t.NONE_TYPE
        if tag == "any":
            return t.ANY
        if tag in ("prim", "cls"):
            raw = eval(source_of(desc, h), ns)  # noqa: S307
            return t.Instance(ts.to_type_info(raw))
        if tag == "bare":
            return ts.convert_type_hint(eval(h[1], ns))  # noqa: S307
        if tag in ("list", "set"):
            return t.Instance(ts.to_type_info({"list": list, "set": set}[tag]), (build(h[1]),))
        if tag == "dict":
            return t.Instance(ts.to_type_info(dict), (build(h[1]), build(h[2])))
        if tag == "tuple":
            return t.TupleType(tuple(build(x) for x in h[1]))
        if tag == "union":
            return t.UnionType(tuple(build(x) for x in h[1]))
        if tag == "callable":
            return ts.convert_type_hint(eval(source_of(desc, h), ns))  # noqa: S307
        raise AssertionError(h)

    return build(hint)


# ------------------------------------------------------------------------------------------ structure
def kind(tp: Any) -> str:
    from pynguin.analyses import typesystem as t

    if isinstance(tp, t.AnyType):
        return "any"
    if isinstance(tp, t.NoneType):
        return "none"
    if isinstance(tp, t.TupleType):
        return "tuple"
    if isinstance(tp, t.UnionType):
        return "union"
    if isinstance(tp, t.Instance):
        if tp.type.raw_type in (list, set, dict):
            return "generic"
        return "instance-args" if tp.args else "instance"
    return type(tp).__name__


def children(tp: Any) -> tuple[Any, ...]:
    from pynguin.analyses import typesystem as t

    if isinstance(tp, (t.Instance, t.TupleType)):
        return tuple(tp.args)
    if isinstance(tp, t.UnionType):
        return tuple(tp.items)
    return ()


def contains(tp: Any, what: str) -> bool:
    """Does the type contain a component of kind ``what`` ("any"/"none") anywhere?"""
    return kind(tp) == what or any(contains(c, what) for c in children(tp))


# ------------------------------------------------------------------------------------------ class oracle
def py_subclass_with_tower(sub: type, sup: type) -> bool:
    """Reflexive-transitive closure of nominal subclassing (``__mro__``) and the numeric tower bool < int < float < complex.

    ``ABC.register`` style *virtual* subclassing (``issubclass(int, numbers.Rational)``) is not part of the class hierarchy
    and deliberately outside the domain.
    """
    if sup in sub.__mro__:
        return True
    tower = [bool, int, float, complex]
    for i, low in enumerate(tower):
        if low in sub.__mro__:
            return any(sup in high.__mro__ for high in tower[i + 1:])
    return False


def model_subclass_with_tower(desc: dict[str, Any], sub: str, sup: str) -> bool:
    """The same closure computed from the module model: ``sub``/``sup`` are full names (``module.qualname``).

    Model classes contribute the closure of their *declared* bases; external classes their real ``__mro__``.
    """
    def ancestors(full: str) -> set[str]:
        for c in desc["classes"].values():
            if c["full_name"] == full:
                return {(a[4:] if a.startswith("ext:") else desc["classes"][a]["full_name"]) for a in c["ancestors"]}
        modname, _, qual = full.rpartition(".")
        import importlib

        obj: Any = importlib.import_module(modname)
        for part in qual.split("."):
            obj = getattr(obj, part)
        return {f"{b.__module__}.{b.__qualname__}" for b in obj.__mro__}

    anc = ancestors(sub)
    if sup in anc:
        return True
    names = [f"builtins.{n}" for n in TOWER]
    for i, low in enumerate(names):
        if low in anc:
            return any(sup in ancestors(high) for high in names[i + 1:])
    return False


def analysed_classes(desc: dict[str, Any], model: dict[str, Any]) -> list[str]:
    """Full names of the classes the module analysis must have visited (classes bound in the SUT namespace + ancestors)."""
    out: list[str] = []

    def add(full: str) -> None:
        if full not in out:
            out.append(full)

    roots: list[dict[str, Any]] = []
    for c in desc["classes"].values():
        if not c["toplevel"]:
            continue
        if c["mod"] == "sut" or c["name"] in desc["bindings"] or "hlp" in desc["bindings"]:
            roots.append(c)
    for c in roots:
        for a in c["ancestors"]:
            add(a[4:] if a.startswith("ext:") else desc["classes"][a]["full_name"])
    for n in BUILTIN_NAMES:
        add(f"builtins.{n}")
    for i in model["stdlib"]:
        _, name, what = gm.STDLIB_IMPORTS[i]
        if what == "class":
            import importlib

            modname = gm.STDLIB_IMPORTS[i][0].split()[1]
            obj = getattr(importlib.import_module(modname), name)
            for b in obj.__mro__:
                add(f"{b.__module__}.{b.__qualname__}")
    return out


# ------------------------------------------------------------------------------------------ blame
def blame(ts: Any, sup: Any, sub: Any) -> list[str]:
    """Root-cause tags of a violation ``subtype_distance(sup, sub) is not None and not is_maybe_subtype(sub, sup)``.

    Descends to the innermost violating sub-pairs (same structural pairing as the distance computation) and classifies
    those; only used for bucketing.
    """
    def violates(a: Any, b: Any) -> bool:
        try:
            return ts.subtype_distance(a, b) is not None and not ts.is_maybe_subtype(b, a)
        except Exception:  # noqa: BLE001
            return False

    ks, kb = kind(sup), kind(sub)
    pairs: list[tuple[Any, Any]] = []
    if ks == "union":
        pairs = [(x, sub) for x in children(sup)]
    elif kb == "union":
        pairs = [(sup, x) for x in children(sub)]
    elif ks == kb == "tuple" and len(children(sup)) == len(children(sub)):
        pairs = list(zip(children(sup), children(sub)))
    elif ks in ("generic", "instance-args") and kb in ("generic", "instance-args"):
        pairs = list(zip(children(sup), children(sub)))
    inner = [tag for a, b in pairs if violates(a, b) for tag in blame(ts, a, b)]
    if inner:
        return sorted(set(inner))
    if ks in ("generic", "instance-args") and kb in ("generic", "instance-args"):
        raw_sup, raw_sub = sup.type.raw_type, sub.type.raw_type
        if not (isinstance(raw_sup, type) and isinstance(raw_sub, type) and py_subclass_with_tower(raw_sub, raw_sup)):
            return ["generic-base-classes-unrelated"]
        return ["generic-args-distance-covariant-but-subtyping-invariant"]
    return [f"{ks}-vs-{kb}"]
