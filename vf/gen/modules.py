"""vf.gen.modules — generator of SUT modules for test clusters (DESIGN.md §2.7 "modules").

A *module model* is a JSON-able dict describing a SUT module and a helper module.  The model is the
single source of truth: ``render`` turns it into Python source, ``describe`` turns it into the
facts an oracle needs (which members exist, their kinds, flavours and visibility, the class
hierarchy, abstractness, name mangling) **without** ``inspect`` or importing anything.

Interface (stable; used by C15, C18, C25, C26, C27, C31)
-------------------------------------------------------
``module_models(**opts)``            Hypothesis strategy drawing a model (see *Model* below).
``module_names(model)``              ``(sut_name, helper_name)`` = ``("vfsut_<h>", "vfhlp_<h>")``, h = hash of the model.
``render(model)``                    ``{filename: source}`` for the SUT and the helper module.
``write(model, dir)``                writes the files into a *fresh* sub-directory of ``dir``; returns ``Written(path, sut, helper)``.
``write_and_import(model, dir)``     context manager: write + ``sys.path`` + import; yields ``Imported(path, sut, helper, module,
                                     helper_module)``; on exit removes both modules from ``sys.modules``, the directory from
                                     ``sys.path``/``sys.path_importer_cache``, the files from ``linecache`` and the directory itself.
``describe(model)``                  ``Description`` (dict, see below) computed from the model only.
``hint_source(hint, ...)``           source text of a hint model; ``hint_models(desc)`` strategy of hint models over a description.
``param_hints(model)``               every hint model occurring as a parameter annotation in the SUT (C26 request types).
``selfcheck(model, imported)``       list of discrepancies between ``describe`` and the imported module (generator self-test only;
                                     never used as an oracle).  ``python -m vf.gen.modules [n]`` runs it on n drawn models.

SUT corpus rule (DESIGN §2.7): every generated body is deterministic, address-free (no ``id``/default ``repr``/``hash`` of
objects, no set-of-str iteration), does no I/O, and its running time does not depend on the magnitude of an argument (no
``range(n)``, ``s * n``, ``**``, recursion on an argument).  Wrongly typed arguments raise ``TypeError``/``AttributeError``
deterministically.

Model
-----
``{"v": 1, "future": bool, "stdlib": [int], "himport": "from"|"module"|"both", "reexport": [str],
  "helper": [UNIT], "sut": [UNIT]}``

UNIT is one of
  ``{"k":"function","name","vis","flavor","params":[PARAM],"ret":HINT|None,"nested":"none"|"def"|"class"|"lambda"}``
      flavor: plain | async | asyncgen | cached | lru | generator | wrapped (decorated by the helper's ``h_deco`` using functools.wraps)
  ``{"k":"lambda","name","vis","nparams"}``                      ``name = lambda a, b: ...`` at module level
  ``{"k":"alias","name","target"}``                              ``name = target`` (second binding of a class or function)
  ``{"k":"class","name","vis","bases":[[mod,name]],"root":None|"dict"|"list"|"Exception","abc":bool,
     "init":[PARAM]|None,"fields":[[name,literal]],"methods":[METHOD],"props":[[name,has_setter,HINT|None]],
     "dunders":[str],"nested":[{"name","methods":[METHOD]}],"implements":bool,
     "generic":bool,"psub":[int]}``   generic: the class lists ``typing.Generic[T]``; psub: indices of "bases" written subscripted
                                      (``Box[int]``, or ``Box[T]`` in a generic class) - only bases that are themselves "generic"
  ``{"k":"enum","name","vis","base":"Enum"|"IntEnum"|"Flag","members":[str],"methods":[METHOD]}``
METHOD ``{"name","vis","flavor","params":[PARAM],"ret":HINT|None}``  flavor: plain|static|class|async|abstract|generator|cached|wrapped
PARAM  ``{"name","hint":HINT|None,"default":bool,"kind":"pos"|"kwonly"|"varargs"|"varkw"}``
HINT   ``["prim",n] | ["none"] | ["any"] | ["cls",mod,name] | ["list",H] | ["set",H] | ["dict",H,H] | ["tuple",[H]] |
        ["union",[H]] | ["callable"]``                             (``mod`` is "sut" or "helper")
``vis`` (shape of the *name*): public | protected (``_x``) | private (``__x``) | infix (protected name containing ``__``: ``_x__raw``;
for classes: a public name containing an underscore, ``Box_X``) | dunder (methods listed in "dunders").

Description (``describe``)
--------------------------
``{"sut","helper","classes":{key: CLS},"functions":[FN],"bindings":{name: ["class"|"function"|"module"|"stdlib"|"enum", key]},
  "order":[key]}`` with key = ``"<mod>:<qualname>"`` (mod = "sut"/"helper"),
CLS ``{"key","mod","module","name","qualname","full_name","vis","toplevel","enum","has_members","abc","abstract",
      "bases":[key|"ext:<module>.<qualname>"],"ancestors":[...same...],"methods":[M],"props":[..],"fields":[..],"root"}``
M   ``{"name","runtime_name","vis","flavor","own":True}``  (``runtime_name`` is the name-mangled attribute name)
FN  ``{"mod","module","name","vis","flavor","lambda":bool}``
``ancestors`` is the reflexive-transitive closure of the declared bases (independent of ``issubclass``); external bases are
given as ``"ext:builtins.dict"``, ``"ext:abc.ABC"``, ``"ext:enum.Enum"``, ... and are closed with the stdlib's own ``__mro__``.
"""

from __future__ import annotations

import contextlib
import dataclasses
import importlib
import linecache
import os
import shutil
import sys
import tempfile
from typing import Any, Iterator

from hypothesis import strategies as st

from vf.core import h12

# --------------------------------------------------------------------------------------------- pools
FUNC_WORDS = ["alpha", "blend", "compute", "derive", "emit", "fold", "gauge", "hold", "index_of", "judge"]
METH_WORDS = ["area", "bump", "clear", "depth", "extend", "flip", "grow", "height", "insert", "jump"]
CLASS_WORDS = ["Atom", "Box", "Cell", "Disk", "Edge", "Frame", "Grid", "Hub"]
HCLASS_WORDS = ["HBase", "HMixin", "HShape", "HNode"]
HFUNC_WORDS = ["h_assist", "h_build", "h_check"]
ENUM_WORDS = ["Color", "Mode", "Level"]
HENUM_WORDS = ["HKind"]
ENUM_MEMBERS = ["RED", "GREEN", "BLUE"]
LAMBDA_WORDS = ["pick", "swap"]
PARAM_WORDS = ["a", "b", "c", "d"]
FIELD_WORDS = ["limit", "ratio", "tag"]
PROP_WORDS = ["size", "state"]
PRIMS = ["int", "str", "bool", "float", "bytes"]
DUNDERS = ["__len__", "__str__", "__repr__", "__eq__", "__hash__", "__bool__", "__contains__", "__getitem__", "__call__",
           "__iter__", "__add__", "__lt__"]
ROOTS = [None, "dict", "list", "Exception"]

# (source line, bound name, what the name is bound to) — cheap for pynguin's dependency analysis (probed: <= 80 ms each)
STDLIB_IMPORTS = [
    ("import math", "math", "module"),
    ("from math import floor", "floor", "builtin-function"),
    ("from os.path import join", "join", "function"),
    ("from collections import OrderedDict", "OrderedDict", "class"),
    ("import colorsys", "colorsys", "module"),
    ("from bisect import bisect_left", "bisect_left", "builtin-function"),
    ("from textwrap import dedent", "dedent", "function"),
    ("from decimal import Decimal", "Decimal", "class"),
    ("from fractions import Fraction", "Fraction", "class"),
    ("from itertools import chain", "chain", "class"),
    ("from operator import add", "add", "builtin-function"),
    ("from statistics import mean", "mean", "function"),
    ("import os", "os", "module"),
    ("from datetime import date", "date", "class"),
]

FUNC_FLAVORS = ["plain"] * 6 + ["async", "asyncgen", "cached", "lru", "generator", "wrapped"]
METH_FLAVORS = ["plain"] * 7 + ["static", "class", "async", "generator", "cached", "wrapped"]
NAME_VIS = ["public"] * 5 + ["protected", "private", "infix"]
CLASS_VIS = ["public"] * 6 + ["protected", "private", "infix"]


def _shape_name(word: str, vis: str, *, is_class: bool = False) -> str:
    if vis == "public":
        return word
    if vis == "protected":
        return "_" + word
    if vis == "private":
        return "__" + word
    if vis == "infix":
        return (word + "_X") if is_class else ("_" + word + "__raw")
    raise AssertionError(vis)


# --------------------------------------------------------------------------------------------- hints
def hint_refs(hint: Any) -> list[tuple[str, str]]:
    """All (mod, name) class references inside a hint model."""
    if hint is None:
        return []
    tag = hint[0]
    if tag == "cls":
        return [(hint[1], hint[2])]
    if tag in ("list", "set"):
        return hint_refs(hint[1])
    if tag == "dict":
        return hint_refs(hint[1]) + hint_refs(hint[2])
    if tag in ("tuple", "union"):
        return [r for h in hint[1] for r in hint_refs(h)]
    return []


def hint_source(hint: Any, ref: Any) -> str:
    """Source text of a hint model. ``ref(mod, name) -> str`` renders a class reference."""
    tag = hint[0]
    if tag == "prim":
        return hint[1]
    if tag == "none":
        return "None"
    if tag == "any":
        return "typing.Any"
    if tag == "cls":
        return ref(hint[1], hint[2])
    if tag in ("list", "set"):
        return f"{tag}[{hint_source(hint[1], ref)}]"
    if tag == "dict":
        return f"dict[{hint_source(hint[1], ref)}, {hint_source(hint[2], ref)}]"
    if tag == "tuple":
        inner = ", ".join(hint_source(h, ref) for h in hint[1])
        return f"tuple[{inner}]" if hint[1] else "tuple[()]"
    if tag == "union":
        return " | ".join(hint_source(h, ref) for h in hint[1])
    if tag == "callable":
        return "typing.Callable[[int], int]"
    raise AssertionError(hint)


def _hint_strategy(class_refs: list[tuple[str, str]], depth: int = 2) -> st.SearchStrategy:
    atoms = [st.sampled_from(PRIMS).map(lambda n: ["prim", n])] * 3
    if class_refs:
        atoms += [st.sampled_from(class_refs).map(lambda r: ["cls", r[0], r[1]])] * 3
    atoms += [st.just(["none"]), st.just(["any"]), st.just(["callable"])]
    atom = st.one_of(*atoms)
    hashable = st.one_of(st.sampled_from(["int", "str", "bool", "bytes"]).map(lambda n: ["prim", n]))

    def extend(inner: st.SearchStrategy) -> st.SearchStrategy:
        return st.one_of(
            inner.map(lambda h: ["list", h]),
            hashable.map(lambda h: ["set", h]),
            st.tuples(hashable, inner).map(lambda kv: ["dict", kv[0], kv[1]]),
            st.lists(inner, min_size=1, max_size=3).map(lambda hs: ["tuple", hs]),
            st.lists(inner, min_size=2, max_size=3, unique_by=repr).map(_mk_union),
            inner.map(lambda h: _mk_union([h, ["none"]])),
        )

    return st.recursive(atom, extend, max_leaves=depth + 2)


def _mk_union(items: list[Any]) -> Any:
    flat: list[Any] = []
    for it in items:
        for sub in (it[1] if it[0] == "union" else [it]):
            if sub not in flat:
                flat.append(sub)
    return flat[0] if len(flat) == 1 else ["union", flat]


def hint_models(desc: dict[str, Any], depth: int = 2) -> st.SearchStrategy:
    """Hint models over the classes of a description that can be named from the SUT namespace."""
    refs = [(c["mod"], c["name"]) for c in desc["classes"].values()
            if c["toplevel"] and c["vis"] != "private" and _bound_in_sut(desc, c)]
    return _hint_strategy(sorted(refs), depth)


def _bound_in_sut(desc: dict[str, Any], cls: dict[str, Any]) -> bool:
    return cls["mod"] == "sut" or cls["name"] in desc["bindings"] or "hlp" in desc["bindings"]


# --------------------------------------------------------------------------------------------- strategy
def _params(draw: Any, hints: st.SearchStrategy, max_params: int = 3, allow_var: bool = True) -> list[dict[str, Any]]:
    n = draw(st.integers(0, max_params))
    out = []
    for i in range(n):
        annotated = draw(st.booleans())
        out.append({"name": PARAM_WORDS[i], "hint": draw(hints) if annotated else None,
                    "default": draw(st.sampled_from([False, False, True])), "kind": "pos"})
    # defaults must be trailing
    seen_default = False
    for p in out:
        seen_default = seen_default or p["default"]
        p["default"] = seen_default
    if allow_var:
        extra = draw(st.sampled_from(["none"] * 6 + ["varargs", "varkw", "kwonly"]))
        if extra == "varargs":
            out.append({"name": "rest", "hint": None, "default": False, "kind": "varargs"})
        elif extra == "varkw":
            out.append({"name": "opts", "hint": None, "default": False, "kind": "varkw"})
        elif extra == "kwonly":
            out.append({"name": "key", "hint": ["prim", "int"], "default": True, "kind": "kwonly"})
    return out


def _method(draw: Any, idx: int, hints: st.SearchStrategy, flavors: list[str]) -> dict[str, Any]:
    vis = draw(st.sampled_from(NAME_VIS))
    return {"name": _shape_name(METH_WORDS[idx], vis), "vis": vis, "flavor": draw(st.sampled_from(flavors)),
            "params": _params(draw, hints, 2), "ret": draw(st.one_of(st.none(), hints))}


def _tags(unit: dict[str, Any], table: dict[tuple[str, str], dict[str, Any]]) -> set[str]:
    tags = {unit["root"]} if unit.get("root") else set()
    for mod, name in unit["bases"]:
        tags |= _tags(table[(mod, name)], table)
    return tags


def _draw_class(draw: Any, mod: str, idx: int, words: list[str], table: dict[tuple[str, str], dict[str, Any]],
                base_pool: list[tuple[str, str]], hints: st.SearchStrategy, simple: bool) -> dict[str, Any]:
    vis = draw(st.sampled_from(["public", "public", "protected"] if simple else CLASS_VIS))
    name = _shape_name(words[idx], vis, is_class=True)
    nb = draw(st.sampled_from([0, 0, 1, 1, 1, 2, 3]))
    picked: list[tuple[str, str]] = []
    if base_pool and nb:
        idxs = draw(st.lists(st.integers(0, len(base_pool) - 1), min_size=1, max_size=min(nb, len(base_pool)), unique=True))
        tags: set[str] = set()
        for i in sorted(idxs, reverse=True):  # most derived (latest defined) first: one global order => C3 always succeeds
            cand = base_pool[i]
            t = _tags(table[cand], table)
            if len(tags | t) <= 1:
                picked.append(cand)
                tags |= t
    root = draw(st.sampled_from(ROOTS + [None] * 4)) if not picked else None
    abc = draw(st.sampled_from([False] * 4 + [True]))
    # keep only a linearisable (C3) list of bases; checked with the model's own C3, never by trial import
    while picked and not _linearisable(picked, abc, table):
        picked.pop()
    generic = draw(st.sampled_from([False, False, False, True])) if not simple or draw(st.booleans()) else False
    while picked and not _linearisable(picked, abc, table, generic):
        picked.pop()
    psub = [i for i, b in enumerate(picked) if table[b].get("generic") and draw(st.sampled_from([True, True, False]))]
    unit: dict[str, Any] = {"k": "class", "name": name, "vis": vis, "bases": [list(b) for b in picked], "root": root, "abc": abc,
                            "generic": generic, "psub": psub}
    has_init = draw(st.sampled_from([True, True, False]))
    unit["init"] = _params(draw, hints, 3, allow_var=False) if has_init else None
    nf = draw(st.integers(0, 2))
    unit["fields"] = [[_shape_name(FIELD_WORDS[i], draw(st.sampled_from(["public", "public", "protected"]))),
                       draw(st.sampled_from(["3", "'x'", "2.5", "(1, 2)", "None", "[1]"]))] for i in range(nf)]
    nm = draw(st.integers(0, 4))
    flavors = METH_FLAVORS + (["abstract"] * 4 if abc else [])
    unit["methods"] = [_method(draw, i, hints, flavors) for i in range(nm)]
    if abc and draw(st.booleans()) and not any(m["flavor"] == "abstract" for m in unit["methods"]):
        unit["methods"].append({"name": f"need_{idx}", "vis": "public", "flavor": "abstract", "params": [], "ret": None})
    # abstract method names are unique per class so that only descendants override them (see describe)
    for k, m in enumerate(unit["methods"]):
        if m["flavor"] == "abstract":
            m["name"], m["vis"] = f"need_{mod[0]}{idx}_{k}", "public"
    npr = draw(st.integers(0, 2 if not simple else 1))
    unit["props"] = [[PROP_WORDS[i], draw(st.booleans()), draw(st.one_of(st.none(), hints))] for i in range(npr)]
    unit["dunders"] = draw(st.lists(st.sampled_from(DUNDERS), max_size=3, unique=True))
    nn = draw(st.sampled_from([0, 0, 0, 1]))
    unit["nested"] = [{"name": "Inner", "methods": [_method(draw, 9, hints, ["plain", "static"])]}] if nn else []
    unit["implements"] = draw(st.sampled_from([True, True, False]))
    return unit


def _unit_bases(u: dict[str, Any]) -> list[str]:
    bases = [f"{m}:{n}" for m, n in u["bases"]]
    if u.get("root"):
        bases.append(_EXT_ROOT[u["root"]])
    if u.get("generic"):
        bases.append("ext:typing.Generic")
    if u.get("abc"):
        bases.append("ext:abc.ABC")
    return bases


def _linearisable(picked: list[tuple[str, str]], abc: bool, table: dict[tuple[str, str], dict[str, Any]],
                  generic: bool = False) -> bool:
    bases_of = {f"{m}:{n}": _unit_bases(u) for (m, n), u in table.items()}
    bases_of["new:X"] = [f"{m}:{n}" for m, n in picked] + (["ext:typing.Generic"] if generic else []) + (["ext:abc.ABC"] if abc else [])
    try:
        _c3("new:X", bases_of, {})
    except ValueError:
        return False
    return True


def _draw_enum(draw: Any, idx: int, words: list[str], hints: st.SearchStrategy) -> dict[str, Any]:
    vis = draw(st.sampled_from(["public"] * 4 + ["protected"]))
    members = draw(st.sampled_from([ENUM_MEMBERS[:2], ENUM_MEMBERS, [], ENUM_MEMBERS[:1]]))
    nm = draw(st.integers(0, 2))
    return {"k": "enum", "name": _shape_name(words[idx], vis, is_class=True), "vis": vis,
            "base": draw(st.sampled_from(["Enum", "Enum", "IntEnum", "Flag"])), "members": list(members),
            "methods": [_method(draw, i, hints, ["plain", "plain", "static", "class"]) for i in range(nm)]}


def _draw_function(draw: Any, idx: int, words: list[str], hints: st.SearchStrategy, flavors: list[str],
                   vis_pool: list[str]) -> dict[str, Any]:
    vis = draw(st.sampled_from(vis_pool))
    return {"k": "function", "name": _shape_name(words[idx], vis), "vis": vis, "flavor": draw(st.sampled_from(flavors)),
            "params": _params(draw, hints, 3), "ret": draw(st.one_of(st.none(), hints)),
            "nested": draw(st.sampled_from(["none"] * 4 + ["def", "class", "lambda"]))}


@st.composite
def module_models(draw: Any, *, max_classes: int = 5, max_functions: int = 5, max_enums: int = 2,
                  with_helper: bool = True, min_units: int = 1) -> dict[str, Any]:
    """Strategy for module models. All sizes are small: the interesting thing is the *shape* of members."""
    table: dict[tuple[str, str], dict[str, Any]] = {}
    helper: list[dict[str, Any]] = []
    hrefs: list[tuple[str, str]] = []
    if with_helper:
        for i in range(draw(st.integers(0, 3))):
            hh = _hint_strategy(list(hrefs), 1)
            u = _draw_class(draw, "helper", i, HCLASS_WORDS, table, list(hrefs), hh, simple=True)
            helper.append(u)
            table[("helper", u["name"])] = u
            hrefs.append(("helper", u["name"]))
        hh = _hint_strategy(list(hrefs), 1)
        for i in range(draw(st.integers(0, 2))):
            helper.append(_draw_function(draw, i, HFUNC_WORDS, hh, ["plain", "plain", "async", "cached"], ["public", "public", "protected"]))
        if draw(st.sampled_from([False, False, True])):
            helper.append(_draw_enum(draw, 0, HENUM_WORDS, hh))
    # ---- SUT: first decide the class names so that hints may refer to classes defined later (forward references)
    ncls = draw(st.integers(0, max_classes))
    sut: list[dict[str, Any]] = []
    base_pool = list(hrefs)
    visible_refs = [r for r in hrefs if not r[1].startswith("__")]
    classes: list[dict[str, Any]] = []
    for i in range(ncls):
        hs = _hint_strategy(visible_refs + [("sut", c["name"]) for c in classes if c["vis"] != "private"], 2)
        u = _draw_class(draw, "sut", i, CLASS_WORDS, table, base_pool, hs, simple=False)
        classes.append(u)
        table[("sut", u["name"])] = u
        base_pool.append(("sut", u["name"]))
    all_refs = visible_refs + [("sut", c["name"]) for c in classes if c["vis"] != "private"]
    hints = _hint_strategy(all_refs, 2)
    enums = [_draw_enum(draw, i, ENUM_WORDS, hints) for i in range(draw(st.integers(0, max_enums)))]
    funcs = [_draw_function(draw, i, FUNC_WORDS, hints, FUNC_FLAVORS, NAME_VIS[:-1] + ["public"])
             for i in range(draw(st.integers(0, max_functions)))]
    lambdas = [{"k": "lambda", "name": _shape_name(LAMBDA_WORDS[i], v), "vis": v, "nparams": draw(st.integers(0, 2))}
               for i, v in enumerate(draw(st.lists(st.sampled_from(["public", "public", "protected"]), max_size=2)))]
    sut = classes + enums + funcs + lambdas
    if len(sut) < min_units:
        funcs = [_draw_function(draw, 0, FUNC_WORDS, hints, ["plain"], ["public"])]
        sut = sut + funcs
    # interleave functions and classes a little: functions first or last (class order itself must be kept: bases come first)
    if draw(st.booleans()):
        sut = funcs + lambdas + classes + enums
    targets = [u["name"] for u in sut if u["k"] in ("class", "function", "enum")]
    if targets and draw(st.sampled_from([False, False, True])):
        sut.append({"k": "alias", "name": "Alias0", "target": draw(st.sampled_from(targets))})
    hnames = [u["name"] for u in helper if not u["name"].startswith("__")]
    reexport = draw(st.lists(st.sampled_from(hnames), max_size=3, unique=True)) if hnames else []
    return {
        "v": 1,
        "future": draw(st.booleans()),
        "stdlib": draw(st.lists(st.integers(0, len(STDLIB_IMPORTS) - 1), max_size=3, unique=True)),
        "himport": draw(st.sampled_from(["from", "from", "module", "both"])),
        "reexport": sorted(reexport),
        "helper": helper,
        "sut": sut,
    }


# --------------------------------------------------------------------------------------------- names
def module_names(model: dict[str, Any]) -> tuple[str, str]:
    h = h12(model)
    return f"vfsut_{h}", f"vfhlp_{h}"


def mangle(class_name: str, attr: str) -> str:
    """Python's private name mangling of ``attr`` inside the body of class ``class_name``."""
    if attr.startswith("__") and not attr.endswith("__") and class_name.strip("_"):
        return "_" + class_name.lstrip("_") + attr
    return attr


def _needed_helper_names(model: dict[str, Any]) -> list[str]:
    need: list[str] = []

    def add(n: str) -> None:
        if n not in need:
            need.append(n)

    def scan_hint(h: Any) -> None:
        for mod, name in hint_refs(h):
            if mod == "helper":
                add(name)

    def scan_callable(c: dict[str, Any]) -> None:
        for p in c["params"]:
            scan_hint(p["hint"])
        scan_hint(c["ret"])
        if c.get("flavor") == "wrapped":
            add("h_deco")

    for u in model["sut"]:
        if u["k"] == "function":
            scan_callable(u)
        elif u["k"] == "class":
            for mod, name in u["bases"]:
                if mod == "helper":
                    add(name)
            for m in u["methods"] + [m for n in u["nested"] for m in n["methods"]]:
                scan_callable(m)
            for p in u["init"] or []:
                scan_hint(p["hint"])
            for pr in u["props"]:
                scan_hint(pr[2])
        elif u["k"] == "enum":
            for m in u["methods"]:
                scan_callable(m)
    return need


# --------------------------------------------------------------------------------------------- rendering
_LIT = {"int": ("1", "2"), "str": ("'p'", "'q'"), "bool": ("True", "False"), "float": ("1.5", "2.5"), "bytes": ("b'p'", "b'q'")}


class _Renderer:
    def __init__(self, model: dict[str, Any], mod: str) -> None:
        self.model = model
        self.mod = mod
        self.sut_name, self.helper_name = module_names(model)
        self.units = model["sut"] if mod == "sut" else model["helper"]
        self.table = {(m, u["name"]): u for m in ("helper", "sut") for u in model[m] if u["k"] in ("class", "enum")}
        self.defined: set[str] = set()  # SUT classes whose class statement has completed
        self.use_bare = model["himport"] in ("from", "both")
        self.lines: list[str] = []

    # -- references
    def ref(self, mod: str, name: str) -> str:
        if mod == self.mod or self.mod == "helper":
            return name
        return name if self.use_bare else f"hlp.{name}"

    def hint(self, hint: Any) -> str:
        src = hint_source(hint, self.ref)
        if self.model["future"]:
            return src
        pending = [n for m, n in hint_refs(hint) if m == self.mod and n not in self.defined]
        return repr(src) if pending else src

    def ann(self, hint: Any, prefix: str = ": ") -> str:
        return "" if hint is None else prefix + self.hint(hint)

    # -- values
    def value(self, hint: Any, which: int, in_class: bool, no_inst: bool = False) -> str:
        if hint is None:
            return ("0", "1")[which]
        tag = hint[0]
        if no_inst and hint_refs(hint):
            return "None"
        if tag == "prim":
            return _LIT[hint[1]][which]
        if tag in ("none", "any", "callable"):
            return "None"
        if tag == "list":
            return ("[]", f"[{self.value(hint[1], 0, in_class)}]")[which]
        if tag == "set":
            return ("set()", "{" + self.value(hint[1], 0, in_class) + "}")[which]
        if tag == "dict":
            return ("{}", "{" + self.value(hint[1], 0, in_class) + ": " + self.value(hint[2], 0, in_class) + "}")[which]
        if tag == "tuple":
            inner = [self.value(h, which, in_class) for h in hint[1]]
            return "(" + ", ".join(inner) + ("," if len(inner) == 1 else "") + ")"
        if tag == "union":
            return self.value(hint[1][which % len(hint[1])], which, in_class)
        if tag == "cls":
            return self.instance(hint[1], hint[2])
        raise AssertionError(hint)

    def instance(self, mod: str, name: str) -> str:
        unit = self.table.get((mod, name))
        if unit is None or (mod == "sut" and self.mod == "helper"):
            return "None"
        if unit["k"] == "enum":
            return f"{self.ref(mod, name)}.{unit['members'][0]}" if unit["members"] else "None"
        d = _describe_cached(self.model)["classes"][f"{mod}:{name}"]
        if d["abstract"] or d["root"] == "Exception":
            return "None"
        init = self._effective_init(d)
        if init is None:
            return "None"
        args = [self.value(p["hint"], 0, True) if p["hint"] and p["hint"][0] != "cls" else ("None" if p["hint"] else "0")
                for p in init if not p["default"]]
        return f"{self.ref(mod, name)}({', '.join(args)})"

    def _effective_init(self, d: dict[str, Any]) -> list[dict[str, Any]] | None:
        """Parameters of the constructor a class ends up with ([] for object's); None when unknown (builtin root)."""
        desc = _describe_cached(self.model)
        for key in d["mro_model"]:
            if key.startswith("ext:"):
                return [] if key in ("ext:builtins.object", "ext:abc.ABC") else None
            unit = self.table[tuple(key.split(":", 1))]  # type: ignore[index]
            if unit.get("init") is not None:
                return unit["init"]
            if desc["classes"][key]["root"] not in (None,):
                return None
        return []

    # -- bodies
    def cond(self, p: dict[str, Any]) -> str:
        n, h = p["name"], p["hint"]
        if p["kind"] == "varargs":
            return f"len({n}) > 1"
        if p["kind"] == "varkw":
            return f"'k' in {n}"
        if h is None or h[0] == "any":
            return f"{n} == 1"
        tag = h[0]
        if tag == "prim":
            return {"int": f"{n} > 3", "float": f"{n} > 0.5", "bool": f"{n}", "str": f"{n}.startswith('ab')",
                    "bytes": f"len({n}) > 1"}[h[1]]
        if tag in ("list", "set", "dict", "tuple"):
            return f"len({n}) > 1"
        if tag == "callable":
            return f"callable({n})"
        return f"{n} is None"

    def body(self, params: list[dict[str, Any]], ret: Any, indent: str, *, in_class: bool, gen: bool = False,
             stateful: bool = False, nested: str = "none") -> list[str]:
        kw = "yield" if gen else "return"
        out: list[str] = []
        if nested == "def":
            out += [f"{indent}def inner_fn(v):", f"{indent}    return v"]
        elif nested == "class":
            out += [f"{indent}class LocalBox:", f"{indent}    def unwrap(self, v):", f"{indent}        return v"]
        elif nested == "lambda":
            out += [f"{indent}inner_fn = lambda v: v"]
        if stateful:
            out += [f"{indent}self.count = getattr(self, 'count', 0) + 1"]
        v0, v1 = self.value(ret, 0, in_class), self.value(ret, 1, in_class)
        if nested in ("def", "lambda"):
            v0 = f"inner_fn({v0})"
        elif nested == "class":
            v0 = f"LocalBox().unwrap({v0})"
        vals = [v0, v1]
        conds = [self.cond(p) for p in params[:2]] + (["self.count > 1"] if stateful else [])
        for i, c in enumerate(conds):
            out += [f"{indent}if {c}:", f"{indent}    {kw} {vals[(i + 1) % 2]}"]
        out += [f"{indent}{kw} {vals[(len(conds) + 1) % 2]}"]
        return out

    def signature(self, params: list[dict[str, Any]], first: str | None) -> str:
        parts = [first] if first else []
        star_done = False
        for p in params:
            if p["kind"] == "varargs":
                parts.append("*" + p["name"])
                star_done = True
            elif p["kind"] == "varkw":
                parts.append("**" + p["name"])
            else:
                if p["kind"] == "kwonly" and not star_done:
                    parts.append("*")
                    star_done = True
                s = p["name"] + self.ann(p["hint"])
                if p["default"]:
                    s += (" = " if p["hint"] else "=") + self.value(p["hint"], 0, first is not None, no_inst=True)
                parts.append(s)
        return ", ".join(parts)

    # -- units
    def function(self, u: dict[str, Any]) -> None:
        fl = u["flavor"]
        deco = {"cached": "@functools.cache", "lru": "@functools.lru_cache(maxsize=8)",
                "wrapped": "@" + (("h_deco" if self.use_bare else "hlp.h_deco") if self.mod == "sut" else "h_deco")}.get(fl)
        if deco:
            self.lines.append(deco)
        kw = "async def" if fl in ("async", "asyncgen") else "def"
        self.lines.append(f"{kw} {u['name']}({self.signature(u['params'], None)}){self.ann(u['ret'], ' -> ') if fl not in ('generator', 'asyncgen') else ''}:")
        self.lines += self.body(u["params"], u["ret"], "    ", in_class=False, gen=fl in ("generator", "asyncgen"), nested=u.get("nested", "none"))
        self.lines += ["", ""]

    def method(self, cls_name: str, m: dict[str, Any], indent: str) -> None:
        fl = m["flavor"]
        first: str | None = "self"
        if fl == "static":
            self.lines.append(f"{indent}@staticmethod")
            first = None
        elif fl == "class":
            self.lines.append(f"{indent}@classmethod")
            first = "cls"
        elif fl == "abstract":
            self.lines.append(f"{indent}@abc.abstractmethod")
        elif fl == "cached":
            self.lines.append(f"{indent}@functools.cache")
        elif fl == "wrapped":
            self.lines.append(f"{indent}@" + (("h_deco" if self.use_bare else "hlp.h_deco") if self.mod == "sut" else "h_deco"))
        kw = "async def" if fl == "async" else "def"
        sig = self.signature(m["params"], first)
        # a parameter named ``first`` placeholder for static methods keeps PARAM names stable
        self.lines.append(f"{indent}{kw} {m['name']}({sig}){self.ann(m['ret'], ' -> ') if fl != 'generator' else ''}:")
        stateful = fl in ("plain",) and len(m["params"]) <= 1
        self.lines += self.body(m["params"], m["ret"], indent + "    ", in_class=True, gen=fl == "generator", stateful=stateful)
        self.lines.append("")

    _DUNDER_SRC = {
        "__len__": ("self", ["return 2"]),
        "__str__": ("self", ["return 'obj'"]),
        "__repr__": ("self", ["return 'Obj()'"]),
        "__eq__": ("self, other", ["return isinstance(other, type(self))"]),
        "__hash__": ("self", ["return 7"]),
        "__bool__": ("self", ["return True"]),
        "__contains__": ("self, item", ["return item == 1"]),
        "__getitem__": ("self, index", ["if index == 0:", "    return 'first'", "return index"]),
        "__call__": ("self, x=0", ["return x"]),
        "__iter__": ("self", ["return iter([1, 2])"]),
        "__add__": ("self, other", ["return self"]),
        "__lt__": ("self, other", ["return False"]),
    }

    def klass(self, u: dict[str, Any]) -> None:
        sub = "[T]" if u.get("generic") else "[int]"
        bases = [self.ref(m, n) + (sub if i in u.get("psub", []) else "") for i, (m, n) in enumerate(u["bases"])]
        if u["root"]:
            bases.append(u["root"])
        if u.get("generic"):
            bases.append("typing.Generic[T]")
        if u["abc"]:
            bases.append("abc.ABC")
        self.lines.append(f"class {u['name']}" + (f"({', '.join(bases)})" if bases else "") + ":")
        ind = "    "
        body_start = len(self.lines)
        for fname, lit in u["fields"]:
            self.lines.append(f"{ind}{fname} = {lit}")
        if u["fields"]:
            self.lines.append("")
        if u["init"] is not None:
            self.lines.append(f"{ind}def __init__({self.signature(u['init'], 'self')}) -> None:")
            if u["root"] in ("dict", "list", "Exception"):
                self.lines.append(f"{ind}    super().__init__()")
            for p in u["init"]:
                self.lines.append(f"{ind}    self.{p['name']} = {p['name']}")
            self.lines += [f"{ind}    self.count = 0", ""]
        for m in u["methods"]:
            self.method(u["name"], m, ind)
        d = _describe_cached(self.model)["classes"][f"{self.mod}:{u['name']}"]
        for name in d["implemented_abstract"]:
            self.lines += [f"{ind}def {name}(self):", f"{ind}    return 1", ""]
        for pname, has_setter, hint in u["props"]:
            self.lines += [f"{ind}@property", f"{ind}def {pname}(self){self.ann(hint, ' -> ')}:",
                           f"{ind}    return getattr(self, 'count', 0)", ""]
            if has_setter:
                self.lines += [f"{ind}@{pname}.setter", f"{ind}def {pname}(self, new_value):", f"{ind}    self.count = new_value", ""]
        for dn in u["dunders"]:
            sig, body = self._DUNDER_SRC[dn]
            self.lines.append(f"{ind}def {dn}({sig}):")
            self.lines += [f"{ind}    {b}" for b in body]
            self.lines.append("")
        for n in u["nested"]:
            self.lines.append(f"{ind}class {n['name']}:")
            for m in n["methods"]:
                self.method(n["name"], m, ind + "    ")
            if not n["methods"]:
                self.lines.append(f"{ind}    pass")
        if len(self.lines) == body_start:
            self.lines.append(f"{ind}pass")
        self.lines += ["", ""]
        self.defined.add(u["name"])

    def enum(self, u: dict[str, Any]) -> None:
        self.lines.append(f"class {u['name']}({u['base']}):")
        for i, mname in enumerate(u["members"]):
            self.lines.append(f"    {mname} = {2 ** i if u['base'] == 'Flag' else i + 1}")
        if u["members"]:
            self.lines.append("")
        for m in u["methods"]:
            self.method(u["name"], m, "    ")
        if not u["members"] and not u["methods"]:
            self.lines.append("    pass")
        self.lines += ["", ""]
        self.defined.add(u["name"])

    def render(self) -> str:
        m = self.model
        L = self.lines
        L.append(f'"""Generated {"SUT" if self.mod == "sut" else "helper"} module (vf.gen.modules); deterministic, address-free bodies."""')
        if m["future"]:
            L.append("from __future__ import annotations")
        L += ["import abc", "import functools", "import typing"]
        if any(u.get("generic") for u in self.units):
            L += ["", 'T = typing.TypeVar("T")']
        enum_bases = sorted({u["base"] for u in self.units if u["k"] == "enum"})
        if enum_bases:  # only what is used: pynguin's C-extension probe calls inspect.getsource on every class in the namespace
            L.append(f"from enum import {', '.join(enum_bases)}")
        if self.mod == "sut":
            for i in m["stdlib"]:
                L.append(STDLIB_IMPORTS[i][0])
            if m["helper"] or _needed_helper_names(m):
                names = _sut_from_imports(m)
                if m["himport"] in ("module", "both"):
                    L.append(f"import {self.helper_name} as hlp")
                if names and m["himport"] in ("from", "both"):
                    L.append(f"from {self.helper_name} import {', '.join(names)}")
        else:
            L += ["", "", "def h_deco(fn):", "    @functools.wraps(fn)", "    def wrapper(*args, **kwargs):",
                  "        return fn(*args, **kwargs)", "", "    return wrapper"]
        L += ["", ""]
        for u in self.units:
            k = u["k"]
            if k == "function":
                self.function(u)
            elif k == "class":
                self.klass(u)
            elif k == "enum":
                self.enum(u)
            elif k == "lambda":
                args = ", ".join(PARAM_WORDS[: u["nparams"]])
                expr = {0: "1", 1: f"{PARAM_WORDS[0]}", 2: f"({PARAM_WORDS[0]}, {PARAM_WORDS[1]})"}[u["nparams"]]
                L.append(f"{u['name']} = lambda {args}: {expr}".replace("lambda :", "lambda:"))
                L.append("")
            elif k == "alias":
                L.append(f"{u['name']} = {u['target']}")
                L.append("")
        return "\n".join(L).rstrip("\n") + "\n"


def _sut_from_imports(model: dict[str, Any]) -> list[str]:
    """Helper names bound in the SUT by ``from helper import ...``."""
    if model["himport"] not in ("from", "both"):
        return []
    hnames = {u["name"] for u in model["helper"]} | {"h_deco"}
    names = [n for n in _needed_helper_names(model) if n in hnames]
    for n in model["reexport"]:
        if n in hnames and n not in names:
            names.append(n)
    return names


def render(model: dict[str, Any]) -> dict[str, str]:
    """``{filename: source}`` of the SUT module and of the helper module."""
    sut, helper = module_names(model)
    return {f"{helper}.py": _Renderer(model, "helper").render(), f"{sut}.py": _Renderer(model, "sut").render()}


# --------------------------------------------------------------------------------------------- description
_EXT_ROOT = {"dict": "ext:builtins.dict", "list": "ext:builtins.list", "Exception": "ext:builtins.Exception"}
_DESC_CACHE: dict[str, dict[str, Any]] = {}


def _describe_cached(model: dict[str, Any]) -> dict[str, Any]:
    key = h12(model)
    hit = _DESC_CACHE.get(key)
    if hit is None:
        if len(_DESC_CACHE) > 64:
            _DESC_CACHE.clear()
        hit = _DESC_CACHE[key] = describe(model)
    return hit


def _ext_ancestors(ext: str) -> list[str]:
    """Closure of an external (stdlib) class with the stdlib's own ``__mro__``."""
    modname, _, qual = ext[4:].rpartition(".")
    cls = getattr(importlib.import_module(modname), qual)
    return [f"ext:{c.__module__}.{c.__qualname__}" for c in cls.__mro__]


def _c3(key: str, bases_of: dict[str, list[str]], memo: dict[str, list[str]]) -> list[str]:
    """C3 linearisation over model classes; external classes contribute their real ``__mro__``."""
    if key in memo:
        return memo[key]
    if key.startswith("ext:"):
        memo[key] = _ext_ancestors(key)
        return memo[key]
    bases = bases_of[key] or ["ext:builtins.object"]
    seqs = [list(_c3(b, bases_of, memo)) for b in bases] + [list(bases)]
    res = [key]
    while any(seqs):
        for s in seqs:
            if not s:
                continue
            cand = s[0]
            if not any(cand in t[1:] for t in seqs):
                break
        else:
            raise ValueError(f"inconsistent hierarchy at {key}")
        res.append(cand)
        for s in seqs:
            if s and s[0] == cand:
                del s[0]
    memo[key] = res
    return res


def describe(model: dict[str, Any]) -> dict[str, Any]:
    """Facts about the generated modules, derived from the model alone (no ``inspect``, no import of generated code)."""
    sut_name, helper_name = module_names(model)
    modname = {"sut": sut_name, "helper": helper_name}
    classes: dict[str, dict[str, Any]] = {}
    functions: list[dict[str, Any]] = []
    bases_of: dict[str, list[str]] = {}
    order: list[str] = []
    for mod in ("helper", "sut"):
        for u in model[mod]:
            if u["k"] == "class":
                key = f"{mod}:{u['name']}"
                bases = [f"{m}:{n}" for m, n in u["bases"]]
                if u["root"]:
                    bases.append(_EXT_ROOT[u["root"]])
                if u.get("generic"):
                    bases.append("ext:typing.Generic")  # a parameterised base counts as its origin
                if u["abc"]:
                    bases.append("ext:abc.ABC")
                bases_of[key] = bases
                methods = []
                for m in u["methods"]:
                    methods.append({"name": m["name"], "runtime_name": mangle(u["name"], m["name"]), "vis": m["vis"],
                                    "flavor": m["flavor"], "own": True})
                for dn in u["dunders"]:
                    methods.append({"name": dn, "runtime_name": dn, "vis": "dunder", "flavor": "plain", "own": True})
                classes[key] = {"key": key, "mod": mod, "module": modname[mod], "name": u["name"], "qualname": u["name"],
                                "full_name": f"{modname[mod]}.{u['name']}", "vis": u["vis"], "toplevel": True, "enum": False,
                                "has_members": False, "abc": u["abc"], "bases": bases, "methods": methods,
                                "props": [p[0] for p in u["props"]], "fields": [f[0] for f in u["fields"]], "root": None,
                                "has_init": u["init"] is not None, "implements": u["implements"]}
                order.append(key)
                for n in u["nested"]:
                    nkey = f"{mod}:{u['name']}.{n['name']}"
                    bases_of[nkey] = []
                    classes[nkey] = {"key": nkey, "mod": mod, "module": modname[mod], "name": n["name"],
                                     "qualname": f"{u['name']}.{n['name']}", "full_name": f"{modname[mod]}.{u['name']}.{n['name']}",
                                     "vis": "public", "toplevel": False, "enum": False, "has_members": False, "abc": False,
                                     "bases": [], "methods": [{"name": m["name"], "runtime_name": mangle(n["name"], m["name"]),
                                                               "vis": m["vis"], "flavor": m["flavor"], "own": True} for m in n["methods"]],
                                     "props": [], "fields": [], "root": None, "has_init": False, "implements": False}
            elif u["k"] == "enum":
                key = f"{mod}:{u['name']}"
                bases_of[key] = [f"ext:enum.{u['base']}"]
                classes[key] = {"key": key, "mod": mod, "module": modname[mod], "name": u["name"], "qualname": u["name"],
                                "full_name": f"{modname[mod]}.{u['name']}", "vis": u["vis"], "toplevel": True, "enum": True,
                                "has_members": bool(u["members"]), "abc": False, "bases": list(bases_of[key]),
                                "methods": [{"name": m["name"], "runtime_name": mangle(u["name"], m["name"]), "vis": m["vis"],
                                             "flavor": m["flavor"], "own": True} for m in u["methods"]],
                                "props": [], "fields": list(u["members"]), "root": None, "has_init": False, "implements": False}
                order.append(key)
            elif u["k"] == "function":
                functions.append({"mod": mod, "module": modname[mod], "name": u["name"], "vis": u["vis"], "flavor": u["flavor"],
                                  "lambda": False})
            elif u["k"] == "lambda":
                functions.append({"mod": mod, "module": modname[mod], "name": u["name"], "vis": u["vis"], "flavor": "lambda",
                                  "lambda": True})
    memo: dict[str, list[str]] = {}
    for key, c in classes.items():
        mro = _c3(key, bases_of, memo)
        c["mro_model"] = mro
        c["ancestors"] = sorted(set(mro))
        roots = [r for r in ("ext:builtins.dict", "ext:builtins.list", "ext:builtins.Exception") if r in mro]
        c["root"] = roots[0].rsplit(".", 1)[1] if roots else None
    # abstractness: a name is abstract for a class if the first definition along the MRO is abstract (ABCMeta's rule);
    # abstract method names are unique per defining class, and concrete classes that "implement" define all of them.
    for key in order + [k for k in classes if k not in order]:
        c = classes[key]
        is_abc = "ext:abc.ABC" in c["ancestors"]
        inherited_abstract: list[str] = []
        model_mro = [a for a in c["mro_model"][1:] if not a.startswith("ext:")]
        for anc in model_mro:
            for name in classes[anc]["own_abstract"]:
                if name in inherited_abstract:
                    continue
                # ABCMeta's rule: the name stays abstract iff the first definition along the MRO is the abstract one
                first = next(a for a in model_mro if name in {m["runtime_name"] for m in classes[a]["methods"]})
                if name in classes[first]["own_abstract"]:
                    inherited_abstract.append(name)
        own_abstract = [m["name"] for m in c["methods"] if m["flavor"] == "abstract"]
        own_names = {m["runtime_name"] for m in c["methods"]}
        impl: list[str] = []
        if c["implements"] and not own_abstract:
            impl = [n for n in inherited_abstract if n not in own_names]
        c["implemented_abstract"] = impl
        for n in impl:
            c["methods"].append({"name": n, "runtime_name": n, "vis": "public", "flavor": "plain", "own": True})
        still = [n for n in inherited_abstract if n not in impl and n not in own_names]
        c["own_abstract"] = own_abstract
        c["abstract_names"] = (own_abstract + still) if is_abc else []
        c["abstract"] = bool(c["abstract_names"])
    # names bound in the SUT namespace
    bindings: dict[str, list[str]] = {}
    for i in model["stdlib"]:
        bindings[STDLIB_IMPORTS[i][1]] = ["stdlib", STDLIB_IMPORTS[i][2]]
    if model["helper"] or _needed_helper_names(model):
        if model["himport"] in ("module", "both"):
            bindings["hlp"] = ["module", "helper"]
        hkinds = {u["name"]: u["k"] for u in model["helper"]}
        hkinds["h_deco"] = "function"
        for n in _sut_from_imports(model):
            bindings[n] = [hkinds[n], f"helper:{n}"]
    for u in model["sut"]:
        if u["k"] == "alias":
            tgt = next(t for t in model["sut"] if t.get("name") == u["target"] and t["k"] != "alias")
            bindings[u["name"]] = [tgt["k"], f"sut:{tgt['name']}"]
        else:
            bindings[u["name"]] = [u["k"], f"sut:{u['name']}"]
    return {"sut": sut_name, "helper": helper_name, "classes": classes, "functions": functions, "bindings": bindings, "order": order}


def param_hints(model: dict[str, Any]) -> list[Any]:
    """Hint models of all annotated parameters of SUT callables (what pynguin would request generators for)."""
    out: list[Any] = []

    def add(params: list[dict[str, Any]] | None) -> None:
        for p in params or []:
            if p["hint"] is not None and p["hint"] not in out:
                out.append(p["hint"])

    for u in model["sut"]:
        if u["k"] == "function":
            add(u["params"])
        elif u["k"] == "class":
            add(u["init"])
            for m in u["methods"]:
                add(m["params"])
        elif u["k"] == "enum":
            for m in u["methods"]:
                add(m["params"])
    return out


# --------------------------------------------------------------------------------------------- files / import
@dataclasses.dataclass
class Written:
    path: str
    sut: str
    helper: str


@dataclasses.dataclass
class Imported:
    path: str
    sut: str
    helper: str
    module: Any
    helper_module: Any


def write(model: dict[str, Any], directory: str | None = None) -> Written:
    """Write both modules into a fresh sub-directory of ``directory`` (default: $VF_SCRATCH_DIR / $VERIF_SCRATCH / tmp)."""
    base = directory or os.environ.get("VF_SCRATCH_DIR") or os.environ.get("VERIF_SCRATCH") or tempfile.gettempdir()
    os.makedirs(base, exist_ok=True)
    path = tempfile.mkdtemp(prefix="vfmod_", dir=base)
    for fname, src in render(model).items():
        with open(os.path.join(path, fname), "w", encoding="utf-8") as fh:
            fh.write(src)
    sut, helper = module_names(model)
    return Written(path, sut, helper)


def forget(names: tuple[str, ...] | list[str], path: str | None = None) -> None:
    """Remove generated modules (and the directory's importer/line caches) from the interpreter."""
    for n in names:
        sys.modules.pop(n, None)
    if path is not None:
        while path in sys.path:
            sys.path.remove(path)
        sys.path_importer_cache.pop(path, None)
        for fname in [f for f in list(linecache.cache) if f.startswith(path)]:
            linecache.cache.pop(fname, None)
    importlib.invalidate_caches()


@contextlib.contextmanager
def write_and_import(model: dict[str, Any], directory: str | None = None, *, do_import: bool = True) -> Iterator[Imported]:
    """Write, put on ``sys.path``, import freshly; clean everything up afterwards (module objects are never reused)."""
    w = write(model, directory)
    forget((w.sut, w.helper))
    sys.path.insert(0, w.path)
    importlib.invalidate_caches()
    try:
        module = importlib.import_module(w.sut) if do_import else None
        helper_module = sys.modules.get(w.helper)
        yield Imported(w.path, w.sut, w.helper, module, helper_module)
    finally:
        forget((w.sut, w.helper), w.path)
        shutil.rmtree(w.path, ignore_errors=True)


# --------------------------------------------------------------------------------------------- self test
def selfcheck(model: dict[str, Any], imp: Imported) -> list[str]:
    """Compare ``describe`` with the imported module (tests the *generator*, never used as an oracle)."""
    import inspect

    problems: list[str] = []
    desc = describe(model)
    mods = {"sut": imp.module, "helper": sys.modules.get(imp.helper)}
    for key, c in desc["classes"].items():
        m = mods[c["mod"]]
        if m is None:
            continue
        obj: Any = m
        for part in c["qualname"].split("."):
            obj = vars(obj)[part] if not inspect.ismodule(obj) else getattr(obj, part)
        if obj.__module__ != c["module"] or obj.__qualname__ != c["qualname"]:
            problems.append(f"{key}: identity {obj.__module__}.{obj.__qualname__}")
        if inspect.isabstract(obj) != c["abstract"]:
            problems.append(f"{key}: abstract model={c['abstract']} real={inspect.isabstract(obj)}")
        real_anc = {f"{b.__module__}.{b.__qualname__}" for b in obj.__mro__}
        model_anc = {(a[4:] if a.startswith("ext:") else desc["classes"][a]["full_name"]) for a in c["ancestors"]}
        if real_anc != model_anc:
            problems.append(f"{key}: ancestors model-real={sorted(model_anc - real_anc)} real-model={sorted(real_anc - model_anc)}")
        for meth in c["methods"]:
            if meth["runtime_name"] not in vars(obj):
                problems.append(f"{key}: method {meth['runtime_name']} not in class dict")
        for p in c["props"]:
            if not isinstance(vars(obj).get(p), property):
                problems.append(f"{key}: property {p}")
    for f in desc["functions"]:
        m = mods[f["mod"]]
        if m is not None and f["name"] not in vars(m):
            problems.append(f"function {f['mod']}:{f['name']} missing")
    for name, (kind, _) in desc["bindings"].items():
        if name not in vars(imp.module):
            problems.append(f"binding {name} ({kind}) missing in SUT namespace")
    return problems


def _main(n: int) -> int:
    import hypothesis
    from hypothesis import HealthCheck, given, settings

    bad: list[str] = []
    count = {"n": 0, "classes": 0, "lines": 0}

    @hypothesis.seed(1)
    @settings(max_examples=n, database=None, deadline=None, suppress_health_check=list(HealthCheck))
    @given(module_models())
    def run(model: dict[str, Any]) -> None:
        count["n"] += 1
        try:
            with write_and_import(model) as imp:
                count["classes"] += len(describe(model)["classes"])
                count["lines"] += sum(len(s.splitlines()) for s in render(model).values())
                for p in selfcheck(model, imp):
                    bad.append(p)
        except Exception as exc:  # noqa: BLE001
            bad.append(f"{type(exc).__name__}: {exc}")
            if len(bad) < 3:
                print("\n".join(f"--- {k}\n{v}" for k, v in render(model).items()))

    run()
    print(count, "problems:", len(bad))
    for b in bad[:20]:
        print("  ", b)
    return 1 if bad else 0


if __name__ == "__main__":
    sys.exit(_main(int(sys.argv[1]) if len(sys.argv) > 1 else 300))
