"""pygen -- grammar-based generator of small, terminating Python modules (DESIGN.md section 2.7).

INTERFACE (used by C01, C02, C03, C05, C06, C07, C08, C09, C28, C35)
====================================================================

    module_strategy(features=None, max_funcs=3, max_stmts=25, max_depth=4, top_level=True)
                              -> Hypothesis strategy drawing a JSON-able *module model* (dict)
    render(model)             -> Python source (deterministic; one statement per line)
    line_map(model)           -> {lineno: {"scope": qualified name, "kind": statement kind}} for every line
    features_of(model)        -> sorted list of construct classes present in the model (see FEATURES / walker)
    targets_of(model)         -> list of callable targets: {"target", "kind", "params": [{"name","t"}], "cls"}
    calls_strategy(model, per_target=2, values="tame", mismatch=6)
                              -> strategy drawing a list of *calls* (JSON-able) for the targets of ``model``
    case_strategy(...)        -> strategy drawing {"module": model, "calls": [...]} in one go
    materialise(recipe, ns=None) -> a FRESH Python value for a value recipe (``ns`` = namespace of the executed
                                 module, needed only for {"t": "obj"} recipes)
    invoke(ns, call)          -> ("ok", value) | ("exc", exception): performs one call against an executed module
                                 namespace (generator functions are drained, at most 64 items)
    all_code_objects(code)    -> the code object and, recursively, every code object in its co_consts

Module model
------------
    {"globals": [{"name": "G0", "t": "int", "v": <const expr>}],      module-level variables
     "ctx": bool,                                                     prelude context manager class ``_Ctx`` rendered?
     "gens":    [<func>],       generator functions (kind "gen"), yield ints
     "classes": [{"name": "K0", "fields": [{"name","t"}], "methods": [<func>], "props": [<func>]}],
     "funcs":   [<func>],       plain functions; function i may call gens, classes and functions j < i
     "top":     [<stmt>]}       module-level statements executed at import (after all definitions)
    <func> = {"name", "kind": "func"|"gen"|"method"|"prop", "params": [{"name","t"}], "ret": type,
              "gw": [global names declared ``global``], "body": [<stmt>]}
Coarse types: "int" "float" "str" "bool" "list" (of int) "dict" (str -> int) "opt" (int | None) "obj:<Class>".
Statements and expressions are dicts with a kind key "k" (see ``_Render``); everything is dict/list/str/int/
float/bool/None, so a model survives json.dumps/loads and can be stored as a replay.

Termination: every ``while`` carries an explicit fuel counter (a fresh local ``_fN`` initialised on the line before
the loop, decremented as first statement of the body, tested either in the loop condition or by an ``if … break``
guard); ``for`` loops and comprehensions iterate over bounded iterables only (``range(min(e, N))``, the copy ``seq[:N]``,
``sorted(d)``, bounded generators), never over a list object the body could grow;
functions call only functions defined earlier (no recursion); operators that could grow a value multiplicatively
(``a * b``, ``s + t``, ``xs + ys``, ``s * n``) always have a small constant operand, so sizes grow additively.

Value recipes (arguments)
-------------------------
    {"t": "int", "v": 3}   {"t": "bool", "v": true}   {"t": "none"}   {"t": "str", "v": "ab"}
    {"t": "float", "v": 1.5}  or  {"t": "float", "v": "nan" | "inf" | "-inf" | "-0.0"}
    {"t": "bytes", "v": "6162"}  (hex)
    {"t": "list" | "tuple" | "set", "v": [recipe, ...]}     {"t": "dict", "v": [[key recipe, value recipe], ...]}
    {"t": "obj", "cls": "K0", "args": [recipe, ...]}         instance of a class of the generated module
A recipe with a "k" key is passed to ``vf.gen.values.materialise`` (adversarial values live there).
A call is {"target": "f0", "args": [recipes]} or {"target": "K0.m0", "init": [recipes], "args": [recipes]}
(methods and properties: the receiver is built freshly from "init").

``values="tame"`` keeps arguments inside the range in which pynguin's branch-distance code is known to work
(no NaN/inf, |int| < 2**31) -- used by C02/C03 so that the known C04 defects do not hide everything else;
``values="wild"`` adds huge ints, non-finite floats, non-ASCII strings.
"""

from __future__ import annotations

import itertools
from types import CodeType
from typing import Any

from hypothesis import strategies as st

FEATURES = (
    "if", "while", "for", "loopctl", "try", "raise", "with", "match", "closure", "lambda", "comp", "genfunc",
    "global", "class", "assert", "boolop", "chain", "isnone", "in", "subscript", "attr", "strpred", "ternary",
    "illtyped", "call", "toplevel", "strtuple",
)
TYPES = ("int", "float", "str", "bool", "list", "dict", "opt")
EXC_NAMES = ("ValueError", "TypeError", "ZeroDivisionError", "IndexError", "KeyError", "AttributeError",
             "AssertionError", "RuntimeError", "ArithmeticError", "LookupError", "Exception")
FOR_CAP = 6
CTX_SOURCE = [
    "class _Ctx:",
    "    def __init__(self, swallow):",
    "        self.swallow = swallow",
    "        self.entered = 0",
    "    def __enter__(self):",
    "        self.entered += 1",
    "        return self",
    "    def __exit__(self, et, ev, tb):",
    "        self.entered -= 1",
    "        return self.swallow and et is not GeneratorExit",
]


# ------------------------------------------------------------------------------------------ recipes
def materialise(recipe: dict[str, Any], ns: dict[str, Any] | None = None) -> Any:
    """Build a fresh Python value from a value recipe (see module docstring)."""
    if "k" in recipe and "t" not in recipe:
        from vf.gen import values as _values

        return _values.materialise(recipe)
    t = recipe["t"]
    if t == "int":
        return int(recipe["v"])
    if t == "bool":
        return bool(recipe["v"])
    if t == "none":
        return None
    if t == "str":
        return str(recipe["v"])
    if t == "float":
        v = recipe["v"]
        return float(v) if isinstance(v, str) else float(v)
    if t == "bytes":
        return bytes.fromhex(recipe["v"])
    if t == "list":
        return [materialise(r, ns) for r in recipe["v"]]
    if t == "tuple":
        return tuple(materialise(r, ns) for r in recipe["v"])
    if t == "set":
        return {materialise(r, ns) for r in recipe["v"]}
    if t == "dict":
        return {materialise(k, ns): materialise(v, ns) for k, v in recipe["v"]}
    if t == "obj":
        if ns is None:
            raise ValueError("an 'obj' recipe needs the namespace of the executed module")
        return ns[recipe["cls"]](*[materialise(r, ns) for r in recipe["args"]])
    raise ValueError(f"unknown recipe type {t!r}")


def invoke(ns: dict[str, Any], call: dict[str, Any]) -> tuple[str, Any]:
    """Perform one call against the namespace of an executed module: ("ok", value) | ("exc", exception).

    Arguments (and the receiver of methods/properties) are materialised freshly; a generator result is drained
    (at most 64 items) inside the same try block, so the generator body really runs.
    """
    try:
        target = call["target"]
        args = [materialise(r, ns) for r in call.get("args", [])]
        if "." in target:
            cname, member = target.split(".", 1)
            obj = ns[cname](*[materialise(r, ns) for r in call.get("init", [])])
            attr = getattr(obj, member)
            res = attr(*args) if callable(attr) and call.get("kind") != "prop" else attr
        else:
            res = ns[target](*args)
        if hasattr(res, "__next__") and hasattr(res, "send"):
            res = list(itertools.islice(res, 64))
        return ("ok", res)
    except BaseException as exc:  # noqa: BLE001  (generated code raises on purpose)
        if isinstance(exc, (KeyboardInterrupt, SystemExit, MemoryError)):
            raise
        return ("exc", exc)


def all_code_objects(code: CodeType) -> list[CodeType]:
    """The code object itself and, recursively, all code objects among its constants (pre-order)."""
    out = [code]
    for const in code.co_consts:
        if isinstance(const, CodeType):
            out.extend(all_code_objects(const))
    return out


# ------------------------------------------------------------------------------------------ rendering
_ATOMS = {"c", "n", "call", "meth", "sub", "slice", "attr", "list", "tuple", "set", "dict", "comp"}


def _const_src(v: Any) -> str:
    if isinstance(v, list):  # tuples are stored as JSON lists
        inner = ", ".join(_const_src(x) for x in v)
        return f"({inner},)" if len(v) == 1 else f"({inner})"
    if isinstance(v, float) and (v != v or v in (float("inf"), float("-inf"))):
        return f'float("{v}")'
    return repr(v)


def expr_src(e: dict[str, Any]) -> str:
    """Source text of an expression model."""
    k = e["k"]
    if k == "c":
        return _const_src(e["v"])
    if k == "n":
        return e["id"]
    if k == "bin":
        return f"{_operand(e['l'])} {e['op']} {_operand(e['r'])}"
    if k == "un":
        return f"not {_operand(e['e'])}" if e["op"] == "not" else f"{e['op']}{_operand(e['e'])}"
    if k == "cmp":
        parts = [_operand(e["es"][0])]
        for op, x in zip(e["ops"], e["es"][1:]):
            parts += [op, _operand(x)]
        return " ".join(parts)
    if k == "bool":
        return f" {e['op']} ".join(_operand(x) for x in e["es"])
    if k == "call":
        args = [expr_src(a) for a in e["args"]]
        args += [f"{kw}={expr_src(v)}" for kw, v in e.get("kw", [])]
        return f"{e['f']}({', '.join(args)})"
    if k == "meth":
        return f"{_recv(e['o'])}.{e['m']}({', '.join(expr_src(a) for a in e['args'])})"
    if k == "sub":
        return f"{_operand(e['o'])}[{expr_src(e['i'])}]"
    if k == "slice":
        lo = expr_src(e["lo"]) if e.get("lo") is not None else ""
        hi = expr_src(e["hi"]) if e.get("hi") is not None else ""
        return f"{_operand(e['o'])}[{lo}:{hi}]"
    if k == "attr":
        return f"{_recv(e['o'])}.{e['a']}"
    if k == "ife":
        return f"{_operand(e['t'])} if {_operand(e['c'])} else {_operand(e['f'])}"
    if k == "list":
        return "[" + ", ".join(expr_src(x) for x in e["es"]) + "]"
    if k == "tuple":
        inner = ", ".join(expr_src(x) for x in e["es"])
        return f"({inner},)" if len(e["es"]) == 1 else f"({inner})"
    if k == "set":
        return "{" + ", ".join(expr_src(x) for x in e["es"]) + "}" if e["es"] else "set()"
    if k == "dict":
        items = [f"**{_operand(v)}" if kk is None else f"{expr_src(kk)}: {expr_src(v)}" for kk, v in e["kv"]]
        return "{" + ", ".join(items) + "}"
    if k == "comp":
        head = f"{expr_src(e['key'])}: {expr_src(e['elt'])}" if e["kind"] == "dict" else expr_src(e["elt"])
        body = f"{head} for {e['var']} in {_operand(e['it'])}"
        for c in e["conds"]:
            body += f" if {_operand(c)}"
        op, cl = {"list": "[]", "set": "{}", "dict": "{}", "gen": "()"}[e["kind"]]
        return f"{op}{body}{cl}"
    if k == "lam":
        return f"lambda {', '.join(e['params'])}: {expr_src(e['body'])}"
    raise ValueError(f"unknown expression kind {k!r}")


def _operand(e: dict[str, Any]) -> str:
    s = expr_src(e)
    if e["k"] in _ATOMS and not (e["k"] == "c" and isinstance(e["v"], (int, float)) and not isinstance(e["v"], bool)
                                 and (e["v"] < 0 or e["v"] != e["v"])):
        return s
    return f"({s})"


def _recv(e: dict[str, Any]) -> str:
    """Receiver of an attribute access / method call: numeric literals need parentheses (``(0).real``)."""
    s = _operand(e)
    if e["k"] == "c" and isinstance(e["v"], (int, float)) and not isinstance(e["v"], bool) and not s.startswith("("):
        return f"({s})"
    return s


def pattern_src(p: dict[str, Any]) -> str:
    """Source text of a match pattern model."""
    k = p["p"]
    if k == "lit":
        return _const_src(p["v"])
    if k == "none":
        return "None"
    if k == "wild":
        return "_"
    if k == "cap":
        return p["n"]
    if k == "or":
        return " | ".join(pattern_src(a) for a in p["alts"])
    if k == "cls":
        return f"{p['c']}({p['n']})" if p.get("n") else f"{p['c']}()"
    if k == "seq":
        items = [pattern_src(a) for a in p["items"]]
        if p.get("star") is not None:
            items.append("*" + p["star"])
        return "[" + ", ".join(items) + "]"
    raise ValueError(f"unknown pattern kind {k!r}")


class _Render:
    def __init__(self) -> None:
        self.lines: list[str] = []
        self.info: dict[int, dict[str, str]] = {}

    def emit(self, ind: int, text: str, scope: str, kind: str) -> None:
        self.lines.append("    " * ind + text)
        self.info[len(self.lines)] = {"scope": scope, "kind": kind}

    def block(self, stmts: list[dict[str, Any]], ind: int, scope: str) -> None:
        if not stmts:
            self.emit(ind, "pass", scope, "pass")
        for s in stmts:
            self.stmt(s, ind, scope)

    def stmt(self, s: dict[str, Any], ind: int, scope: str) -> None:  # noqa: C901, PLR0912, PLR0915
        k = s["k"]
        if k == "assign":
            self.emit(ind, f"{expr_src(s['t'])} = {expr_src(s['v'])}", scope, k)
        elif k == "aug":
            self.emit(ind, f"{expr_src(s['t'])} {s['op']}= {expr_src(s['v'])}", scope, k)
        elif k == "expr":
            self.emit(ind, expr_src(s["v"]), scope, k)
        elif k == "if":
            self.emit(ind, f"if {expr_src(s['c'])}:", scope, "if")
            self.block(s["body"], ind + 1, scope)
            for c, body in s.get("elifs", []):
                self.emit(ind, f"elif {expr_src(c)}:", scope, "elif")
                self.block(body, ind + 1, scope)
            if s.get("else") is not None:
                self.emit(ind, "else:", scope, "else")
                self.block(s["else"], ind + 1, scope)
        elif k == "while":
            fuel = s["fuel"]
            self.emit(ind, f"{fuel} = {s['n']}", scope, "fuel-init")
            if s["form"] == "cond":
                self.emit(ind, f"while {fuel} > 0 and {_operand(s['c'])}:", scope, "while")
                self.emit(ind + 1, f"{fuel} -= 1", scope, "fuel-dec")
            else:
                self.emit(ind, f"while {expr_src(s['c'])}:", scope, "while")
                self.emit(ind + 1, f"{fuel} -= 1", scope, "fuel-dec")
                self.emit(ind + 1, f"if {fuel} < 0:", scope, "fuel-guard")
                self.emit(ind + 2, "break", scope, "break")
            self.block(s["body"], ind + 1, scope)
            if s.get("else") is not None:
                self.emit(ind, "else:", scope, "else")
                self.block(s["else"], ind + 1, scope)
        elif k == "for":
            self.emit(ind, f"for {s['var']} in {expr_src(s['it'])}:", scope, "for")
            self.block(s["body"], ind + 1, scope)
            if s.get("else") is not None:
                self.emit(ind, "else:", scope, "else")
                self.block(s["else"], ind + 1, scope)
        elif k == "try":
            self.emit(ind, "try:", scope, "try")
            self.block(s["body"], ind + 1, scope)
            for h in s["handlers"]:
                names = h["exc"]
                head = names[0] if len(names) == 1 else "(" + ", ".join(names) + ")"
                if h.get("as"):
                    head += f" as {h['as']}"
                self.emit(ind, f"except {head}:", scope, "except")
                self.block(h["body"], ind + 1, scope)
            if s.get("else") is not None:
                self.emit(ind, "else:", scope, "else")
                self.block(s["else"], ind + 1, scope)
            if s.get("final") is not None:
                self.emit(ind, "finally:", scope, "finally")
                self.block(s["final"], ind + 1, scope)
        elif k == "raise":
            if s.get("exc") is None:
                self.emit(ind, "raise", scope, k)
            else:
                self.emit(ind, f"raise {s['exc']}({s.get('msg', '')!r})", scope, k)
        elif k == "with":
            head = f"with {expr_src(s['ctx'])}"
            if s.get("as"):
                head += f" as {s['as']}"
            self.emit(ind, head + ":", scope, "with")
            self.block(s["body"], ind + 1, scope)
        elif k == "match":
            self.emit(ind, f"match {expr_src(s['subj'])}:", scope, "match")
            for c in s["cases"]:
                head = f"case {pattern_src(c['pat'])}"
                if c.get("guard") is not None:
                    head += f" if {expr_src(c['guard'])}"
                self.emit(ind + 1, head + ":", scope, "case")
                self.block(c["body"], ind + 2, scope)
        elif k == "ret":
            self.emit(ind, "return" if s.get("v") is None else f"return {expr_src(s['v'])}", scope, k)
        elif k == "yield":
            self.emit(ind, f"yield {expr_src(s['v'])}", scope, k)
        elif k == "assert":
            text = f"assert {expr_src(s['c'])}"
            if s.get("msg") is not None:
                text += f", {s['msg']!r}"
            self.emit(ind, text, scope, k)
        elif k == "def":
            inner = f"{scope}.{s['name']}"
            self.emit(ind, f"def {s['name']}({', '.join(s['params'])}):", inner, "def")
            if s.get("nonlocal"):
                self.emit(ind + 1, "nonlocal " + ", ".join(s["nonlocal"]), inner, "nonlocal")
            self.block(s["body"], ind + 1, inner)
        elif k in ("break", "continue", "pass"):
            self.emit(ind, k, scope, k)
        else:
            raise ValueError(f"unknown statement kind {k!r}")

    def func(self, f: dict[str, Any], ind: int, owner: str | None) -> None:
        scope = f"{owner}.{f['name']}" if owner else f["name"]
        params = [p["name"] for p in f["params"]]
        if f["kind"] in ("method", "prop"):
            params = ["self", *params]
        if f["kind"] == "prop":
            self.emit(ind, "@property", scope, "decorator")
        self.emit(ind, f"def {f['name']}({', '.join(params)}):", scope, "def")
        if f.get("gw"):
            self.emit(ind + 1, "global " + ", ".join(f["gw"]), scope, "global")
        self.block(f["body"], ind + 1, scope)

    def module(self, m: dict[str, Any]) -> None:
        if m.get("ctx"):
            for ln in CTX_SOURCE:
                self.emit(0, ln, "_Ctx", "prelude")
        for g in m.get("globals", []):
            self.emit(0, f"{g['name']} = {expr_src(g['v'])}", "<module>", "global-init")
        for f in m.get("gens", []):
            self.func(f, 0, None)
        for c in m.get("classes", []):
            self.emit(0, f"class {c['name']}:", c["name"], "class")
            fields = [fl["name"] for fl in c["fields"]]
            self.emit(1, f"def __init__({', '.join(['self', *fields])}):", f"{c['name']}.__init__", "def")
            for fl in fields:
                self.emit(2, f"self.{fl} = {fl}", f"{c['name']}.__init__", "assign")
            if not fields:
                self.emit(2, "pass", f"{c['name']}.__init__", "pass")
            for f in c.get("methods", []) + c.get("props", []):
                self.func(f, 1, c["name"])
        for f in m.get("funcs", []):
            self.func(f, 0, None)
        for s in m.get("top", []):
            self.stmt(s, 0, "<module>")


def render(model: dict[str, Any]) -> str:
    """Python source of a module model; deterministic; every statement on its own line."""
    r = _Render()
    r.module(model)
    return "\n".join(r.lines) + "\n"


def line_map(model: dict[str, Any]) -> dict[int, dict[str, str]]:
    """{line number: {"scope": qualified name of the enclosing def/class, "kind": statement kind}}."""
    r = _Render()
    r.module(model)
    return r.info


# ------------------------------------------------------------------------------------------ features
_STR_PREDS = ("startswith", "endswith", "isalnum", "isalpha", "isdigit", "islower", "isupper", "isspace",
              "isdecimal", "isnumeric", "istitle")


def _walk(node: Any, out: set[str], ctx: dict[str, Any]) -> None:  # noqa: C901, PLR0912, PLR0915
    if isinstance(node, list):
        for x in node:
            _walk(x, out, ctx)
        return
    if not isinstance(node, dict):
        return
    k = node.get("k")
    if node.get("ill"):
        out.add("illtyped")
    if k == "if":
        out.add("if")
        if node.get("elifs"):
            out.add("elif")
        if node.get("else") is not None:
            out.add("else")
    elif k == "while":
        out.add("while")
        out.add("while-" + node["form"])
        if node.get("else") is not None:
            out.add("while-else")
    elif k == "for":
        out.add("for-" + node.get("src", "list"))
        if node.get("else") is not None:
            out.add("for-else")
    elif k in ("break", "continue", "assert", "raise", "with", "match", "yield", "aug"):
        if k == "with":
            body = node["body"]
            for pos in range(1, len(body)):
                if body[pos]["k"] == "try" and all(b["k"] == "assign" for b in body[:pos]) and any(
                        x["k"] in ("if", "for", "while") for h in body[pos]["handlers"] for x in h["body"]):
                    out.add("nested-try-after-simple-stmts")
        out.add({"aug": "augassign"}.get(k, k))
        if k == "raise" and node.get("exc") is None:
            out.add("reraise")
    elif k == "try":
        body = node["body"]
        for pos in range(1, len(body)):
            if body[pos]["k"] == "try" and all(b["k"] == "assign" for b in body[:pos]) and any(
                    x["k"] in ("if", "for", "while") for h in body[pos]["handlers"] for x in h["body"]):
                out.add("nested-try-after-simple-stmts")
        if node["handlers"]:
            out.add("try-except")
            if any(len(h["exc"]) > 1 for h in node["handlers"]):
                out.add("except-tuple")
            if any(h.get("as") for h in node["handlers"]):
                out.add("except-as")
        if node.get("else") is not None:
            out.add("try-else")
        if node.get("final") is not None:
            out.add("try-finally")
    elif k == "ret":
        if ctx.get("depth", 0) > 0:
            out.add("return-early")
    elif k == "def":
        out.add("closure")
        if node.get("nonlocal"):
            out.add("nonlocal")
    elif k == "lam":
        out.add("lambda")
    elif k == "comp":
        out.add({"list": "listcomp", "set": "setcomp", "dict": "dictcomp", "gen": "genexp"}[node["kind"]])
        if node["conds"]:
            out.add("comp-if")
    elif k == "bool":
        out.add(node["op"])
    elif k == "un" and node["op"] == "not":
        out.add("not")
    elif k == "cmp":
        if len(node["ops"]) > 1:
            out.add("chain-cmp")
        for op, rhs in zip(node["ops"], node["es"][1:]):
            if op in ("is", "is not"):
                none = rhs.get("k") == "c" and rhs.get("v") is None
                out.add(("is-none" if op == "is" else "is-not-none") if none else "is")
            elif op in ("in", "not in"):
                out.add(op.replace(" ", "-"))
            else:
                out.add("compare")
    elif k == "sub":
        out.add("subscript")
    elif k == "slice":
        out.add("slice")
    elif k == "attr":
        out.add("attr")
    elif k == "ife":
        out.add("ternary")
    elif k == "meth":
        if node["m"] in _STR_PREDS:
            out.add("strpred")
            if node["args"] and node["args"][0].get("k") in ("c", "tuple") and (
                    node["args"][0].get("k") == "tuple" or isinstance(node["args"][0].get("v"), list)):
                out.add("strpred-tuple")
        else:
            out.add("method-call")
    elif k == "call":
        f = node["f"]
        if f in ctx["funcs"]:
            out.add("call-func")
        elif f in ctx["gens"]:
            out.add("call-gen")
        elif f in ctx["classes"]:
            out.add("construct")
    elif k == "n":
        if node["id"] in ctx["globals"]:
            out.add("global-read")
    elif k == "assign":
        t = node["t"]
        if t["k"] == "n" and t["id"] in ctx["globals"] and ctx.get("in_func"):
            out.add("global-write")
        elif t["k"] == "sub":
            out.add("store-subscript")
        elif t["k"] == "attr":
            out.add("store-attr")
    sub_ctx = ctx
    if k in ("if", "while", "for", "try", "with", "match"):
        sub_ctx = dict(ctx, depth=ctx.get("depth", 0) + 1)
    elif k == "def":
        sub_ctx = dict(ctx, depth=0)
    for key, val in node.items():
        if isinstance(val, (dict, list)):
            _walk(val, out, sub_ctx)


def features_of(model: dict[str, Any]) -> list[str]:
    """Sorted list of the construct classes present in ``model`` (label vocabulary for generator statistics)."""
    out: set[str] = set()
    ctx = {
        "funcs": {f["name"] for f in model.get("funcs", [])},
        "gens": {f["name"] for f in model.get("gens", [])},
        "classes": {c["name"] for c in model.get("classes", [])},
        "globals": {g["name"] for g in model.get("globals", [])},
    }
    if model.get("gens"):
        out.add("genfunc")
    if model.get("classes"):
        out.add("class")
    if any(c.get("methods") for c in model.get("classes", [])):
        out.add("method")
    if any(c.get("props") for c in model.get("classes", [])):
        out.add("property")
    if model.get("top"):
        out.add("toplevel-code")
    fctx = dict(ctx, in_func=True)
    for f in model.get("gens", []) + model.get("funcs", []):
        _walk(f["body"], out, fctx)
        if f.get("gw"):
            out.add("global-decl")
    for c in model.get("classes", []):
        for f in c.get("methods", []) + c.get("props", []):
            _walk(f["body"], out, fctx)
    _walk(model.get("top", []), out, dict(ctx, in_func=False))
    return sorted(out)


# ------------------------------------------------------------------------------------------ calls
def targets_of(model: dict[str, Any]) -> list[dict[str, Any]]:
    """Callable targets of a module model, in definition order."""
    out: list[dict[str, Any]] = []
    for f in model.get("gens", []):
        out.append({"target": f["name"], "kind": "gen", "params": f["params"], "cls": None})
    for c in model.get("classes", []):
        for f in c.get("methods", []):
            out.append({"target": f"{c['name']}.{f['name']}", "kind": "method", "params": f["params"], "cls": c})
        for f in c.get("props", []):
            out.append({"target": f"{c['name']}.{f['name']}", "kind": "prop", "params": [], "cls": c})
    for f in model.get("funcs", []):
        out.append({"target": f["name"], "kind": "func", "params": f["params"], "cls": None})
    return out


_INT_STRATS: dict[tuple[int, int], st.SearchStrategy] = {}


def _ints(lo: int, hi: int) -> st.SearchStrategy:
    key = (lo, hi)
    s = _INT_STRATS.get(key)
    if s is None:
        s = _INT_STRATS[key] = st.integers(lo, hi)
    return s


_TAME_INTS = [0, 1, 2, 3, -1, 5, 7, 4, 6, -2, 10, -3, 12, 100, 255, -100, 1000, 2 ** 31 - 1]
_WILD_INTS = [2 ** 31, 2 ** 53, 2 ** 53 + 1, -(2 ** 53) - 1, 2 ** 63, -(2 ** 63) - 1, 2 ** 64, 10 ** 30, 10 ** 400]
_TAME_FLOATS: list[Any] = [0.0, 1.0, 0.5, -1.5, 2.0, 3.25, -0.25, 100.0, 1e6, "-0.0"]
_WILD_FLOATS: list[Any] = ["nan", "inf", "-inf", 1e308, 5e-324, -1e308]
_TAME_STRS = ["", "a", "ab", "b", "abc", "1", "12", "a1", " ", "A", "Ab", "a b", "ba", "_x", "aa"]
_WILD_STRS = ["é", "€ß", "a" * 40, "\n", "\x00", "\U0001f600"]
_KEYS = ["a", "b", "k1", "", "ab", "1"]


def _value(draw: Any, t: str, model: dict[str, Any], values: str, depth: int = 0) -> dict[str, Any]:  # noqa: C901
    wild = values == "wild" and draw(_ints(0, 3)) == 0
    if t == "int":
        pool = _WILD_INTS if wild else _TAME_INTS
        return {"t": "int", "v": pool[draw(_ints(0, len(pool) - 1))]}
    if t == "float":
        pool = _WILD_FLOATS if wild else _TAME_FLOATS
        return {"t": "float", "v": pool[draw(_ints(0, len(pool) - 1))]}
    if t == "str":
        pool = _WILD_STRS if wild else _TAME_STRS
        return {"t": "str", "v": pool[draw(_ints(0, len(pool) - 1))]}
    if t == "bool":
        return {"t": "bool", "v": bool(draw(_ints(0, 1)))}
    if t == "none":
        return {"t": "none"}
    if t == "opt":
        return {"t": "none"} if draw(_ints(0, 2)) == 0 else _value(draw, "int", model, values)
    if t == "list":
        n = draw(_ints(0, 5))
        et = "int"
        if wild and depth == 0:
            et = ("float", "str", "list", "none")[draw(_ints(0, 3))]
        return {"t": "list", "v": [_value(draw, et, model, values, depth + 1) for _ in range(n)]}
    if t == "tuple":
        n = draw(_ints(0, 3))
        return {"t": "tuple", "v": [_value(draw, "int", model, values, depth + 1) for _ in range(n)]}
    if t == "dict":
        n = draw(_ints(0, 3))
        keys: list[str] = []
        for _ in range(n):
            kk = _KEYS[draw(_ints(0, len(_KEYS) - 1))]
            if kk not in keys:
                keys.append(kk)
        return {"t": "dict", "v": [[{"t": "str", "v": kk}, _value(draw, "int", model, values)] for kk in keys]}
    if t == "bytes":
        return {"t": "bytes", "v": ("", "61", "6162", "00ff")[draw(_ints(0, 3))]}
    if t.startswith("obj:"):
        cname = t[4:]
        cls = next(c for c in model.get("classes", []) if c["name"] == cname)
        return {"t": "obj", "cls": cname, "args": [_value(draw, f["t"], model, values, depth + 1) for f in cls["fields"]]}
    raise ValueError(t)


_MISMATCH_TYPES = ("int", "float", "str", "bool", "none", "list", "dict", "tuple", "bytes")


def _arg(draw: Any, t: str, model: dict[str, Any], values: str, mismatch: int) -> dict[str, Any]:
    if mismatch and draw(_ints(0, 99)) < mismatch:
        t = _MISMATCH_TYPES[draw(_ints(0, len(_MISMATCH_TYPES) - 1))]
    return _value(draw, t, model, values)


def calls_strategy(model: dict[str, Any], per_target: int = 2, values: str = "tame",
                   mismatch: int = 6) -> st.SearchStrategy:
    """Strategy drawing ``per_target`` calls for every callable target of ``model``.

    ``mismatch`` = percentage of arguments that deliberately get a value of another coarse type.
    """
    targets = targets_of(model)

    @st.composite
    def calls(draw: Any) -> list[dict[str, Any]]:
        out = []
        for tg in targets:
            for _ in range(per_target):
                call: dict[str, Any] = {"target": tg["target"], "kind": tg["kind"],
                                        "args": [_arg(draw, p["t"], model, values, mismatch) for p in tg["params"]]}
                if tg["cls"] is not None:
                    call["init"] = [_arg(draw, f["t"], model, values, mismatch) for f in tg["cls"]["fields"]]
                out.append(call)
        return out

    return calls()


# ------------------------------------------------------------------------------------------ generation
def C(v: Any) -> dict[str, Any]:
    return {"k": "c", "v": v}


def N(name: str) -> dict[str, Any]:
    return {"k": "n", "id": name}


def CALL(f: str, *args: dict[str, Any], kw: list | None = None) -> dict[str, Any]:
    e: dict[str, Any] = {"k": "call", "f": f, "args": list(args)}
    if kw:
        e["kw"] = kw
    return e


def METH(o: dict[str, Any], m: str, *args: dict[str, Any]) -> dict[str, Any]:
    return {"k": "meth", "o": o, "m": m, "args": list(args)}


_CONSTS: dict[str, list[Any]] = {
    "int": [0, 1, 2, 3, 5, -1, 10, 7, 100, 4],
    "float": [0.0, 1.0, 0.5, 2.5, -1.5],
    "str": ["", "a", "ab", "b", "abc", "1", "a1", " ", "A"],
    "bool": [False, True],
}
_NEW_VAR_TYPES = ["int"] * 6 + ["str"] * 3 + ["list"] * 3 + ["bool"] * 2 + ["float"] * 2 + ["opt"] * 2 + ["dict"]


class _Env:
    __slots__ = ("vars", "writable", "fns", "in_loop", "since_loop", "kind", "ret", "handler", "nl")

    def __init__(self) -> None:
        self.vars: dict[str, str] = {}
        self.writable: set[str] = set()
        self.fns: list[dict[str, Any]] = []
        self.in_loop = False
        self.since_loop = 0
        self.kind = "func"
        self.ret = "int"
        self.handler = False
        self.nl: set[str] = set()

    def child(self, loop: bool | None = None, handler: bool | None = None) -> "_Env":
        e = _Env()
        e.vars = dict(self.vars)
        e.writable = set(self.writable)
        e.fns = list(self.fns)
        e.kind, e.ret, e.nl = self.kind, self.ret, set(self.nl)
        e.in_loop, e.since_loop, e.handler = self.in_loop, self.since_loop + 1, self.handler
        if loop:
            e.in_loop, e.since_loop = True, 0
        if handler:
            e.handler = True
        return e

    def of(self, t: str) -> list[str]:
        return [n for n, tt in self.vars.items() if tt == t]


class _Gen:
    """Draws one module model. All randomness comes from ``draw`` (small integer draws; simplest choice = 0)."""

    def __init__(self, draw: Any, features: set[str], max_funcs: int, max_stmts: int, max_depth: int,
                 top_level: bool) -> None:
        self.draw = draw
        self.on = features
        self.max_funcs, self.max_stmts, self.max_depth, self.top_level = max_funcs, max_stmts, max_depth, top_level
        self.ctr: dict[str, int] = {}
        self.funcs: list[dict[str, Any]] = []
        self.gens: list[dict[str, Any]] = []
        self.classes: list[dict[str, Any]] = []
        self.globals: dict[str, str] = {}
        self.uses_ctx = False
        self.budget = 0
        self.yielded = False

    # ---- primitive draws
    def i(self, n: int) -> int:
        return self.draw(_ints(0, n - 1)) if n > 1 else 0

    def chance(self, pct: int) -> bool:
        return self.draw(_ints(0, 99)) >= 100 - pct  # a zero draw (the shrink target) never takes the optional branch

    def pick(self, seq: Any) -> Any:
        return seq[self.i(len(seq))]

    def weighted(self, pairs: list[tuple[int, Any]]) -> Any:
        total = sum(w for w, _ in pairs)
        r = self.draw(_ints(0, total - 1))
        for w, item in pairs:
            if r < w:
                return item
            r -= w
        return pairs[-1][1]

    def fresh(self, prefix: str) -> str:
        n = self.ctr.get(prefix, 0)
        self.ctr[prefix] = n + 1
        return f"{prefix}{n}"

    def has(self, feat: str) -> bool:
        return feat in self.on

    # ---- expressions
    def const(self, t: str) -> dict[str, Any]:
        if t in _CONSTS:
            return C(self.pick(_CONSTS[t]))
        if t == "list":
            return {"k": "list", "es": [self.const("int") for _ in range(self.i(4))]}
        if t == "dict":
            keys = ["a", "b", "k1"][: self.i(4)]
            return {"k": "dict", "kv": [[C(kk), self.const("int")] for kk in keys]}
        if t == "opt":
            return C(None) if self.chance(50) else self.const("int")
        if t.startswith("obj:"):
            cls = self.cls(t[4:])
            return CALL(cls["name"], *[self.const(f["t"]) for f in cls["fields"]])
        raise ValueError(t)

    def cls(self, name: str) -> dict[str, Any]:
        return next(c for c in self.classes if c["name"] == name)

    def leaf(self, env: _Env, t: str) -> dict[str, Any]:
        names = env.of(t)
        if names and self.chance(70):
            return N(self.pick(names))
        return self.const(t)

    def expr(self, env: _Env, t: str, d: int = 2) -> dict[str, Any]:
        if self.has("illtyped") and self.draw(_ints(0, 199)) >= 197:
            other = self.pick([x for x in TYPES if x != t])
            e = dict(self._expr(env, other, min(d, 1)))
            e["ill"] = True
            return e
        return self._expr(env, t, d)

    def _expr(self, env: _Env, t: str, d: int) -> dict[str, Any]:
        if d <= 0:
            return self.leaf(env, t)
        if t.startswith("obj:"):
            return self.leaf(env, t)
        return getattr(self, "_e_" + t)(env, d)

    def small_index(self, env: _Env) -> dict[str, Any]:
        if self.chance(65):
            return C(self.pick([0, 0, -1, 1, 2, 3]))
        return self.leaf(env, "int")

    def calls_returning(self, env: _Env, t: str) -> list[dict[str, Any]]:
        if not self.has("call"):
            return []
        out = [f for f in self.funcs if f["ret"] == t]
        out += [f for f in env.fns if f["ret"] == t]
        return out

    def call_of(self, env: _Env, sig: dict[str, Any], d: int) -> dict[str, Any]:
        return CALL(sig["name"], *[self.expr(env, pt, min(d, 1)) for pt in sig["ptypes"]])

    def attr_sources(self, env: _Env, t: str) -> list[dict[str, Any]]:
        """Attribute / property reads and method calls of type ``t`` on visible objects."""
        if not self.has("attr"):
            return []
        out: list[dict[str, Any]] = []
        for name, vt in env.vars.items():
            if not vt.startswith("obj:"):
                continue
            cls = self.cls(vt[4:])
            for f in cls["fields"]:
                if f["t"] == t:
                    out.append({"k": "attr", "o": N(name), "a": f["name"]})
            for p in cls["props"]:
                if p["ret"] == t and not (name == "self" and env.kind == "prop"):
                    out.append({"k": "attr", "o": N(name), "a": p["name"]})
            for m in cls["methods"]:
                if m["ret"] == t and not m["params"] and name != "self":
                    out.append(METH(N(name), m["name"]))
        return out

    def ternary(self, env: _Env, t: str, d: int) -> dict[str, Any]:
        return {"k": "ife", "c": self.cond(env, d - 1), "t": self.expr(env, t, d - 1), "f": self.expr(env, t, d - 1)}

    def int_iter(self, env: _Env, d: int) -> tuple[dict[str, Any], str]:
        """A bounded iterable with int elements: (expression, source class)."""
        r = self.i(10)
        if r < 4:
            return CALL("range", CALL("min", self.expr(env, "int", min(d, 1)), C(self.pick([FOR_CAP, 3, 4])))), "range"
        if r < 6 and self.gens and self.has("genfunc"):
            g = self.pick(self.gens)
            return self.call_of(env, g, 1), "gen"
        # Always iterate over a bounded *copy* (``xs[:N]``): the loop body (or a function called from a comprehension) may
        # append to the very list that is being iterated, which would never terminate on the list itself.
        names = env.of("list")
        src = N(self.pick(names)) if names and r < 8 else self.expr(env, "list", min(d, 1))
        return {"k": "slice", "o": src, "lo": None, "hi": C(FOR_CAP)}, "list"

    def comp(self, env: _Env, kind: str, d: int, elt_t: str = "int") -> dict[str, Any]:
        var = self.fresh("c")
        it, _ = self.int_iter(env, d - 1)
        e2 = env.child()
        e2.vars[var] = "int"
        e2.writable.discard(var)
        conds = []
        if self.chance(60):
            conds.append(self.cond(e2, d - 1, var))
            if self.chance(15):
                conds.append(self.cond(e2, d - 1, var))
        if elt_t == "bool":
            elt = self.cond(e2, d - 1, var)
        elif elt_t == "str":
            elt = CALL("str", N(var))
        else:
            elt = self.expr(e2, "int", d - 1) if self.chance(60) else {"k": "bin", "op": self.pick(["+", "*", "-", "%"]),
                                                                       "l": N(var), "r": C(self.pick([1, 2, 3]))}
        out = {"k": "comp", "kind": kind, "elt": elt, "var": var, "it": it, "conds": conds}
        if kind == "dict":
            out["key"] = CALL("str", N(var))
        return out

    def lam(self, env: _Env, ret: str, d: int) -> dict[str, Any]:
        p = self.fresh("p")
        e2 = env.child()
        e2.vars[p] = "int"
        body = self.cond(e2, d - 1, p) if ret == "bool" else self.expr(e2, ret, d - 1)
        return {"k": "lam", "params": [p], "body": body}

    def _e_int(self, env: _Env, d: int) -> dict[str, Any]:  # noqa: C901, PLR0911, PLR0912
        opts: list[tuple[int, str]] = [(10, "leaf"), (10, "arith"), (4, "len"), (2, "neg"), (4, "builtin")]
        if self.has("subscript"):
            opts.append((4, "sub"))
        if self.calls_returning(env, "int"):
            opts.append((4, "call"))
        if self.has("ternary"):
            opts.append((2, "ternary"))
        attrs = self.attr_sources(env, "int")
        if attrs:
            opts.append((5, "attr"))
        if self.has("comp"):
            opts.append((3, "comp"))
        k = self.weighted(opts)
        if k == "leaf":
            return self.leaf(env, "int")
        if k == "arith":
            op = self.pick(["+", "-", "*", "//", "%"])
            left = self.expr(env, "int", d - 1)
            right = C(self.pick([2, 3, -1, 0, 10])) if op == "*" else self.expr(env, "int", d - 1)
            return {"k": "bin", "op": op, "l": left, "r": right}
        if k == "len":
            return CALL("len", self.expr(env, self.pick(["list", "str", "dict", "list"]), d - 1))
        if k == "neg":
            return {"k": "un", "op": "-", "e": self.expr(env, "int", d - 1)}
        if k == "sub":
            if self.chance(25):
                return {"k": "sub", "o": self.expr(env, "dict", d - 1), "i": self.expr(env, "str", 0)}
            return {"k": "sub", "o": self.expr(env, "list", d - 1), "i": self.small_index(env)}
        if k == "call":
            return self.call_of(env, self.pick(self.calls_returning(env, "int")), d - 1)
        if k == "ternary":
            return self.ternary(env, "int", d)
        if k == "attr":
            return self.pick(attrs)
        if k == "comp":
            r = self.i(3)
            if r == 0:
                return CALL("sum", self.comp(env, "gen", d))
            if r == 1:
                return CALL("len", self.comp(env, "set", d))
            return CALL("len", self.comp(env, "list", d))
        r = self.i(8)
        if r == 0:
            return CALL("abs", self.expr(env, "int", d - 1))
        if r == 1:
            return CALL(self.pick(["min", "max"]), self.expr(env, "int", d - 1), self.expr(env, "int", d - 1))
        if r == 2:
            return CALL("sum", self.expr(env, "list", d - 1))
        if r == 3:
            return CALL("int", self.expr(env, self.pick(["float", "bool", "str"]), d - 1))
        if r == 4:
            return METH(self.expr(env, "str", d - 1), self.pick(["find", "count"]), self.const("str"))
        if r == 5:
            return METH(self.expr(env, "dict", d - 1), "get", self.expr(env, "str", 0), C(0))
        if r == 6:
            return CALL("max", self.expr(env, "list", d - 1), kw=[["default", C(0)]])
        return CALL("ord", {"k": "sub", "o": self.expr(env, "str", d - 1), "i": C(0)})

    def _e_float(self, env: _Env, d: int) -> dict[str, Any]:
        r = self.i(6)
        if r <= 1:
            return self.leaf(env, "float")
        if r == 2:
            return {"k": "bin", "op": "/", "l": self.expr(env, "int", d - 1), "r": self.expr(env, "int", d - 1)}
        if r == 3:
            return {"k": "bin", "op": self.pick(["+", "-", "*", "/"]), "l": self.expr(env, "float", d - 1),
                    "r": self.expr(env, self.pick(["float", "int"]), d - 1)}
        if r == 4:
            return CALL("float", self.expr(env, "int", d - 1))
        return CALL("abs", self.expr(env, "float", d - 1))

    def _e_str(self, env: _Env, d: int) -> dict[str, Any]:  # noqa: PLR0911
        opts = [(10, "leaf"), (5, "concat"), (2, "rep"), (4, "method"), (4, "str")]
        if self.has("subscript"):
            opts += [(3, "sub"), (2, "slice")]
        if self.has("ternary"):
            opts.append((2, "ternary"))
        if self.calls_returning(env, "str"):
            opts.append((3, "call"))
        attrs = self.attr_sources(env, "str")
        if attrs:
            opts.append((4, "attr"))
        if self.has("comp"):
            opts.append((2, "join"))
        k = self.weighted(opts)
        if k == "leaf":
            return self.leaf(env, "str")
        if k == "concat":
            return {"k": "bin", "op": "+", "l": self.expr(env, "str", d - 1), "r": self.const("str")}
        if k == "rep":
            return {"k": "bin", "op": "*", "l": self.const("str"),
                    "r": {"k": "bin", "op": "%", "l": self.expr(env, "int", d - 1), "r": C(3)}}
        if k == "method":
            return METH(self.expr(env, "str", d - 1), self.pick(["upper", "lower", "strip", "title", "swapcase"]))
        if k == "str":
            return CALL("str", self.expr(env, self.pick(["int", "bool", "float", "opt"]), d - 1))
        if k == "sub":
            return {"k": "sub", "o": self.expr(env, "str", d - 1), "i": self.small_index(env)}
        if k == "slice":
            return {"k": "slice", "o": self.expr(env, "str", d - 1), "lo": self.small_index(env) if self.chance(50) else None,
                    "hi": self.small_index(env) if self.chance(60) else None}
        if k == "ternary":
            return self.ternary(env, "str", d)
        if k == "call":
            return self.call_of(env, self.pick(self.calls_returning(env, "str")), d - 1)
        if k == "attr":
            return self.pick(attrs)
        return METH(C(self.pick(["", ",", "-"])), "join", self.comp(env, self.pick(["list", "gen"]), d, "str"))

    def compare(self, env: _Env, d: int, focus: str | None = None) -> dict[str, Any]:
        t = self.pick(["int", "int", "int", "str", "float"])
        if focus is not None:
            t = env.vars.get(focus, "int")
            if t not in ("int", "str", "float"):
                t = "int"
        ops = ["<", "<=", ">", ">=", "==", "!="]
        left = N(focus) if focus is not None and self.chance(80) else self.expr(env, t, d - 1)
        right_t = "float" if t == "int" and self.chance(8) else t
        es = [left, self.expr(env, right_t, d - 1)]
        chosen = [self.pick(ops)]
        if self.has("chain") and t != "str" and self.chance(18):
            es.append(self.expr(env, t, d - 1))
            chosen.append(self.pick(ops))
        return {"k": "cmp", "ops": chosen, "es": es}

    def membership(self, env: _Env, d: int) -> dict[str, Any]:
        op = "in" if self.chance(65) else "not in"
        r = self.i(5)
        if r == 0:
            return {"k": "cmp", "ops": [op], "es": [self.expr(env, "int", d - 1), self.expr(env, "list", d - 1)]}
        if r == 1:
            return {"k": "cmp", "ops": [op], "es": [self.expr(env, "int", d - 1), C([self.pick([0, 1, 2]), 3, 5])]}
        if r == 2:
            return {"k": "cmp", "ops": [op], "es": [self.const("str") if self.chance(50) else self.expr(env, "str", d - 1),
                                                     self.expr(env, "str", d - 1)]}
        if r == 3:
            return {"k": "cmp", "ops": [op], "es": [self.expr(env, "str", d - 1), self.expr(env, "dict", d - 1)]}
        return {"k": "cmp", "ops": [op], "es": [self.expr(env, "str", d - 1), C(["a", "ab", self.pick(["b", "", "1"])])]}

    def strpred(self, env: _Env, d: int) -> dict[str, Any]:
        s = self.expr(env, "str", d - 1)
        m = self.pick(_STR_PREDS[:8])
        if m in ("startswith", "endswith"):
            arg = C([self.pick(["a", "b", ""]), self.pick(["ab", "1", "A"])]) if self.has("strtuple") and self.chance(30) else (
                self.const("str") if self.chance(70) else self.expr(env, "str", d - 1))
            return METH(s, m, arg)
        return METH(s, m)

    def _e_bool(self, env: _Env, d: int, focus: str | None = None) -> dict[str, Any]:  # noqa: C901, PLR0911
        opts = [(12, "cmp"), (3, "leaf"), (2, "isinst")]
        if self.has("boolop") and d >= 1:
            opts += [(6, "boolop"), (3, "not")]
        opt_names = env.of("opt")
        if self.has("isnone"):
            opts.append((7 if opt_names else 3, "isnone"))
        if self.has("in"):
            opts.append((5, "in"))
        if self.has("strpred"):
            opts.append((5, "strpred"))
        if self.has("comp"):
            opts.append((2, "anyall"))
        if self.calls_returning(env, "bool"):
            opts.append((2, "call"))
        attrs = self.attr_sources(env, "bool")
        if attrs:
            opts.append((2, "attr"))
        k = self.weighted(opts)
        if k == "cmp":
            return self.compare(env, d, focus)
        if k == "leaf":
            return self.leaf(env, "bool")
        if k == "isinst":
            return CALL("isinstance", self.leaf(env, self.pick(list(TYPES))), N(self.pick(["int", "str", "float", "list"])))
        if k == "boolop":
            n = 2 + (1 if self.chance(25) else 0)
            return {"k": "bool", "op": self.pick(["and", "or"]), "es": [self._e_bool(env, d - 1, focus) for _ in range(n)]}
        if k == "not":
            return {"k": "un", "op": "not", "e": self._e_bool(env, d - 1, focus)}
        if k == "isnone":
            subj = N(self.pick(opt_names)) if opt_names and self.chance(85) else self.expr(env, "opt", d - 1)
            if subj["k"] == "c":  # ``0 is None`` only triggers a SyntaxWarning; test a variable instead
                names = sorted(env.vars)
                subj = N(self.pick(names)) if names else {"k": "ife", "c": C(True), "t": subj, "f": C(None)}
            return {"k": "cmp", "ops": [self.pick(["is", "is not", "is not"])], "es": [subj, C(None)]}
        if k == "in":
            return self.membership(env, d)
        if k == "strpred":
            return self.strpred(env, d)
        if k == "anyall":
            return CALL(self.pick(["any", "all"]), self.comp(env, "gen", d, "bool"))
        if k == "call":
            return self.call_of(env, self.pick(self.calls_returning(env, "bool")), d - 1)
        return self.pick(attrs)

    def cond(self, env: _Env, d: int = 2, focus: str | None = None) -> dict[str, Any]:
        """A condition: mostly a bool expression, sometimes the truthiness of another value."""
        if self.chance(15):
            t = self.pick(["int", "str", "list", "opt", "dict"])
            return self.expr(env, t, min(d, 1))
        return self._e_bool(env, d, focus) if d > 0 else self.compare(env, 1, focus)

    def _e_list(self, env: _Env, d: int) -> dict[str, Any]:  # noqa: PLR0911
        opts = [(10, "leaf"), (4, "lit"), (4, "append"), (3, "sorted"), (3, "range")]
        if self.has("subscript"):
            opts.append((3, "slice"))
        if self.has("comp"):
            opts += [(6, "listcomp"), (2, "setcomp")]
        if self.has("lambda"):
            opts.append((4, "lambda"))
        if self.gens and self.has("genfunc"):
            opts.append((4, "gen"))
        if self.calls_returning(env, "list"):
            opts.append((3, "call"))
        if self.has("ternary"):
            opts.append((1, "ternary"))
        attrs = self.attr_sources(env, "list")
        if attrs:
            opts.append((3, "attr"))
        k = self.weighted(opts)
        if k == "leaf":
            return self.leaf(env, "list")
        if k == "lit":
            return {"k": "list", "es": [self.expr(env, "int", d - 1) for _ in range(1 + self.i(3))]}
        if k == "append":
            return {"k": "bin", "op": "+", "l": self.expr(env, "list", d - 1),
                    "r": {"k": "list", "es": [self.expr(env, "int", d - 1)]}}
        if k == "sorted":
            return CALL(self.pick(["sorted", "list"]), self.expr(env, "list", d - 1))
        if k == "range":
            return CALL("list", CALL("range", CALL("min", self.expr(env, "int", d - 1), C(FOR_CAP))))
        if k == "slice":
            return {"k": "slice", "o": self.expr(env, "list", d - 1), "lo": self.small_index(env) if self.chance(50) else None,
                    "hi": self.small_index(env) if self.chance(60) else None}
        if k == "listcomp":
            return self.comp(env, "list", d)
        if k == "setcomp":
            return CALL("sorted", self.comp(env, "set", d))
        if k == "lambda":
            r = self.i(3)
            src = self.expr(env, "list", d - 1)
            if r == 0:
                return CALL("sorted", src, kw=[["key", self.lam(env, "int", d)]])
            if r == 1:
                return CALL("list", CALL("map", self.lam(env, "int", d), src))
            return CALL("list", CALL("filter", self.lam(env, "bool", d), src))
        if k == "gen":
            return CALL("list", self.call_of(env, self.pick(self.gens), d - 1))
        if k == "call":
            return self.call_of(env, self.pick(self.calls_returning(env, "list")), d - 1)
        if k == "ternary":
            return self.ternary(env, "list", d)
        return self.pick(attrs)

    def _e_dict(self, env: _Env, d: int) -> dict[str, Any]:
        r = self.i(8)
        if r <= 3:
            return self.leaf(env, "dict")
        if r == 4:
            return {"k": "dict", "kv": [[self.expr(env, "str", 0), self.expr(env, "int", d - 1)] for _ in range(1 + self.i(2))]}
        if r == 5 and self.has("comp"):
            return self.comp(env, "dict", d)
        if r == 6:
            return {"k": "dict", "kv": [[None, self.expr(env, "dict", d - 1)], [self.const("str"), self.expr(env, "int", d - 1)]]}
        calls = self.calls_returning(env, "dict")
        if calls:
            return self.call_of(env, self.pick(calls), d - 1)
        return self.leaf(env, "dict")

    def _e_opt(self, env: _Env, d: int) -> dict[str, Any]:
        r = self.i(9)
        if r <= 2:
            return self.leaf(env, "opt")
        if r == 3:
            return C(None)
        if r == 4:
            return self.expr(env, "int", d - 1)
        if r == 5:
            return METH(self.expr(env, "dict", d - 1), "get", self.expr(env, "str", 0))
        if r == 6 and self.has("comp"):
            return CALL("next", self.comp(env, "gen", d), C(None))
        if r == 7 and self.has("ternary"):
            return {"k": "ife", "c": self.cond(env, d - 1), "t": self.expr(env, "int", d - 1), "f": C(None)}
        calls = self.calls_returning(env, "opt")
        if calls:
            return self.call_of(env, self.pick(calls), d - 1)
        return self.leaf(env, "opt")

    # ---- statements
    def new_var_type(self) -> str:
        if self.classes and self.has("class") and self.chance(12):
            return "obj:" + self.pick(self.classes)["name"]
        return self.pick(_NEW_VAR_TYPES)

    def block(self, env: _Env, depth: int, max_n: int) -> list[dict[str, Any]]:
        out: list[dict[str, Any]] = []
        n = 1 + self.i(max(1, max_n))
        for _ in range(n):
            if self.budget <= 0 and out:
                break
            stmts, terminal = self.stmt(env, depth)
            out.extend(stmts)
            if terminal:
                break
        return out

    def stmt(self, env: _Env, depth: int) -> tuple[list[dict[str, Any]], bool]:  # noqa: C901, PLR0911, PLR0912, PLR0915
        self.budget -= 1
        nested_ok = depth < self.max_depth and self.budget > 0
        in_fn = env.kind != "top"
        opts: list[tuple[int, str]] = [(20, "assign"), (7, "aug"), (5, "exprstmt"), (1, "pass")]
        if nested_ok:
            if self.has("if"):
                opts.append((16, "if"))
            if self.has("while"):
                opts.append((6, "while"))
            if self.has("for"):
                opts.append((9, "for"))
            if self.has("try"):
                opts.append((6, "try"))
            if self.has("with"):
                opts.append((3, "with"))
            if self.has("match"):
                opts.append((4, "match"))
            if self.has("closure") and in_fn and env.kind != "nested2":
                opts.append((3, "def"))
        if self.has("lambda"):
            opts.append((2, "lambda"))
        if self.has("assert"):
            opts.append((3, "assert"))
        if depth > 0:
            if in_fn:
                opts.append((5, "ret"))
            if self.has("raise"):
                opts.append((4, "raise"))
            if env.in_loop and env.since_loop >= 1 and self.has("loopctl"):
                opts.append((8, "loopctl"))
        if env.kind == "gen":
            opts.append((9, "yield"))
        k = self.weighted(opts)
        if k == "pass":
            return [{"k": "pass"}], False
        if k == "assign":
            return [self.assign(env)], False
        if k == "aug":
            return [self.aug(env)], False
        if k == "exprstmt":
            return [self.exprstmt(env)], False
        if k == "assert":
            s: dict[str, Any] = {"k": "assert", "c": self.cond(env)}
            if self.chance(50):
                s["msg"] = self.pick(["bad", "x", "must hold"])
            return [s], False
        if k == "ret":
            if env.kind in ("gen", "genfin"):
                return [{"k": "ret", "v": None}], True
            return [{"k": "ret", "v": self.expr(env, env.ret)}], True
        if k == "raise":
            if env.handler and self.chance(35):
                return [{"k": "raise", "exc": None}], True
            return [{"k": "raise", "exc": self.pick(EXC_NAMES[:8]), "msg": self.pick(["", "m", "bad value"])}], True
        if k == "loopctl":
            return [{"k": self.pick(["break", "continue"])}], True
        if k == "yield":
            self.yielded = True
            return [{"k": "yield", "v": self.expr(env, "int")}], False
        if k == "if":
            return [self.if_stmt(env, depth)], False
        if k == "while":
            return [self.while_stmt(env, depth)], False
        if k == "for":
            return [self.for_stmt(env, depth)], False
        if k == "try":
            return [self.try_stmt(env, depth)], False
        if k == "with":
            return [self.with_stmt(env, depth)], False
        if k == "match":
            return [self.match_stmt(env, depth)], False
        if k == "def":
            return self.def_stmt(env, depth), False
        if k == "lambda":
            return self.lambda_stmt(env), False
        raise AssertionError(k)

    def bind(self, env: _Env, t: str) -> str:
        name = self.fresh("t" if env.kind == "top" else "v")
        env.vars[name] = t
        env.writable.add(name)
        if env.kind not in ("top",):
            env.nl.add(name)
        return name

    def assign(self, env: _Env) -> dict[str, Any]:
        r = self.i(100)
        stores = []
        if self.has("subscript"):
            stores += [("list", n) for n in env.of("list")] + [("dict", n) for n in env.of("dict")]
        objs = [n for n, t in env.vars.items() if t.startswith("obj:") and self.cls(t[4:])["fields"]]
        if r < 12 and stores:
            kind, name = self.pick(stores)
            idx = self.small_index(env) if kind == "list" else self.expr(env, "str", 0)
            return {"k": "assign", "t": {"k": "sub", "o": N(name), "i": idx}, "v": self.expr(env, "int")}
        if r < 22 and objs and self.has("attr"):
            name = self.pick(objs)
            f = self.pick(self.cls(env.vars[name][4:])["fields"])
            return {"k": "assign", "t": {"k": "attr", "o": N(name), "a": f["name"]}, "v": self.expr(env, f["t"])}
        writable = sorted(n for n in env.writable if n in env.vars)
        if r < 60 and writable:
            name = self.pick(writable)
            return {"k": "assign", "t": N(name), "v": self.expr(env, env.vars[name])}
        t = self.new_var_type()
        value = self.expr(env, t)
        return {"k": "assign", "t": N(self.bind(env, t)), "v": value}

    def aug(self, env: _Env) -> dict[str, Any]:
        cands = sorted(n for n in env.writable if env.vars.get(n) in ("int", "float", "str", "list"))
        if not cands:
            return self.assign(env)
        name = self.pick(cands)
        t = env.vars[name]
        if t == "int":
            op = self.pick(["+", "-", "*", "//", "%"])
            v = C(self.pick([2, 3, -1])) if op == "*" else self.expr(env, "int", 1)
        elif t == "float":
            op, v = self.pick(["+", "-", "/"]), self.expr(env, self.pick(["float", "int"]), 1)
        elif t == "str":
            op, v = "+", self.const("str")
        else:
            op, v = "+", {"k": "list", "es": [self.expr(env, "int", 1)]}
        return {"k": "aug", "t": N(name), "op": op, "v": v}

    def exprstmt(self, env: _Env) -> dict[str, Any]:
        lists, dicts = env.of("list"), env.of("dict")
        r = self.i(6)
        if lists and r <= 2:
            name = self.pick(lists)
            m = self.pick(["append", "append", "pop", "sort", "reverse", "remove"])
            args = [self.expr(env, "int", 1)] if m in ("append", "remove") else []
            return {"k": "expr", "v": METH(N(name), m, *args)}
        if dicts and r <= 4:
            name = self.pick(dicts)
            m = self.pick(["pop", "setdefault", "update"])
            if m == "update":
                return {"k": "expr", "v": METH(N(name), m, {"k": "dict", "kv": [[self.const("str"), self.expr(env, "int", 1)]]})}
            return {"k": "expr", "v": METH(N(name), m, self.expr(env, "str", 0), self.expr(env, "opt" if m == "pop" else "int", 1))}
        sigs = [f for f in self.funcs + env.fns] if self.has("call") else []
        if sigs:
            return {"k": "expr", "v": self.call_of(env, self.pick(sigs), 1)}
        return self.assign(env)

    def focus_var(self, env: _Env) -> str | None:
        names = [n for n, t in env.vars.items() if t in ("int", "str", "float")]
        return self.pick(names) if names and self.chance(60) else None

    def if_stmt(self, env: _Env, depth: int) -> dict[str, Any]:
        s: dict[str, Any] = {"k": "if", "c": self.cond(env, 2, self.focus_var(env)),
                             "body": self.block(env.child(), depth + 1, 3), "elifs": []}
        while self.chance(22) and len(s["elifs"]) < 2:
            s["elifs"].append([self.cond(env, 2, self.focus_var(env)), self.block(env.child(), depth + 1, 2)])
        s["else"] = self.block(env.child(), depth + 1, 2) if self.chance(45) else None
        return s

    def while_stmt(self, env: _Env, depth: int) -> dict[str, Any]:
        fuel = self.fresh("_f")
        body_env = env.child(loop=True)
        tail: list[dict[str, Any]] = []
        ints = sorted(n for n in env.writable if env.vars.get(n) == "int")
        if ints and self.chance(60):
            w = self.pick(ints)
            up = self.chance(40)
            c: dict[str, Any] = {"k": "cmp", "ops": ["<" if up else ">"], "es": [N(w), self.expr(env, "int", 1)]}
            if self.has("boolop") and self.chance(25):
                c = {"k": "bool", "op": self.pick(["and", "or"]), "es": [c, self.cond(env, 1)]}
            tail = [{"k": "aug", "t": N(w), "op": "+" if up else "-", "v": C(self.pick([1, 1, 2]))}]
        else:
            c = self.cond(env, 2)
        body = self.block(body_env, depth + 1, 3)
        if tail and not (body and body[-1]["k"] in ("break", "continue", "ret", "raise")):
            body = body + tail
        s = {"k": "while", "c": c, "fuel": fuel, "n": 1 + self.i(5), "form": self.pick(["guard", "cond"]), "body": body,
             "else": None}
        if self.has("loopctl") and self.chance(25):
            s["else"] = self.block(env.child(), depth + 1, 2)
        return s

    def for_stmt(self, env: _Env, depth: int) -> dict[str, Any]:
        var = self.fresh("i")
        r = self.i(10)
        vt = "int"
        if self.gens and self.has("genfunc") and self.chance(20):
            it, src = self.call_of(env, self.pick(self.gens), 1), "gen"
        elif r < 6:
            it, src = self.int_iter(env, 2)
        elif r < 8:
            strs = env.of("str")
            it = N(self.pick(strs)) if strs and self.chance(60) else {"k": "slice", "o": self.expr(env, "str", 1), "lo": None,
                                                                      "hi": C(FOR_CAP)}
            src, vt = "str", "str"
        elif r < 9:
            it, src, vt = CALL("sorted", self.expr(env, "dict", 1)), "dict", "str"
        else:
            it, src = CALL("enumerate", {"k": "slice", "o": self.expr(env, "list", 1), "lo": None, "hi": C(FOR_CAP)}), "enumerate"
        body_env = env.child(loop=True)
        target = var
        if src == "enumerate":
            second = self.fresh("i")
            target = f"{var}, {second}"
            body_env.vars[second] = "int"
        body_env.vars[var] = vt
        s = {"k": "for", "var": target, "it": it, "src": src, "body": self.block(body_env, depth + 1, 3), "else": None}
        if self.has("loopctl") and self.chance(25):
            s["else"] = self.block(env.child(), depth + 1, 2)
        return s

    def risky_stmt(self, env: _Env) -> tuple[dict[str, Any], str]:
        """A straight-line statement that raises for some inputs, and the exception it raises."""
        opts: list[tuple[str, str]] = []
        ints, lists, dicts, strs = env.of("int"), env.of("list"), env.of("dict"), env.of("str")
        if ints:
            opts += [("div", "ZeroDivisionError")] * 2
        if lists:
            opts += [("index", "IndexError")] * 2
        if dicts:
            opts.append(("key", "KeyError"))
        if strs:
            opts.append(("int", "ValueError"))
        if not opts:
            return {"k": "assert", "c": self.compare(env, 1)}, "AssertionError"
        kind, exc = self.pick(opts)
        if kind == "div":
            value: dict[str, Any] = {"k": "bin", "op": self.pick(["//", "%"]), "l": self.leaf(env, "int"), "r": N(self.pick(ints))}
        elif kind == "index":
            value = {"k": "sub", "o": N(self.pick(lists)), "i": self.leaf(env, "int")}
        elif kind == "key":
            value = {"k": "sub", "o": N(self.pick(dicts)), "i": self.leaf(env, "str")}
        else:
            value = CALL("int", N(self.pick(strs)))
        return {"k": "assign", "t": N(self.bind(env, "int")), "v": value}, exc

    def guarded_prefix_shape(self, env: _Env, depth: int) -> list[dict[str, Any]]:
        """Body of a ``try``/``with``: straight-line statements *directly* followed by a nested ``try`` whose handler branches.

        (Two exception-table regions then start in one basic block: the enclosing one and, after the simple statements,
        the nested one -- a shape in which the handler of the nested ``try`` is reachable only through the second region.)
        The nested body is a statement that raises for some inputs (division, subscript, ``int(str)``), the handler catches
        that exception and contains an ``if`` or a ``for``.
        """
        out: list[dict[str, Any]] = []
        for _ in range(1 + self.i(2)):
            t = self.pick(["int", "int", "str", "bool"])
            value = self.leaf(env, t)
            out.append({"k": "assign", "t": N(self.bind(env, t)), "v": value})
        inner_env = env.child()
        risky, exc = self.risky_stmt(inner_env)
        body = [risky]
        if self.chance(40):
            body.append(self.assign(inner_env))
        h_env = env.child(handler=True)
        names = [exc] if self.chance(60) else ([exc, self.pick(EXC_NAMES[:6])] if self.chance(50) else ["Exception"])
        handler: dict[str, Any] = {"exc": list(dict.fromkeys(names)), "as": self.fresh("e") if self.chance(30) else None}
        saved = self.budget
        self.budget = min(self.budget, 3)
        branchy = self.if_stmt(h_env, depth + 1) if self.chance(65) or not self.has("for") else self.for_stmt(h_env, depth + 1)
        self.budget = saved - 5
        handler["body"] = [branchy]
        out.append({"k": "try", "body": body, "handlers": [handler], "else": None, "final": None})
        if self.chance(40):
            out.append(self.assign(env))
        return out

    def guarded_body(self, env: _Env, depth: int) -> list[dict[str, Any]]:
        if self.has("try") and self.has("if") and depth + 2 <= self.max_depth and self.chance(30):
            return self.guarded_prefix_shape(env.child(), depth + 1)
        return self.block(env.child(), depth + 1, 3)

    def try_stmt(self, env: _Env, depth: int) -> dict[str, Any]:
        s: dict[str, Any] = {"k": "try", "body": self.guarded_body(env, depth), "handlers": [], "else": None,
                             "final": None}
        final = self.chance(35)
        n_handlers = self.pick([1, 1, 2]) if not final or self.chance(70) else 0
        used: list[str] = []
        for _ in range(n_handlers):
            names = [x for x in [self.pick(EXC_NAMES)] + ([self.pick(EXC_NAMES)] if self.chance(30) else []) if x not in used]
            names = list(dict.fromkeys(names))
            if not names:
                continue
            used += names
            h_env = env.child(handler=True)
            h: dict[str, Any] = {"exc": names, "as": None}
            if self.chance(40):
                h["as"] = self.fresh("e")
            h["body"] = self.block(h_env, depth + 1, 2)
            s["handlers"].append(h)
        if s["handlers"] and self.chance(30):
            s["else"] = self.block(env.child(), depth + 1, 2)
        if final or not s["handlers"]:
            f_env = env.child()
            if f_env.kind == "gen":
                f_env.kind = "genfin"  # no ``yield`` in a finally block: closing the generator must be able to finish
            s["final"] = self.block(f_env, depth + 1, 2)
        return s

    def with_stmt(self, env: _Env, depth: int) -> dict[str, Any]:
        self.uses_ctx = True
        flag = self.leaf(env, "bool") if self.chance(50) else C(self.chance(50))
        s: dict[str, Any] = {"k": "with", "ctx": CALL("_Ctx", flag), "as": None}
        if self.chance(50):
            s["as"] = self.fresh("w")
        s["body"] = self.guarded_body(env, depth)
        return s

    def match_stmt(self, env: _Env, depth: int) -> dict[str, Any]:
        t = self.pick(["int", "str", "list", "opt"])
        cases = []
        n = 1 + self.i(3)
        for _ in range(n):
            c_env = env.child()
            pat, guard = self.pattern(c_env, t)
            cases.append({"pat": pat, "guard": guard, "body": self.block(c_env, depth + 1, 2)})
        if self.chance(60):
            cases.append({"pat": {"p": "wild"}, "guard": None, "body": self.block(env.child(), depth + 1, 2)})
        return {"k": "match", "subj": self.expr(env, t, 1), "cases": cases}

    def pattern(self, env: _Env, t: str) -> tuple[dict[str, Any], dict[str, Any] | None]:  # noqa: PLR0911
        def cap(tt: str) -> str:
            name = self.fresh("m")
            env.vars[name] = tt
            return name

        r = self.i(6)
        if t == "list":
            if r == 0:
                return {"p": "seq", "items": [], "star": None}, None
            if r == 1:
                return {"p": "seq", "items": [{"p": "cap", "n": cap("int")}], "star": None}, None
            if r == 2:
                return {"p": "seq", "items": [{"p": "cap", "n": cap("int")}, {"p": "cap", "n": cap("int")}], "star": None}, None
            if r == 3:
                return {"p": "seq", "items": [{"p": "lit", "v": self.pick([0, 1, 2])}], "star": cap("list")}, None
            a = cap("int")
            return {"p": "seq", "items": [{"p": "cap", "n": a}], "star": "_"}, self.compare(env, 1, a)
        if t == "opt":
            if r <= 1:
                return {"p": "none"}, None
            if r <= 3:
                return {"p": "cls", "c": "int", "n": cap("int")}, None
            return {"p": "lit", "v": self.pick([0, 1, 2])}, None
        lits = _CONSTS[t]
        if r <= 1:
            return {"p": "lit", "v": self.pick(lits)}, None
        if r == 2:
            alts = list(dict.fromkeys([self.pick(lits), self.pick(lits), self.pick(lits)]))
            return ({"p": "or", "alts": [{"p": "lit", "v": v} for v in alts]} if len(alts) > 1 else {"p": "lit", "v": alts[0]}), None
        if r == 3:
            name = cap(t)
            return {"p": "cap", "n": name}, self.cond(env, 1, name)
        if r == 4:
            return {"p": "cls", "c": t, "n": cap(t)}, None
        return {"p": "cls", "c": self.pick(["int", "str", "float", "list"]), "n": None}, None

    def def_stmt(self, env: _Env, depth: int) -> list[dict[str, Any]]:
        name = self.fresh("h")
        ptypes = [self.pick(["int", "int", "str", "list", "opt"]) for _ in range(self.i(3))]
        params = [self.fresh("q") for _ in ptypes]
        inner = _Env()
        inner.vars = dict(env.vars)
        inner.fns = list(env.fns)
        inner.kind = "nested2" if env.kind in ("nested", "nested2") else "nested"
        inner.ret = self.pick(["int", "int", "str", "bool", "list", "opt"])
        for p, t in zip(params, ptypes):
            inner.vars[p] = t
            inner.writable.add(p)
            inner.nl.add(p)
        nonlocals: list[str] = []
        cands = sorted(n for n in env.nl if n in env.vars and n in env.writable)
        if cands and self.chance(45):
            nonlocals = [self.pick(cands)]
            inner.writable.update(nonlocals)
        saved = self.budget
        self.budget = min(self.budget, 4)
        body = self.block(inner, depth + 1, 3)
        self.budget = saved - 2
        if not body or body[-1]["k"] not in ("ret", "raise"):
            body.append({"k": "ret", "v": self.expr(inner, inner.ret)})
        sig = {"name": name, "ptypes": ptypes, "ret": inner.ret}
        out: list[dict[str, Any]] = [{"k": "def", "name": name, "params": params, "nonlocal": nonlocals, "body": body}]
        env.fns.append(sig)
        value = self.call_of(env, sig, 1)
        out.append({"k": "assign", "t": N(self.bind(env, inner.ret)), "v": value})
        return out

    def lambda_stmt(self, env: _Env) -> list[dict[str, Any]]:
        name = self.fresh("l")
        ret = self.pick(["int", "bool", "str", "int"])
        lam = self.lam(env, ret, 2)
        value = CALL(name, self.expr(env, "int", 1))
        return [{"k": "assign", "t": N(name), "v": lam},
                {"k": "assign", "t": N(self.bind(env, ret)), "v": value}]

    # ---- definitions
    def base_env(self, kind: str, ret: str) -> _Env:
        env = _Env()
        env.kind, env.ret = kind, ret
        env.vars.update(self.globals)
        return env

    def func(self, name: str, kind: str, n_params: int, ret: str, owner: dict[str, Any] | None = None) -> dict[str, Any]:
        env = self.base_env(kind, ret)
        params = []
        for _ in range(n_params):
            t = self.new_var_type()
            p = self.fresh("a")
            params.append({"name": p, "t": t})
            env.vars[p] = t
            env.writable.add(p)
            env.nl.add(p)
        if owner is not None:
            env.vars["self"] = "obj:" + owner["name"]
        gw: list[str] = []
        if self.has("global") and self.globals and self.chance(35):
            gw = [self.pick(sorted(self.globals))]
            env.writable.update(gw)
        self.budget = 2 + self.i(max(1, self.max_stmts - 1))
        self.yielded = False
        body = self.block(env, 0, self.budget)
        if kind == "gen":
            if not self.yielded:
                var = self.fresh("i")
                e2 = env.child(loop=True)
                e2.vars[var] = "int"
                limit = N(params[0]["name"]) if params and params[0]["t"] == "int" else C(3)
                inner: list[dict[str, Any]] = []
                if self.chance(50):
                    inner.append({"k": "if", "c": self.cond(e2, 1, var), "body": [{"k": "continue"}], "elifs": [], "else": None})
                inner.append({"k": "yield", "v": self.expr(e2, "int", 1)})
                body.append({"k": "for", "var": var, "it": CALL("range", CALL("min", limit, C(4))), "src": "range",
                             "body": inner, "else": None})
        elif not body or body[-1]["k"] not in ("ret", "raise"):
            body.append({"k": "ret", "v": self.expr(env, ret)})
        return {"name": name, "kind": kind, "params": params, "ret": ret, "gw": gw, "body": body}

    def sig_of(self, f: dict[str, Any]) -> dict[str, Any]:
        return {"name": f["name"], "ptypes": [p["t"] for p in f["params"]], "ret": f["ret"]}

    def module(self) -> dict[str, Any]:
        model: dict[str, Any] = {"globals": [], "ctx": False, "gens": [], "classes": [], "funcs": [], "top": []}
        n_glob = self.i(4) if self.has("global") else 0
        for _ in range(n_glob):
            t = self.pick(["int", "int", "str", "list", "bool", "opt", "float", "dict"])
            name = self.fresh("G")
            model["globals"].append({"name": name, "t": t, "v": self.const(t)})
            self.globals[name] = t
        if self.has("genfunc") and self.chance(55):
            f = self.func(self.fresh("g"), "gen", 1 + self.i(2), "list")
            model["gens"].append(f)
            self.gens.append(self.sig_of(f))
        if self.has("class") and self.chance(45):
            cname = self.fresh("K")
            cls: dict[str, Any] = {"name": cname, "fields": [], "methods": [], "props": []}
            for _ in range(1 + self.i(3)):
                cls["fields"].append({"name": self.fresh("x"), "t": self.pick(["int", "int", "str", "list", "bool", "opt"])})
            self.classes.append(cls)
            for _ in range(1 + self.i(2)):
                saved = self.max_stmts
                self.max_stmts = max(3, saved // 2)
                cls["methods"].append(self.func(self.fresh("m"), "method", self.i(3), self.pick(list(TYPES)), cls))
                self.max_stmts = saved
            if self.chance(60):
                saved = self.max_stmts
                self.max_stmts = 5
                cls["props"].append(self.func(self.fresh("p"), "prop", 0, self.pick(["int", "str", "bool", "list"]), cls))
                self.max_stmts = saved
            model["classes"].append(cls)
        for _ in range(1 + self.i(self.max_funcs)):
            ret = self.pick(list(TYPES))
            f = self.func(self.fresh("f"), "func", 1 + self.i(3), ret)
            model["funcs"].append(f)
            self.funcs.append(self.sig_of(f))
        if self.top_level and self.has("toplevel") and self.chance(50):
            env = self.base_env("top", "int")
            env.writable.update(self.globals)
            self.budget = 1 + self.i(5)
            # module-level code must not abort the import: it runs inside one try/except Exception
            model["top"] = [{"k": "try", "body": self.block(env, 1, self.budget), "else": None, "final": None,
                             "handlers": [{"exc": ["Exception"], "as": None, "body": [{"k": "pass"}]}]}]
        model["ctx"] = self.uses_ctx
        return model


def module_strategy(features: set[str] | None = None, max_funcs: int = 3, max_stmts: int = 25, max_depth: int = 4,
                    top_level: bool = True) -> st.SearchStrategy:
    """Strategy drawing module models.  ``features`` restricts the constructs used (default: all of FEATURES)."""
    feats = set(FEATURES) if features is None else set(features)
    unknown = feats - set(FEATURES)
    if unknown:
        raise ValueError(f"unknown features: {sorted(unknown)}")

    @st.composite
    def modules(draw: Any) -> dict[str, Any]:
        return _Gen(draw, feats, max_funcs, max_stmts, max_depth, top_level).module()

    return modules()


def case_strategy(features: set[str] | None = None, max_funcs: int = 3, max_stmts: int = 25, max_depth: int = 4,
                  per_target: int = 2, values: str = "tame", mismatch: int = 6, top_level: bool = True) -> st.SearchStrategy:
    """Strategy drawing {"module": model, "calls": [call, ...]}."""

    @st.composite
    def cases(draw: Any) -> dict[str, Any]:
        model = draw(module_strategy(features, max_funcs, max_stmts, max_depth, top_level))
        return {"module": model, "calls": draw(calls_strategy(model, per_target, values, mismatch))}

    return cases()
