"""vf.gen.traces — sound registries and sound execution traces (DESIGN.md §2.7 "traces").

INTERFACE (used by C10, C11; C07/C35 may reuse it)
==================================================

Everything a check draws is a JSON-able *model*; live pynguin objects are built freshly from the model
inside ``evaluate``.

Registries
----------
``registry_spec()``            Hypothesis strategy -> ``{"funcs": [[template_index, k0, k1, k2, s0], ...],
                               "metrics": ["BRANCH", "LINE"] (non-empty subset), "module": bool}``
``build_registry(spec)``       -> ``Registry``: renders the chosen templates of ``POOL`` (a fixed pool of small
                               hand-written functions: nested ifs, loops, try/except, early returns, closures,
                               classes, match, subscripts, branch-less bodies) with the drawn constants into one
                               module source, compiles it under a synthetic file name and *really* instruments it
                               with pynguin's ``InstrumentationTransformer`` (so CFG / CDG / diameter of every code
                               object are the real ones).  ``module=False`` instruments each function's code
                               object separately (like ``tests.testutils.instrument_function``);
                               ``module=True`` instruments the module code object (functions nested, parents
                               set), executes it under the tracer and stores the *import trace* exactly like
                               pynguin's import hook does.
``Registry``                   ``.sp`` (SubjectProperties), ``.funcs`` (instrumented callables, index = position in
                               spec), ``.code_ids/.pred_ids/.line_ids`` (sorted id lists), ``.pred_code`` /
                               ``.line_code`` (id -> owning code object id), ``.branchless`` (code ids without a
                               predicate — computed here, not by pynguin), ``.has_branch/.has_line``,
                               ``.import_ref`` (RefTrace of the import trace; empty unless ``module``),
                               ``.source``, ``.shape()`` (small dict for labels/evidence).

Synthetic traces (sound by construction)
---------------------------------------
``trace_model(max_updates)``   strategy -> ``{"code": [i..], "ups": [[p, taken, other], ..], "lines": [i..],
                               "checked": [i..], "fill": "none"|"branches"|"lines"|"checked"|"all"}``; all indices are taken
                               modulo the registry's sizes, so a model is meaningful for every registry (good
                               shrinking, no ``assume``).  ``fill`` (drawn with p = 0.15 for "all") adds both outcomes
                               of every predicate / every code object / every line, otherwise the all-covered side
                               of the verdicts is never reached.
``resolve(model, reg)``        -> ``Resolved`` with concrete ids: ``.code`` (executed code objects),
                               ``.updates`` = list of ``(predicate_id, distance_true, distance_false)`` with
                               **exactly one zero per pair**, the other one from ``DISTS`` = {small, large, inf};
                               ``.lines``, ``.checked``.  Soundness rules enforced: ids ⊆ registry; with BRANCH
                               instrumentation an executed predicate or covered line implies its code object was
                               entered; without BRANCH instrumentation no code object/predicate events exist; without
                               LINE instrumentation no line events exist; the import trace is always contained.
``materialise(res, reg)``      -> real ``ExecutionTrace`` produced the way ``ExecutionTracer`` produces it: fresh
                               trace, ``merge(import trace)``, then ``executed_code_objects.add`` /
                               ``update_predicate_distances`` / ``covered_line_ids.add`` per event.  The result is
                               passed through the repo's own ``validate_execution_trace``.
``reference(res, reg)``        -> ``RefTrace`` (plain sets/dicts: ``code, counts, tmin, fmin, lines, checked``) computed
                               from the event list *without* pynguin — the independent model of the same trace.
``ref_merge(refs)``            -> ``RefTrace`` of the union (set union / count sum / pointwise min).

Real traces
-----------
``calls_model()``              strategy -> ``[[func_index, a, b], ...]`` (1..4 calls, argument recipes = indices into
                               ``VALUES``; only value classes for which the tracer's distance functions are defined —
                               the NaN / huge-int / partial-protocol defects belong to C04/C05 and are not drawn).
``run_real(reg, calls)``       -> ``ExecutionTrace`` of really executing the instrumented functions under the registry's
                               tracer (exceptions of the SUT are swallowed; the tracer is re-enabled afterwards).
``ref_of_trace(trace)``        -> ``RefTrace`` copy of a real trace's observable fields (input data for oracles).

Helpers for fitness checks
--------------------------
``StubExecutor(sp)``           executor exposing ``subject_properties``; ``execute``/``execute_multiple`` fail loudly
                               when called with work (a cached last result must be used).
``chromosome_with(trace)``     real ``TestCaseChromosome`` (empty ``TestCase``) whose last execution result carries
                               ``trace`` and ``changed == False``.
``suite_of(traces)``           real ``TestSuiteChromosome`` of such members.
"""

from __future__ import annotations

import copy
import dataclasses
from math import inf
from typing import Any

from hypothesis import strategies as st

from vf.core import h12

# --------------------------------------------------------------------------------------------------------------------
# pool of function templates.  Placeholders: K0 K1 K2 (small ints), S0 (a string literal).  Every function is
# ``def FN(a, b)``; loops are bounded by construction (ranges clipped to <= 6, lists from the argument pool).
# --------------------------------------------------------------------------------------------------------------------
POOL: list[tuple[str, str]] = [
    ("branchless", """
def FN(a, b):
    c = (a, b)
    return c, K0
"""),
    ("branchless_lambda", """
def FN(a, b):
    g = lambda v: (v, K0)
    return g(a), g(b)
"""),
    ("single_if", """
def FN(a, b):
    r = K1
    if a == K0:
        r = K2
    return r
"""),
    ("if_else", """
def FN(a, b):
    if a is None:
        return K0
    else:
        return K1
"""),
    ("elif_chain", """
def FN(a, b):
    if a == K0:
        r = "zero"
    elif a == K1:
        r = "one"
    elif b == S0:
        r = "str"
    else:
        r = "other"
    return r
"""),
    ("nested_if3", """
def FN(a, b):
    if isinstance(a, int):
        if a > K0:
            if a > K0 + K1:
                return 3
            return 2
        return 1
    return 0
"""),
    ("while_counter", """
def FN(a, b):
    n = 0
    i = K0
    while i < K1:
        i += 1
        n += i
    return n
"""),
    ("for_range_break_else", """
def FN(a, b):
    lim = a if isinstance(a, int) and not isinstance(a, bool) else K0
    for i in range(min(abs(lim), 6)):
        if i == K1:
            break
    else:
        return -1
    return i
"""),
    ("for_list_continue", """
def FN(a, b):
    total = 0
    for v in (a if isinstance(a, list) else [K0, K1, K2]):
        if not isinstance(v, int):
            continue
        if v > K0:
            total += v
    return total
"""),
    ("try_div", """
def FN(a, b):
    try:
        return K0 // a
    except ZeroDivisionError:
        return -1
    except TypeError:
        return -2
"""),
    ("try_else_finally", """
def FN(a, b):
    out = []
    try:
        v = [K0, K1][a]
    except IndexError:
        out.append("idx")
    except TypeError:
        out.append("type")
    else:
        out.append(v)
    finally:
        out.append("fin")
    return out
"""),
    ("early_returns", """
def FN(a, b):
    if a is None:
        return "none"
    if b is None:
        return "bnone"
    if a == b:
        return "eq"
    if isinstance(a, str):
        return "str"
    return "rest"
"""),
    ("bool_ops", """
def FN(a, b):
    if a and b:
        return 1
    if a or b == K0:
        return 2
    return 3
"""),
    ("chained_compare", """
def FN(a, b):
    if isinstance(a, (int, float)) and K0 < a <= K0 + K1 + 1:
        return "in"
    return "out"
"""),
    ("is_none_variants", """
def FN(a, b):
    r = 0
    if a is not None:
        r += 1
    if b is None:
        r += 2
    return r
"""),
    ("membership", """
def FN(a, b):
    r = 0
    if a in (K0, K1, S0):
        r += 1
    if isinstance(b, (list, tuple, dict, str)) and K2 not in [K0, K1]:
        r += 2
    return r
"""),
    ("string_preds", """
def FN(a, b):
    if isinstance(a, str):
        if a == S0:
            return "same"
        if a.startswith("a"):
            return "a.."
        if len(a) > K0:
            return "long"
    return "no"
"""),
    ("closure_call", """
def FN(a, b):
    def inner(v):
        if v == K0:
            return K1
        return K2
    return inner(a), inner(K0)
"""),
    ("comprehension_cond", """
def FN(a, b):
    src = a if isinstance(a, list) else [K0, K1, K2, 7]
    picked = [v for v in src if isinstance(v, int) and v > K0]
    return len(picked)
"""),
    ("generator_consumed", """
def FN(a, b):
    def gen(n):
        i = 0
        while i < n:
            if i != K0:
                yield i
            i += 1
    return sum(gen(min(abs(K1) + 1, 5)))
"""),
    ("while_nested_break", """
def FN(a, b):
    i = 0
    hit = None
    while i < 5:
        if i == K0:
            hit = i
            break
        if a == i:
            hit = -i
        i += 1
    return hit
"""),
    ("nested_loops", """
def FN(a, b):
    n = 0
    for i in range(3):
        for j in range(2):
            if i + j == K0:
                n += 1
            elif i == K1:
                n += 10
    return n
"""),
    ("ternary", """
def FN(a, b):
    r = K0 if a else K1
    s = "x" if b == S0 else "y"
    return r, s
"""),
    ("assertion", """
def FN(a, b):
    assert a != K0, "boom"
    return K1
"""),
    ("with_block", """
def FN(a, b):
    import contextlib
    with contextlib.suppress(TypeError, ZeroDivisionError):
        if K0 // a > K1:
            return "big"
        return "small"
    return "suppressed"
"""),
    ("match_stmt", """
def FN(a, b):
    match a:
        case 0:
            return "zero"
        case str():
            return "s"
        case [x, *rest]:
            return "seq"
        case _:
            return "other"
"""),
    ("subscript_cond", """
def FN(a, b):
    try:
        if a[0] == K0:
            return "first"
        return "notfirst"
    except (IndexError, KeyError, TypeError):
        return "nosub"
"""),
    ("isinstance_dispatch", """
def FN(a, b):
    if isinstance(a, bool):
        return "bool"
    elif isinstance(a, int):
        return "int" if a >= K0 else "negint"
    elif isinstance(a, (list, tuple)):
        return "seq%d" % len(a)
    return "obj"
"""),
    ("bounded_recursion", """
def FN(a, b):
    def rec(n):
        if n <= 0:
            return K0
        return 1 + rec(n - 1)
    return rec(min(abs(K1), 4))
"""),
    ("inner_class", """
def FN(a, b):
    class Box:
        def __init__(self, v):
            self.v = v
        def big(self):
            if isinstance(self.v, int) and self.v > K0:
                return True
            return False
    return Box(a).big(), Box(K1).big()
"""),
    ("multi_except_reraise", """
def FN(a, b):
    try:
        try:
            return [K0, K1][a] // b
        except IndexError:
            raise ValueError("idx")
    except ValueError:
        return "value"
    except (TypeError, ZeroDivisionError):
        return "other"
"""),
    ("loop_try_finally", """
def FN(a, b):
    seen = []
    for i in range(3):
        try:
            if i == K0:
                return seen
            seen.append(i)
        finally:
            seen.append(-1)
    return seen
"""),
    ("while_else", """
def FN(a, b):
    i = 0
    while i < 3:
        if a == i:
            break
        i += 1
    else:
        return "exhausted"
    return "broke"
"""),
]

STRINGS = ["", "a", "ab", "abc", "b"]
VALUES: list[Any] = [0, 1, 2, 3, -1, 5, 8, 12, "", "a", "ab", "abc", "b", None, True, False, 0.5, 2.5,
                     [], [1], [1, 2, 3], [3, 0, 2], ["a"], {"a": 1}, [0, 5]]

# "other" distances of an update (the taken side is 0.0): small, large, inf
DISTS: list[float] = [5e-324, 1e-9, 1e-4, 0.5, 1.0, 2.0, 3.0, 17.0, 1e6, float(2**53 + 2), 1e308, inf]
DIST_CLASS = ["small"] * 8 + ["large"] * 3 + ["inf"]

_module_mode_extra = """
LEVEL = K0
if LEVEL > K1:
    FLAG = "hi"
else:
    FLAG = "lo"
"""


# --------------------------------------------------------------------------------------------------------------------
# strategies
# --------------------------------------------------------------------------------------------------------------------
def registry_spec(max_funcs: int = 3) -> st.SearchStrategy:
    func = st.tuples(st.integers(0, len(POOL) - 1), st.integers(-2, 4), st.integers(-2, 4), st.integers(-2, 4),
                     st.integers(0, len(STRINGS) - 1)).map(list)
    return st.fixed_dictionaries({
        "funcs": st.lists(func, min_size=1, max_size=max_funcs),
        "metrics": st.sampled_from([["BRANCH", "LINE"], ["BRANCH", "LINE"], ["BRANCH"], ["LINE"]]),
        "module": st.booleans(),
    })


def trace_model(max_updates: int = 12) -> st.SearchStrategy:
    up = st.tuples(st.integers(0, 15), st.booleans(), st.integers(0, len(DISTS) - 1)).map(list)
    return st.fixed_dictionaries({
        "code": st.lists(st.integers(0, 7), max_size=4),
        "ups": st.lists(up, max_size=max_updates),
        "lines": st.lists(st.integers(0, 40), max_size=12),
        "checked": st.lists(st.integers(0, 40), max_size=4),
        "fill": st.sampled_from(["none"] * 13 + ["branches", "lines", "lines", "checked"] + ["all"] * 3),
    })


def calls_model() -> st.SearchStrategy:
    v = st.integers(0, len(VALUES) - 1)
    return st.lists(st.tuples(st.integers(0, 7), v, v).map(list), min_size=1, max_size=4)


# --------------------------------------------------------------------------------------------------------------------
# registries
# --------------------------------------------------------------------------------------------------------------------
@dataclasses.dataclass
class RefTrace:
    """Independent plain-data model of the observable part of an execution trace."""

    code: set[int] = dataclasses.field(default_factory=set)
    counts: dict[int, int] = dataclasses.field(default_factory=dict)
    tmin: dict[int, float] = dataclasses.field(default_factory=dict)
    fmin: dict[int, float] = dataclasses.field(default_factory=dict)
    lines: set[int] = dataclasses.field(default_factory=set)
    checked: set[int] = dataclasses.field(default_factory=set)

    def clone(self) -> RefTrace:
        return RefTrace(set(self.code), dict(self.counts), dict(self.tmin), dict(self.fmin), set(self.lines),
                        set(self.checked))

    def hit(self, pid: int, dt: float, df: float) -> None:
        self.counts[pid] = self.counts[pid] + 1 if pid in self.counts else 1
        self.tmin[pid] = dt if pid not in self.tmin or dt < self.tmin[pid] else self.tmin[pid]
        self.fmin[pid] = df if pid not in self.fmin or df < self.fmin[pid] else self.fmin[pid]


def ref_merge(refs: list[RefTrace]) -> RefTrace:
    out = RefTrace()
    for r in refs:
        out.code |= r.code
        out.lines |= r.lines
        out.checked |= r.checked
        for p, n in r.counts.items():
            out.counts[p] = out.counts.get(p, 0) + n
        for src, dst in ((r.tmin, out.tmin), (r.fmin, out.fmin)):
            for p, d in src.items():
                if p not in dst or d < dst[p]:
                    dst[p] = d
    return out


def ref_of_trace(trace: Any) -> RefTrace:
    return RefTrace(set(trace.executed_code_objects), dict(trace.executed_predicates), dict(trace.true_distances),
                    dict(trace.false_distances), set(trace.covered_line_ids), set(trace.checked_lines))


@dataclasses.dataclass
class Registry:
    spec: dict[str, Any]
    sp: Any
    funcs: list[Any]
    source: str
    code_ids: list[int]
    pred_ids: list[int]
    line_ids: list[int]
    pred_code: dict[int, int]
    line_code: dict[int, int]
    branchless: list[int]
    has_branch: bool
    has_line: bool
    import_ref: RefTrace

    def shape(self) -> dict[str, int]:
        return {"code": len(self.code_ids), "preds": len(self.pred_ids), "lines": len(self.line_ids),
                "branchless": len(self.branchless)}


def render(spec: dict[str, Any]) -> str:
    parts: list[str] = []
    for i, (t, k0, k1, k2, s0) in enumerate(spec["funcs"]):
        src = POOL[t % len(POOL)][1]
        src = (src.replace("FN", f"f{i}").replace("K0", f"({k0})").replace("K1", f"({k1})").replace("K2", f"({k2})")
               .replace("S0", repr(STRINGS[s0 % len(STRINGS)])))
        parts.append(src)
    if spec.get("module"):
        k0, k1 = spec["funcs"][0][1], spec["funcs"][0][2]
        parts.append(_module_mode_extra.replace("K0", f"({k0})").replace("K1", f"({k1})"))
    return "\n".join(parts)


def build_registry(spec: dict[str, Any]) -> Registry:
    from pynguin.instrumentation.tracer import SubjectProperties
    from pynguin.instrumentation.transformer import InstrumentationTransformer
    from pynguin.instrumentation.version import BranchCoverageInstrumentation, LineCoverageInstrumentation

    source = render(spec)
    name = f"vfsut_{h12(spec)}"
    sp = SubjectProperties()
    adapters: list[Any] = []
    has_branch = "BRANCH" in spec["metrics"]
    has_line = "LINE" in spec["metrics"]
    if has_branch:
        adapters.append(BranchCoverageInstrumentation(sp))
    if has_line:
        adapters.append(LineCoverageInstrumentation(sp))
    transformer = InstrumentationTransformer(sp, adapters)
    code = compile(source, f"<{name}>", "exec")
    ns: dict[str, Any] = {"__name__": name}
    tracer = sp.instrumentation_tracer
    import_ref = RefTrace()
    if spec.get("module"):
        instrumented = transformer.instrument_code(code, name)
        with tracer:
            tracer.init_trace()
            try:
                exec(instrumented, ns)  # noqa: S102
            finally:
                tracer.enable()
            tracer.store_import_trace()
        import_ref = ref_of_trace(tracer.import_trace)
    else:
        exec(code, ns)  # noqa: S102
        for i in range(len(spec["funcs"])):
            fn = ns[f"f{i}"]
            fn.__code__ = transformer.instrument_code(fn.__code__, name)
    funcs = [ns[f"f{i}"] for i in range(len(spec["funcs"]))]
    pred_code = {pid: meta.code_object_id for pid, meta in sp.existing_predicates.items()}
    line_code = {lid: meta.code_object_id for lid, meta in sp.existing_lines.items()}
    code_ids = sorted(sp.existing_code_objects)
    with_pred = set(pred_code.values())
    return Registry(spec=spec, sp=sp, funcs=funcs, source=source, code_ids=code_ids, pred_ids=sorted(pred_code),
                    line_ids=sorted(line_code), pred_code=pred_code, line_code=line_code,
                    branchless=[c for c in code_ids if c not in with_pred], has_branch=has_branch, has_line=has_line,
                    import_ref=import_ref)


# --------------------------------------------------------------------------------------------------------------------
# synthetic traces
# --------------------------------------------------------------------------------------------------------------------
@dataclasses.dataclass
class Resolved:
    code: list[int]
    updates: list[tuple[int, float, float]]
    lines: list[int]
    checked: list[int]


def resolve(model: dict[str, Any], reg: Registry) -> Resolved:
    code: list[int] = []
    updates: list[tuple[int, float, float]] = []
    lines: list[int] = []
    checked: list[int] = []
    fill = model.get("fill", "none")

    def enter(cid: int) -> None:
        if reg.has_branch and cid not in code:
            code.append(cid)

    if reg.has_branch:
        for i in model["code"]:
            enter(reg.code_ids[i % len(reg.code_ids)])
        ups = [list(u) for u in model["ups"]]
        if fill in ("branches", "all"):
            for c in reg.code_ids:
                enter(c)
            for n, _ in enumerate(reg.pred_ids):
                ups.append([n, True, (3 * n) % len(DISTS)])
                ups.append([n, False, (5 * n + 1) % len(DISTS)])
        if reg.pred_ids:
            for p, taken, other in ups:
                pid = reg.pred_ids[p % len(reg.pred_ids)]
                d = DISTS[other % len(DISTS)]
                enter(reg.pred_code[pid])
                updates.append((pid, 0.0, d) if taken else (pid, d, 0.0))
    if reg.has_line and reg.line_ids:
        chosen = [reg.line_ids[i % len(reg.line_ids)] for i in model["lines"]]
        if fill in ("lines", "all"):
            chosen += reg.line_ids
        for lid in chosen:
            if lid not in lines:
                lines.append(lid)
                enter(reg.line_code[lid])
        picked = [reg.line_ids[i % len(reg.line_ids)] for i in model.get("checked", [])]
        if fill in ("checked", "all"):
            picked += reg.line_ids
        for lid in picked:
            if lid not in checked:
                checked.append(lid)
    return Resolved(code, updates, lines, checked)


def materialise(res: Resolved, reg: Registry) -> Any:
    """Build the trace the way ``ExecutionTracer`` does (init_trace + one event at a time)."""
    from pynguin.instrumentation.tracer import ExecutionTrace

    trace = ExecutionTrace()
    trace.merge(reg.sp.instrumentation_tracer.import_trace)
    for cid in res.code:
        trace.executed_code_objects.add(cid)
    for pid, dt, df in res.updates:
        assert (dt == 0.0) ^ (df == 0.0) and dt >= 0.0 and df >= 0.0  # what _update_metrics guarantees
        trace.update_predicate_distances(distance_true=dt, distance_false=df, predicate=pid)
    for lid in res.lines:
        trace.covered_line_ids.add(lid)
    for lid in res.checked:
        trace.checked_lines.add(lid)
    reg.sp.validate_execution_trace(trace)
    return trace


def reference(res: Resolved, reg: Registry) -> RefTrace:
    ref = reg.import_ref.clone()
    ref.code |= set(res.code)
    for pid, dt, df in res.updates:
        ref.hit(pid, dt, df)
    ref.lines |= set(res.lines)
    ref.checked |= set(res.checked)
    return ref


# --------------------------------------------------------------------------------------------------------------------
# real traces
# --------------------------------------------------------------------------------------------------------------------
def run_real(reg: Registry, calls: list[list[int]]) -> Any:
    tracer = reg.sp.instrumentation_tracer
    with tracer:
        tracer.init_trace()
        for f, a, b in calls:
            fn = reg.funcs[f % len(reg.funcs)]
            args = (copy.deepcopy(VALUES[a % len(VALUES)]), copy.deepcopy(VALUES[b % len(VALUES)]))
            try:
                fn(*args)
            except Exception:  # noqa: BLE001, S110  (SUT exceptions are part of a real trace)
                pass
            finally:
                tracer.enable()
        trace = tracer.get_trace()
    tracer.init_trace()
    reg.sp.validate_execution_trace(trace)
    return trace


# --------------------------------------------------------------------------------------------------------------------
# chromosomes around traces
# --------------------------------------------------------------------------------------------------------------------
class StubExecutor:
    """Executor stand-in: fitness/coverage functions must work from the cached last execution result."""

    def __init__(self, sp: Any) -> None:
        self.subject_properties = sp
        self.executed = 0

    def execute(self, test_case: Any) -> Any:
        self.executed += 1
        raise AssertionError("vf: StubExecutor.execute called although a last execution result is cached")

    def execute_multiple(self, test_cases: Any) -> Any:
        pending = list(test_cases)
        if pending:
            self.executed += len(pending)
            raise AssertionError("vf: StubExecutor.execute_multiple called with work")
        return iter(())


def result_with(trace: Any) -> Any:
    from pynguin.testcase.execution_result import ExecutionResult

    result = ExecutionResult()
    result.execution_trace = trace
    return result


def chromosome_with(trace: Any) -> Any:
    import pynguin.ga.testcasechromosome as tcc
    from pynguin.testcase.testcase import TestCase

    chrom = tcc.TestCaseChromosome(TestCase())
    chrom.set_last_execution_result(result_with(trace))
    chrom.changed = False
    return chrom


def suite_of(traces: list[Any]) -> Any:
    import pynguin.ga.testsuitechromosome as tsc

    suite = tsc.TestSuiteChromosome()
    for t in traces:
        suite.add_test_case_chromosome(chromosome_with(t))
    return suite
