"""Adversarial runtime values as JSON-able *recipes* (DESIGN.md §2.7 "values").

INTERFACE (used by C04, C20, C23 and by C01's argument generator)
=================================================================

A *recipe* is a small JSON-able dict (only dict/list/str/int/bool/None inside, so it survives
``json.dumps``/``loads`` and Hypothesis can shrink it).  Live objects are built from it on demand:

    materialise(recipe)            -> a FRESH object on every call (never shared between runs); building
                                      never leaves entries in the operation log
    category(recipe, aspect=None)  -> coarse class for failure signatures / labels, e.g. "int", "int>2**53",
                                      "int>1e308", "float.nan", "float.inf", "float.-0", "decimal.nan",
                                      "fraction", "set", "iter", "obj.cmp-partial", ...   (never contains values);
                                      aspect in {"cmp","truth","container"} picks the protocol that names a logged object
    features(recipe)               -> all protocol features of a logged object (labels)
    is_edge(recipe)                -> True for the numeric/protocol edge classes (non-triviality rules)
    snapshot(value, consume=False) -> JSON-able structural fingerprint of a *live* value: exact type names,
                                      floats as hex ("nan", "-0x0.0p+0"), sets order-free, dicts in insertion
                                      order, logged objects by class recipe/tag/payload; with consume=True the
                                      remaining items of iterators are included (this exhausts them)
    same(a, b, consume=False)      -> snapshot equality: NaN equals NaN, -0.0 differs from 0.0, 1 differs from
                                      True and from 1.0, [1] differs from (1,)
    describe(value)                -> short, address-free operand description (calls no user dunder)

Recipe kinds ("k"):
    none | bool{v} | int{v} | float{x: float.hex() or "nan"/"inf"/"-inf"} | complex{re, im: hex}
    decimal{v: str} | fraction{n, d} | str{v} | bytes{hex} | bytearray{hex}
    list/tuple/set/frozenset{items: [recipe]} | dict{items: [[key recipe, value recipe]]}
    iter{items} (list iterator) | gen{items} (generator) | range{args: [ints]} | slice{args: [int|None x3]}
    obj{cls: class recipe, tag: int, items: [recipe]}            logged user object (see below)
    plain{}  (object()) | type{name} (builtin type by name) | func{name} (builtin function by name)
    excclass{name} (builtin) / excclass{user: {n, base: excclass recipe, meta: "plain" | "abc", virtual: [builtin names]}}
    excinst{cls: excclass recipe, args: [recipe]}

Further kinds can be registered by a check: ``EXTRA_KINDS[kind] = builder(recipe, materialise_nested)`` (C20 registers
"sut" for enum members / instances of its corpus module); ``category`` answers the kind name for them.

Logged user objects
-------------------
``cls`` = {"n": name, "m": {dunder: behaviour}, "base": class recipe | None}.  A dunder that is not a key of
"m" is absent (inherited from the base / object); behaviour ``None`` sets the attribute to None
(``__hash__ = None``).  Behaviours: "T"/"F" (return True/False), "NI" (NotImplemented), "key" (apply the
real operator to the tags / to a plain number, NotImplemented otherwise), "truthy"/"falsy" (non-bool
results ``[0]``/``[]``), "items" (answer from the payload ``items``), "self" (``__iter__`` returns self,
i.e. a one-shot iterator; ``__next__`` is added automatically), "tag"/"const" (``__hash__``), "bad"
(a result of the wrong type), an int (``__len__``), and "!Name" (raise the builtin exception Name).
Classes are cached per class recipe, so two objects built from the same class recipe share their class
(needed for reflected-operand priority); instances are always fresh.

Every call of a recipe-defined dunder appends ``(operator, operand_description)`` to the module-global
operation log, where operator = "<class>#<tag>.<dunder>" and the description comes from ``describe``:

    reset_log()   clear          read_log()   copy of the log          take_log()   copy + clear

Strategies (all return recipes; ``choice(*branches)`` is a non-flattening ``one_of``, use it to keep weights): ints() floats()
edge_numbers() edge_numbers_of(kind) complexes() decimals() fractions() numbers() strs()
bytess() scalars() hashables() containers() iterators() ranges() slices() objects(...) exception_classes()
exception_instances() values(depth).  ``objects(profile=...)`` profiles: "cmp" (partial/total comparison
protocols), "truth" (__bool__/__len__), "container" (__contains__/__iter__/__getitem__/__len__), "any".
"""

from __future__ import annotations

import decimal
import fractions
import math
import operator
from typing import Any

from hypothesis import strategies as st

from vf.core import h12, jdump

# --------------------------------------------------------------------------------------- operation log
OPLOG: list[tuple[str, str]] = []


def reset_log() -> None:
    del OPLOG[:]


def read_log() -> list[tuple[str, str]]:
    return list(OPLOG)


def take_log() -> list[tuple[str, str]]:
    out = list(OPLOG)
    del OPLOG[:]
    return out


# --------------------------------------------------------------------------------------- descriptions
_CONTAINER_TYPES = (list, tuple, set, frozenset, dict)


def describe(value: Any) -> str:
    """Address-free description of an operand; invokes no user-defined dunder."""
    tp = type(value)
    desc = getattr(tp, "_vf_desc", None)
    if desc is not None and "_vf_tag" in getattr(value, "__dict__", {}):
        return f"{desc}#{value.__dict__['_vf_tag']}"
    if value is None or tp is bool:
        return repr(value)
    if tp is int:
        r = repr(value) if abs(value) < 10**18 else f"{'-' if value < 0 else ''}~2**{value.bit_length()}%{abs(value) % 9973}"
        return f"int:{r}"
    if tp is float:
        return f"float:{value.hex() if math.isfinite(value) else repr(value)}"
    if tp is complex:
        return f"complex:{describe(value.real)},{describe(value.imag)}"
    if tp is decimal.Decimal or tp is fractions.Fraction:
        return f"{tp.__name__}:{str(value)[:40]}"
    if tp is str:
        return f"str:{len(value)}:{ascii(value)[:24]}"
    if tp in (bytes, bytearray):
        return f"{tp.__name__}:{len(value)}:{bytes(value[:8]).hex()}"
    if tp in _CONTAINER_TYPES:
        return f"{tp.__name__}({len(value)})"
    if isinstance(value, type):
        return f"type:{value.__name__}"
    return f"<{tp.__name__}>"


# --------------------------------------------------------------------------------------- logged classes
CMP_DUNDERS = ["__eq__", "__ne__", "__lt__", "__le__", "__gt__", "__ge__"]
_CMP_OPS = {"__eq__": operator.eq, "__ne__": operator.ne, "__lt__": operator.lt, "__le__": operator.le,
            "__gt__": operator.gt, "__ge__": operator.ge}
RAISABLE = {"ValueError": ValueError, "TypeError": TypeError, "RuntimeError": RuntimeError, "KeyError": KeyError,
            "AttributeError": AttributeError, "ZeroDivisionError": ZeroDivisionError, "IndexError": IndexError,
            "OverflowError": OverflowError, "AssertionError": AssertionError, "StopIteration": StopIteration}
_CLASS_CACHE: dict[str, type] = {}


def _tag_of(x: Any) -> Any:
    d = getattr(x, "__dict__", None)
    if isinstance(d, dict) and "_vf_tag" in d:
        return d["_vf_tag"]
    if type(x) in (int, float) and x == x:  # plain, non-NaN numbers
        return x
    return _MISSING


_MISSING = object()


def _make_method(dunder: str, beh: Any):
    def log(self, args) -> None:
        OPLOG.append((f"{describe(self)}.{dunder}", ",".join(describe(a) for a in args)))

    if isinstance(beh, str) and beh.startswith("!"):
        exc = RAISABLE[beh[1:]]

        def raising(self, *args):
            log(self, args)
            raise exc(f"{dunder} of a logged object")

        return raising

    def method(self, *args):
        log(self, args)
        if beh == "T":
            return True
        if beh == "F":
            return False
        if beh == "NI":
            return NotImplemented
        if beh == "truthy":
            return [0]
        if beh == "falsy":
            return []
        if beh == "bad":
            return 1.5 if dunder in ("__bool__", "__len__", "__hash__", "__iter__") else None
        if isinstance(beh, int) and not isinstance(beh, bool):
            return beh
        d = self.__dict__
        if beh == "key":
            other = _tag_of(args[0])
            if other is _MISSING:
                return NotImplemented
            return _CMP_OPS[dunder](d["_vf_tag"], other)
        if beh == "tag":
            return hash(d["_vf_tag"])
        if beh == "const":
            return 7
        if beh == "self":
            return self
        if beh == "items":
            if dunder == "__contains__":
                return any(x is args[0] or x == args[0] for x in d["_vf_items"])
            if dunder == "__iter__":
                return iter(list(d["_vf_items"]))
            if dunder == "__getitem__":
                return d["_vf_items"][args[0]]
            if dunder == "__len__":
                return len(d["_vf_items"])
            if dunder == "__bool__":
                return bool(d["_vf_items"])
        if beh == "zero":
            return 0
        raise AssertionError(f"unknown behaviour {beh!r} for {dunder}")

    return method


def _next(self):
    OPLOG.append((f"{describe(self)}.__next__", ""))
    rest = self.__dict__["_vf_rest"]
    if not rest:
        raise StopIteration
    return rest.pop(0)


def _repr(self) -> str:
    return f"<{describe(self)}>"


def build_class(spec: dict[str, Any]) -> type:
    key = jdump(spec)
    cls = _CLASS_CACHE.get(key)
    if cls is not None:
        return cls
    base = build_class(spec["base"]) if spec.get("base") else object
    ns: dict[str, Any] = {"__repr__": _repr, "__module__": "vf_values_prelude"}
    for dunder, beh in spec.get("m", {}).items():
        ns[dunder] = None if beh is None else _make_method(dunder, beh)
    if spec.get("m", {}).get("__iter__") == "self":
        ns["__next__"] = _next
    name = str(spec.get("n", "U"))
    cls = type(name, (base,), ns)
    cls._vf_desc = f"{name}{h12(spec)[:4]}"
    cls._vf_spec = spec
    _CLASS_CACHE[key] = cls
    return cls


# --------------------------------------------------------------------------------------- exception classes
BUILTIN_EXCS = ["BaseException", "Exception", "ArithmeticError", "ZeroDivisionError", "LookupError", "KeyError",
                "IndexError", "ValueError", "UnicodeError", "TypeError", "OSError",
                "FileNotFoundError", "RuntimeError", "RecursionError", "StopIteration", "KeyboardInterrupt",
                "AssertionError", "AttributeError"]
_EXC_CACHE: dict[str, type] = {}


def build_exc_class(spec: dict[str, Any]) -> Any:
    if "name" in spec:
        import builtins

        return getattr(builtins, spec["name"])
    user = spec["user"]
    key = jdump(user)
    cls = _EXC_CACHE.get(key)
    if cls is not None:
        return cls
    base = build_exc_class(user["base"])
    meta = user.get("meta", "plain")
    name = str(user.get("n", "UserError"))
    if meta == "plain":
        cls = type(name, (base,), {"__module__": "vf_values_prelude"})
    elif meta == "abc":  # an exception ABC with *virtual* subclasses: issubclass() says yes, `except` says no
        import abc
        import builtins

        cls = abc.ABCMeta(name, (base,), {"__module__": "vf_values_prelude"})
        for virtual in user.get("virtual", []):
            if not issubclass(cls, getattr(builtins, virtual)):  # registering an ancestor would be a cycle
                cls.register(getattr(builtins, virtual))
    else:
        raise ValueError(f"unknown exception metaclass kind {meta!r}")
    _EXC_CACHE[key] = cls
    return cls


# --------------------------------------------------------------------------------------- materialise
def _flt(x: str) -> float:
    return float.fromhex(x)


def _gen(items: list):
    yield from items


_BUILTIN_TYPES = {"int": int, "str": str, "float": float, "list": list, "dict": dict, "object": object, "type": type,
                  "bytes": bytes, "Exception": Exception, "bool": bool, "NoneType": type(None)}
_BUILTIN_FUNCS = {"len": len, "abs": abs, "print": print, "sorted": sorted, "isinstance": isinstance}


# Checks may register further recipe kinds: EXTRA_KINDS["kind"] = builder(recipe, materialise_nested) -> fresh object
EXTRA_KINDS: dict[str, Any] = {}


def _mat(r: dict[str, Any]) -> Any:
    k = r["k"]
    if k == "none":
        return None
    if k == "bool":
        return bool(r["v"])
    if k == "int":
        return int(r["v"])
    if k == "float":
        return _flt(r["x"])
    if k == "complex":
        return complex(_flt(r["re"]), _flt(r["im"]))
    if k == "decimal":
        return decimal.Decimal(r["v"])
    if k == "fraction":
        return fractions.Fraction(int(r["n"]), int(r["d"]))
    if k == "str":
        return str(r["v"])
    if k == "bytes":
        return bytes.fromhex(r["hex"])
    if k == "bytearray":
        return bytearray.fromhex(r["hex"])
    if k == "list":
        return [_mat(x) for x in r["items"]]
    if k == "tuple":
        return tuple(_mat(x) for x in r["items"])
    if k == "set":
        return {_mat(x) for x in r["items"]}
    if k == "frozenset":
        return frozenset(_mat(x) for x in r["items"])
    if k == "dict":
        return {_mat(a): _mat(b) for a, b in r["items"]}
    if k == "iter":
        return iter([_mat(x) for x in r["items"]])
    if k == "gen":
        return _gen([_mat(x) for x in r["items"]])
    if k == "range":
        return range(*[int(a) for a in r["args"]])
    if k == "slice":
        return slice(*r["args"])
    if k == "obj":
        cls = build_class(r["cls"])
        inst = object.__new__(cls)
        items = [_mat(x) for x in r.get("items", [])]
        inst.__dict__.update(_vf_tag=r.get("tag", 0), _vf_items=items, _vf_rest=list(items))
        return inst
    if k == "plain":
        return object()
    if k == "type":
        return _BUILTIN_TYPES[r["name"]]
    if k == "func":
        return _BUILTIN_FUNCS[r["name"]]
    if k == "excclass":
        return build_exc_class(r)
    if k == "excinst":
        cls = build_exc_class(r["cls"])
        return cls(*[_mat(a) for a in r.get("args", [])])
    extra = EXTRA_KINDS.get(k)
    if extra is not None:
        return extra(r, _mat)
    raise ValueError(f"unknown recipe kind {k!r}")


def materialise(recipe: dict[str, Any]) -> Any:
    """Build a fresh live object; operations performed while building (hashing set members, ...) are not logged."""
    n = len(OPLOG)
    try:
        return _mat(recipe)
    finally:
        del OPLOG[n:]


# --------------------------------------------------------------------------------------- categories
_TWO53 = 2**53
_FLT_MAX_INT = int(1.7976931348623157e308)


def _all_methods(cls: dict[str, Any]) -> dict[str, Any]:
    m: dict[str, Any] = {}
    chain = []
    c: Any = cls
    while c:
        chain.append(c)
        c = c.get("base")
    for c in reversed(chain):
        m.update(c.get("m", {}))
    return m


def features(r: dict[str, Any]) -> list[str]:
    """All protocol features of a logged object recipe (for labels), e.g. ["cmp-partial", "truth", "raising", "sub"]."""
    if r.get("k") != "obj":
        return []
    m = _all_methods(r["cls"])
    out = [_obj_aspect(m, a) for a in ("cmp", "truth", "container")]
    out = [o for o in out if not o.startswith("no-")]
    if any(isinstance(b, str) and b.startswith("!") for b in m.values()):
        out.append("raising")
    if r["cls"].get("base"):
        out.append("sub")
    return out


def _obj_aspect(m: dict[str, Any], aspect: str) -> str:
    has = lambda d: m.get(d) is not None  # noqa: E731
    if aspect == "cmp":
        order = [d for d in CMP_DUNDERS[2:] if has(d)]
        if len(order) == 4:
            return "cmp-total"
        if order:
            return "cmp-partial"
        return "cmp-eq" if has("__eq__") or has("__ne__") else "no-cmp"
    if aspect == "truth":
        if has("__bool__"):
            return "bool+len" if has("__len__") else "bool"
        return "len" if has("__len__") else "no-truth"
    if aspect == "container":
        if has("__contains__"):
            return "contains"
        if has("__iter__"):
            return "iter-self" if m.get("__iter__") == "self" else "iter"
        return "getitem" if has("__getitem__") else "no-container"
    raise ValueError(aspect)


def _obj_profile(cls: dict[str, Any], aspect: str | None) -> str:
    m = _all_methods(cls)
    if aspect is not None:
        return "obj." + _obj_aspect(m, aspect)
    for a in ("cmp", "container", "truth"):
        o = _obj_aspect(m, a)
        if not o.startswith("no-"):
            return "obj." + o
    return "obj.bare"


def category(r: dict[str, Any], aspect: str | None = None) -> str:
    """Coarse class of a recipe; ``aspect`` ("cmp" | "truth" | "container") selects which protocol of a logged
    object names its class (default: the first one it implements)."""
    k = r["k"]
    if k == "int":
        v = abs(int(r["v"]))
        return "int>1e308" if v > _FLT_MAX_INT else ("int>2**53" if v > _TWO53 else "int")
    if k == "float":
        x = _flt(r["x"])
        if x != x:
            return "float.nan"
        if math.isinf(x):
            return "float.inf"
        if x == 0.0:
            return "float.-0" if math.copysign(1.0, x) < 0 else "float"
        if abs(x) < 2.2250738585072014e-308:
            return "float.subnormal"
        return "float.huge" if abs(x) >= 1e300 else "float"
    if k == "complex":
        re, im = _flt(r["re"]), _flt(r["im"])
        return "complex.nonfinite" if not (math.isfinite(re) and math.isfinite(im)) else (
            "complex.huge" if max(abs(re), abs(im)) >= 1e300 else "complex")
    if k == "decimal":
        d = decimal.Decimal(r["v"])
        if d.is_nan():
            return "decimal.snan" if d.is_snan() else "decimal.nan"
        if d.is_infinite():
            return "decimal.inf"
        return "decimal.huge" if d and (d.adjusted() > 300 or d.adjusted() < -300) else "decimal"
    if k == "fraction":
        n, d = abs(int(r["n"])), abs(int(r["d"]))
        return "fraction.huge" if max(n, d) > _TWO53 else "fraction"
    if k == "obj":
        return _obj_profile(r["cls"], aspect)
    if k == "excclass":
        if "name" in r:
            return "excclass"
        return "excclass.user" if r["user"].get("meta", "plain") == "plain" else "excclass.abc"
    if k == "excinst":
        return category(r["cls"]).replace("excclass", "excinst")
    return k


_EDGE_PREFIXES = ("int>", "float.", "complex.", "decimal.", "fraction.huge", "obj.", "iter", "gen")


def is_edge(r: dict[str, Any]) -> bool:
    return category(r).startswith(_EDGE_PREFIXES)


def contains_kind(r: Any, kinds: tuple[str, ...]) -> bool:
    """True if the recipe or any nested recipe has one of the given kinds."""
    if isinstance(r, dict):
        if r.get("k") in kinds:
            return True
        return any(contains_kind(v, kinds) for v in r.values())
    if isinstance(r, list):
        return any(contains_kind(v, kinds) for v in r)
    return False


# --------------------------------------------------------------------------------------- snapshots
def snapshot(v: Any, consume: bool = False, _depth: int = 0) -> Any:
    """JSON-able structural fingerprint (see module docstring)."""
    if _depth > 12:
        return ["deep"]
    tp = type(v)
    if v is None or tp is bool:
        return [tp.__name__, v]
    if tp is int:
        return ["int", str(v)]
    if tp is float:
        return ["float", v.hex() if math.isfinite(v) else repr(v)]
    if tp is complex:
        return ["complex", snapshot(v.real)[1], snapshot(v.imag)[1]]
    if tp is decimal.Decimal:
        s, d, e = v.as_tuple()
        return ["Decimal", s, list(d), e]
    if tp is fractions.Fraction:
        return ["Fraction", str(v.numerator), str(v.denominator)]
    if tp is str:
        return ["str", [ord(c) for c in v]]
    if tp in (bytes, bytearray):
        return [tp.__name__, bytes(v).hex()]
    if tp in (list, tuple):
        return [tp.__name__, [snapshot(x, consume, _depth + 1) for x in v]]
    if tp in (set, frozenset):
        return [tp.__name__, sorted((snapshot(x, consume, _depth + 1) for x in v), key=jdump)]
    if tp is dict:
        return ["dict", [[snapshot(a, consume, _depth + 1), snapshot(b, consume, _depth + 1)] for a, b in v.items()]]
    if tp is range or tp is slice:
        return [tp.__name__, v.start, v.stop, v.step]
    spec = getattr(tp, "_vf_spec", None)
    if spec is not None and "_vf_tag" in getattr(v, "__dict__", {}):
        d = v.__dict__
        return ["obj", h12(spec), d["_vf_tag"], [snapshot(x, consume, _depth + 1) for x in d["_vf_items"]],
                [snapshot(x, consume, _depth + 1) for x in d["_vf_rest"]]]
    if isinstance(v, type):
        return ["type", v.__module__, v.__qualname__]
    if isinstance(v, BaseException):
        return ["exc", tp.__name__, [snapshot(a, consume, _depth + 1) for a in v.args]]
    if hasattr(tp, "__next__") and hasattr(tp, "__iter__"):
        if consume:
            return ["iterator", tp.__name__, [snapshot(x, consume, _depth + 1) for x in v]]
        return ["iterator", tp.__name__]
    import enum

    if isinstance(v, enum.Enum):
        return ["enum", tp.__module__, tp.__qualname__, v.name]
    return ["other", tp.__module__, tp.__qualname__]


def same(a: Any, b: Any, consume: bool = False) -> bool:
    return snapshot(a, consume) == snapshot(b, consume)


# --------------------------------------------------------------------------------------- strategies
class _Choice(st.SearchStrategy):
    """Uniform, non-flattening choice in a single draw level (keeps the Python call depth of nested draws small)."""

    def __init__(self, branches: tuple) -> None:
        super().__init__()
        self._alts = branches

    def do_draw(self, data):  # noqa: ANN001, ANN201
        i = data.draw_integer(0, len(self._alts) - 1)
        return data.draw(self._alts[i])

    def calc_is_empty(self, recur):  # noqa: ANN001, ANN201
        return all(recur(b) for b in self._alts)

    def __repr__(self) -> str:
        return f"choice({len(self._alts)} branches)"


def choice(*branches: st.SearchStrategy) -> st.SearchStrategy:
    """Uniform choice between the given branches.

    ``st.one_of`` flattens nested ``one_of``s (also through ``.map``), which weights a branch by its number of leaves;
    here every branch is opaque, so listing a branch twice really doubles its weight.
    """
    return _Choice(tuple(branches))


def _first(t: tuple) -> Any:
    return t[0]


def _i(v: int) -> dict[str, Any]:
    return {"k": "int", "v": v}


def _f(x: float) -> dict[str, Any]:
    return {"k": "float", "x": x.hex() if math.isfinite(x) else repr(x)}


_INT_EDGES = [0, 1, 2, 255, 2**31, 2**53 - 1, 2**53, 2**53 + 1, 2**53 + 2, 2**63, 2**64 + 1, 10**22, 10**23 + 1,
              _FLT_MAX_INT, _FLT_MAX_INT + 1, 10**308, 10**309, 10**400, 10**400 + 1]
INT_EDGES = sorted({s * v for v in _INT_EDGES for s in (1, -1)})
FLOAT_EDGES = [0.0, -0.0, 1.0, -1.0, 0.5, 0.1, 1e-320, -5e-324, 5e-324, 2.2250738585072014e-308, 1e308, -1e308,
               1.7976931348623157e308, 9007199254740992.0, 9007199254740994.0, 1e22, float("inf"), float("-inf"),
               float("nan")]
DECIMAL_EDGES = ["0", "-0", "1", "-1", "1.5", "0.1", "0.30000000000000004", "NaN", "-NaN", "sNaN", "Infinity",
                 "-Infinity", "1E+400", "-1E+400", "1E-400", "9007199254740993", "9007199254740992.5", "2", "1.0"]


def ints() -> st.SearchStrategy:
    return choice(st.sampled_from(INT_EDGES), st.integers(-8, 8), st.integers(-2**70, 2**70)).map(_i)


def bools() -> st.SearchStrategy:
    return st.booleans().map(lambda b: {"k": "bool", "v": b})


def floats() -> st.SearchStrategy:
    return choice(st.sampled_from(FLOAT_EDGES), st.integers(-8, 8).map(float),
                     st.floats(allow_nan=True, allow_infinity=True)).map(_f)


def complexes() -> st.SearchStrategy:
    part = choice(st.sampled_from(FLOAT_EDGES), st.integers(-4, 4).map(float), st.floats())
    return st.tuples(part, part).map(lambda t: {"k": "complex", "re": _f(t[0])["x"], "im": _f(t[1])["x"]})


def decimals() -> st.SearchStrategy:
    return choice(st.sampled_from(DECIMAL_EDGES), st.integers(-8, 8).map(str),
                     st.decimals(allow_nan=True, allow_infinity=True).map(str)).map(lambda s: {"k": "decimal", "v": s})


def fractions_() -> st.SearchStrategy:
    num = choice(st.integers(-8, 8), st.sampled_from(INT_EDGES), st.integers(-2**70, 2**70))
    den = choice(st.integers(1, 8), st.sampled_from([2**53 + 1, 10**400, 3, 10]))
    return st.tuples(num, den).map(lambda t: {"k": "fraction", "n": t[0], "d": t[1]})


def edge_numbers() -> st.SearchStrategy:
    """Only the hand-picked numeric edge values of every numeric type."""
    cx = [complex(0.0, -0.0), complex(float("nan"), 0.0), complex(0.0, float("inf")), complex(1e308, 1e308), 1j, complex(-0.0, 1.0)]
    fr = [(1, 3), (2**53 + 1, 1), (1, 10**400), (10**400, 1), (-1, 2**53 + 1), (10**400 + 1, 10**400), (3, 2)]
    pool = ([_i(v) for v in INT_EDGES] + [_f(x) for x in FLOAT_EDGES] * 2 + [{"k": "decimal", "v": d} for d in DECIMAL_EDGES]
            + [{"k": "complex", "re": _f(c.real)["x"], "im": _f(c.imag)["x"]} for c in cx]
            + [{"k": "fraction", "n": n, "d": d} for n, d in fr] + [{"k": "bool", "v": True}, {"k": "bool", "v": False}])
    return st.sampled_from(pool)


def edge_numbers_of(kind: str) -> st.SearchStrategy:
    """Hand-picked edge values of one numeric kind ("int" | "float" | "decimal" | "complex")."""
    if kind == "int":
        return st.sampled_from([_i(v) for v in INT_EDGES])
    if kind == "float":
        return st.sampled_from([_f(x) for x in FLOAT_EDGES])
    if kind == "decimal":
        return st.sampled_from([{"k": "decimal", "v": d} for d in DECIMAL_EDGES])
    if kind == "complex":
        parts = [0.0, -0.0, 1.0, -2.5, 1e308, 5e-324, float("inf"), float("-inf"), float("nan")]
        return st.tuples(st.sampled_from(parts), st.sampled_from(parts)).map(
            lambda t: {"k": "complex", "re": _f(t[0])["x"], "im": _f(t[1])["x"]})
    raise ValueError(kind)


def numbers() -> st.SearchStrategy:
    return choice(edge_numbers(), edge_numbers(), edge_numbers(), ints(), floats(), bools(), decimals(), fractions_(), complexes())


_ALPHABET = choice(st.sampled_from(list("ab01 \n\t'\"\\{}%")), st.characters(),
                      st.sampled_from(["\x00", "\x7f", "\xe9", "€", "\U0001f600", "\ud800", "\udfff", " ", "\r"]))


def strs(max_size: int = 6) -> st.SearchStrategy:
    return choice(st.sampled_from(["", "a", "b", "ab", "aa", "A"]), st.text(_ALPHABET, max_size=max_size)).map(
        lambda s: {"k": "str", "v": s})


def bytess(max_size: int = 6) -> st.SearchStrategy:
    raw = choice(st.sampled_from([b"", b"a", b"b", b"ab", b"\x00", b"\xff\xfe"]), st.binary(max_size=max_size))
    return st.tuples(st.sampled_from(["bytes", "bytes", "bytearray"]), raw).map(lambda t: {"k": t[0], "hex": t[1].hex()})


def nones() -> st.SearchStrategy:
    return st.just({"k": "none"})


def scalars() -> st.SearchStrategy:
    return choice(ints(), floats(), bools(), nones(), strs(), bytess(), decimals(), fractions_(), complexes())


# ---- logged objects
_RAISES = ["!ValueError", "!TypeError", "!RuntimeError", "!AttributeError", "!ZeroDivisionError"]
_cmp_beh = choice(st.sampled_from(["key", "key", "key", "T", "F", "NI", "truthy", "falsy"]), st.sampled_from(_RAISES))


def _subset_map(names: list[str], beh: st.SearchStrategy, min_size: int = 0) -> st.SearchStrategy:
    sub = st.fixed_dictionaries({}, optional=dict.fromkeys(sorted(names), beh))
    if min_size:
        return st.tuples(sub, st.sampled_from(sorted(names)), beh).map(lambda t: t[0] or {t[1]: t[2]})
    return sub


def _cmp_methods() -> st.SearchStrategy:
    return choice(
        _subset_map(CMP_DUNDERS, _cmp_beh, 1),
        st.sampled_from([["__lt__"], ["__eq__"], ["__eq__", "__lt__"], ["__le__"], ["__gt__"], ["__ne__"], ["__eq__", "__ne__"],
                         CMP_DUNDERS]).map(lambda ns: dict.fromkeys(ns, "key")),
    )


def _truth_methods() -> st.SearchStrategy:
    return st.fixed_dictionaries({}, optional={
        "__bool__": choice(st.sampled_from(["T", "F", "bad", "items"]), st.sampled_from(_RAISES)),
        "__len__": choice(st.sampled_from([0, 1, 3, -1, "items", "bad"]), st.sampled_from(_RAISES)),
    })


def _container_methods() -> st.SearchStrategy:
    return st.fixed_dictionaries({}, optional={
        "__contains__": choice(st.sampled_from(["items", "items", "T", "F", "truthy", "falsy"]), st.sampled_from(_RAISES)),
        "__iter__": choice(st.sampled_from(["items", "items", "self", "bad"]), st.sampled_from(_RAISES), st.none()),
        "__getitem__": choice(st.just("items"), st.sampled_from(_RAISES)),
        "__len__": st.sampled_from(["items", 0, 3]),
    })


def _hash_methods(safe: bool) -> st.SearchStrategy:
    opts = ["tag", "const"] if safe else ["tag", "const", "bad", "!TypeError", None]
    return st.fixed_dictionaries({}, optional={"__hash__": st.sampled_from(opts)})


def _merge(*ds: dict) -> dict:
    out: dict = {}
    for d in ds:
        out.update(d)
    return dict(sorted(out.items()))


def class_recipes(profile: str = "any", subclass: bool = True) -> st.SearchStrategy:
    empty = st.just({})
    cmpm = _cmp_methods() if profile in ("cmp", "any") else empty
    truth = _truth_methods() if profile in ("truth", "any") else empty
    cont = _container_methods() if profile in ("container", "any") else empty
    if profile == "any":
        cmpm, truth, cont = (choice(empty, s) for s in (cmpm, truth, cont))
    methods = st.tuples(cmpm, truth, cont, _hash_methods(False)).map(lambda t: _merge(*t))
    flat = st.fixed_dictionaries({"n": st.sampled_from(["A", "B"]), "m": methods, "base": st.none()})
    if not subclass:
        return flat
    sub = st.fixed_dictionaries({"n": st.just("S"), "m": choice(empty, _cmp_methods()), "base": flat})
    return choice(flat, flat, flat, sub)


def objects(profile: str = "any", payload: st.SearchStrategy | None = None) -> st.SearchStrategy:
    items = st.lists(payload if payload is not None else choice(ints(), strs(), floats()), max_size=3)
    return st.fixed_dictionaries({"k": st.just("obj"), "cls": class_recipes(profile), "tag": st.integers(0, 3), "items": items})


def hashable_objects() -> st.SearchStrategy:
    """Objects that can safely be members of sets / dict keys while a case is being materialised."""
    eq = st.fixed_dictionaries({}, optional={"__eq__": st.sampled_from(["key", "T", "F"])})
    methods = st.tuples(eq, st.sampled_from(["tag", "const"])).map(lambda t: _merge(t[0], {"__hash__": t[1]}))
    # always a recipe-defined __hash__: the default identity hash would make set/dict iteration order (and with it which
    # elements a set comparison looks at) depend on memory addresses, i.e. differ between two runs of the same case
    cls = st.fixed_dictionaries({"n": st.just("H"), "m": methods, "base": st.none()})
    return st.fixed_dictionaries({"k": st.just("obj"), "cls": cls, "tag": st.integers(0, 3), "items": st.just([])})


def hashables(depth: int = 1) -> st.SearchStrategy:
    only_bytes = bytess().map(lambda r: {"k": "bytes", "hex": r["hex"]})
    quiet_decimals = decimals().map(lambda r: {"k": "decimal", "v": r["v"].replace("sNaN", "NaN")})  # hash(sNaN) raises
    base = choice(ints(), floats(), bools(), nones(), strs(), only_bytes, quiet_decimals, fractions_(), complexes(), hashable_objects())
    if depth <= 0:
        return base
    inner = hashables(depth - 1)
    return choice(base, base, st.lists(inner, max_size=3).map(lambda xs: {"k": "tuple", "items": xs}),
                     st.lists(inner, max_size=3).map(lambda xs: {"k": "frozenset", "items": xs}))


def containers(elem: st.SearchStrategy, max_size: int = 4, depth: int = 1) -> st.SearchStrategy:
    seq = st.tuples(st.sampled_from(["list", "tuple"]), st.lists(elem, max_size=max_size)).map(
        lambda t: {"k": t[0], "items": t[1]})
    sets = st.tuples(st.sampled_from(["set", "frozenset"]), st.lists(hashables(depth - 1), max_size=max_size)).map(
        lambda t: {"k": t[0], "items": t[1]})
    dicts = st.lists(st.tuples(hashables(depth - 1), elem).map(list), max_size=max_size).map(lambda xs: {"k": "dict", "items": xs})
    return choice(seq, seq, sets, dicts)


def iterators(elem: st.SearchStrategy, max_size: int = 4) -> st.SearchStrategy:
    plain = st.tuples(st.sampled_from(["iter", "gen"]), st.lists(elem, max_size=max_size)).map(lambda t: {"k": t[0], "items": t[1]})
    return plain


def ranges() -> st.SearchStrategy:
    return st.lists(st.integers(-5, 8), min_size=1, max_size=3).map(
        lambda a: {"k": "range", "args": a if len(a) < 3 or a[2] != 0 else [a[0], a[1], 1]})


def slices() -> st.SearchStrategy:
    part = st.one_of(st.none(), st.integers(-3, 5))
    return st.tuples(part, part, st.one_of(st.none(), st.sampled_from([1, 2, -1]))).map(lambda t: {"k": "slice", "args": list(t)})


def exception_classes(user: bool = True, abc: bool = True) -> st.SearchStrategy:
    """Builtin exception classes, user subclasses (two levels) and exception ABCs with registered virtual subclasses."""
    builtin = st.sampled_from(BUILTIN_EXCS).map(lambda n: {"k": "excclass", "name": n})
    if not user:
        return builtin
    plain = st.fixed_dictionaries({"n": st.sampled_from(["E1", "E2"]), "base": builtin, "meta": st.just("plain")})
    virtual = st.fixed_dictionaries({"n": st.sampled_from(["E1", "E2"]), "base": builtin, "meta": st.just("abc"),
                                     "virtual": st.lists(st.sampled_from(BUILTIN_EXCS), max_size=2, unique=True)})
    lvl1 = (choice(plain, plain, virtual) if abc else plain).map(lambda u: {"k": "excclass", "user": u})
    lvl2 = st.fixed_dictionaries({"n": st.just("E3"), "base": lvl1, "meta": st.just("plain")}).map(
        lambda u: {"k": "excclass", "user": u})
    return choice(builtin, lvl1, lvl2)


def exception_instances(**kw: Any) -> st.SearchStrategy:
    return st.fixed_dictionaries({"k": st.just("excinst"), "cls": exception_classes(**kw),
                                  "args": st.lists(choice(ints(), strs()), max_size=1)})


def values(depth: int = 2) -> st.SearchStrategy:
    """Everything: scalars, logged objects, containers of those (to ``depth``), iterators over them."""
    leaf = choice(scalars(), scalars(), objects())
    if depth <= 0:
        return leaf
    inner = values(depth - 1)
    return choice(leaf, leaf, containers(inner, depth=depth), iterators(inner), ranges())
