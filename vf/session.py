"""In-process pynguin session (DESIGN.md §2.6): configuration -> import hook -> cluster -> executor -> factory.

A ``Session`` replicates ``pynguin.generator._run`` up to the point a check needs and undoes all the
process-global effects again in ``close()``::

    from vf.session import Session
    from vf.corpus import CORPUS_DIR

    with Session(CORPUS_DIR, "vfc_numeric", seed=7, algorithm="MOSA") as s:
        s.executor            # the TestCaseExecutor built by generator._setup_and_check()
        s.cluster             # ModuleTestCluster
        s.constant_provider   # what _setup_constant_seeding() returned
        s.subject_properties  # SubjectProperties shared by hook, tracer and executor
        s.algorithm           # GenerationAlgorithm from _instantiate_test_generation_strategy (None if instantiate=False)
        s.factory             # the *real* TestFactory (the algorithm's, or TestFactory(cluster, constant_provider))
        s.fitness_functions   # list of the algorithm's test-case fitness functions (goals)
        s.suite_fitness_functions, s.suite_coverage_functions
        s.module              # the imported (instrumented) SUT module
        s.alias               # alias under which generated statements address the SUT ("vfc_numeric_")
        t = s.random_test_case(seed=123, size=6)          # built by the real factory, pynguin RNG seeded with 123
        c = s.chromosome(t)                                # TestCaseChromosome with factory (+ fitness functions)
        u = s.build_test_case_from_calls([{"new": "Account", "args": ["bob", 5]},
                                          {"on": 0, "method": "deposit", "args": [3]},
                                          {"fn": "transfer", "args": [{"ref": 0}, {"ref": 0}, 1]}])
        r = s.executor.execute(u)
        s.observe(r)          # JSON-able summary of an ExecutionResult (see ``observe``)
        sub = s.subprocess_executor()   # SubprocessTestCaseExecutor over the SAME subject properties

What ``open()`` does, in this order (names as in the current ``pynguin/generator.py``):

1. ``make_configuration(...)`` -> ``generator.set_configuration(cfg)``; ``stat.reset()``.
2. ``generator._setup_and_check()``  = ``_setup_path`` (sys.path.insert(0, project_path)),
   ``_setup_constant_seeding``, ``_setup_import_hook`` (InstrumentationFinder at sys.meta_path[0]),
   ``_patch_random`` (process-wide, idempotent, *not* undone), ``_load_sut`` (import under the tracer),
   ``_setup_test_cluster``, executor (``TestCaseExecutor`` or, with ``subprocess=True``,
   ``SubprocessTestCaseExecutor``), ``_track_sut_data``, ``_setup_random_number_generator``
   (``randomness.RNG.seed(cfg.seeding.seed)`` and ``random.seed``).
3. unless ``instantiate=False``: ``generator._instantiate_test_generation_strategy(executor, cluster,
   constant_provider)`` (archive, fitness/coverage functions, stopping conditions, chromosome factory).
   Note that this registers the stopping conditions that observe executions as executor observers,
   like a real run.

``close()`` (idempotent, also run by ``__exit__`` and when ``open()`` fails half-way): removes every
``InstrumentationFinder`` that was not in ``sys.meta_path`` before, removes the SUT module (and every
other module imported from the project directory during the session) from ``sys.modules``, removes the
``sys.path`` entry, clears the executor's observers, disables the tracer, restores a pristine
``pynguin.configuration.configuration`` and calls ``stat.reset()``; ``importlib.invalidate_caches()``.
Several sessions can therefore run one after the other in one process — with the same or different
module names — and a session can be opened inside ``vf.iso.forked`` (nothing here needs threads or
state from before the fork).  Not undone: ``_patch_random`` (harmless: with a pristine configuration
``random.Random().seed()`` uses ``SeedingConfiguration.seed``), the state of ``randomness.RNG`` and
``random`` (checks seed them with drawn ints), lazily imported pynguin modules.

Patterns and gotchas (learned while building C12/C30/C31/C32 on this helper):

* Fork from an open session.  When a case needs several pristine processes (baselines, histories that wreck stdout or
  leave threads behind), open the session ONCE in the shard process, never execute a test there, and run each history in
  ``vf.iso.forked(lambda: ...)`` — the child inherits the ready session (fork ~10 ms vs ~150 ms set-up).  See
  ``checks/c30_execution_isolation.py``.
* A SUT global bound to a *module* (``import dataclasses``) makes ``generate_test_cluster`` analyse that module
  transitively (14-50 s).  Generated SUTs should use ``from x import y`` or function-local imports.
* ``except ...: return`` followed by an ``if`` after the ``try`` makes BRANCH instrumentation fail on the unchanged tree
  ("Failed to compute stacksize"); the module then does not load and ``open()`` raises ``SessionSetupError``.
* DynaMOSA accepts only BRANCH (``_verify_config`` raises ``ConfigurationException``); use ``algorithm="MOSA"`` for LINE.
* Execution budgets: the timeout of one execution is ``min(maximum_test_execution_timeout, per_statement * size)`` —
  1 s for a one-statement test with the defaults.  On a loaded machine that produces spurious ``timeout=True`` results;
  checks that are not about timeouts should raise both (``stopping__maximum_test_execution_timeout=20,
  stopping__test_execution_time_per_statement=10``) and still treat a timeout flag as inconclusive.
* ``_instantiate_test_generation_strategy`` registers stopping conditions as executor observers;
  ``s.executor.clear_observers()`` if they are in the way.  ``instantiate=False`` skips the algorithm altogether.
* The factory's default ``test_creation`` weights produce wildly ill-typed calls (most tests raise ``TypeError``);
  ``test_creation__none_weight=0, test_creation__any_weight=0, test_creation__negate_type=0.0,
  test_creation__use_random_object_for_call=0.0`` gives mostly well-typed tests.

Rules for users (see README_CHECKS.md): all randomness must come from Hypothesis draws — seed pynguin's
RNG with a drawn int (``s.seed_rng(n)``; ``random_test_case`` does it for you); module names of
*generated* SUTs must be unique per case; SUTs must obey the corpus rule of DESIGN §2.7.
"""

from __future__ import annotations

import dataclasses
import importlib
import logging
import os
import shutil
import sys
import tempfile
from typing import Any, Iterable

__all__ = ["Session", "SessionSetupError", "make_configuration", "observe_result", "literal_source"]


class SessionSetupError(RuntimeError):
    """``generator._setup_and_check()`` returned None (module not importable, nothing to test, …)."""


# --------------------------------------------------------------------------------------------------
# configuration
# --------------------------------------------------------------------------------------------------
def _enum_member(enum_cls: Any, value: Any) -> Any:
    if isinstance(value, enum_cls):
        return value
    if isinstance(value, str):
        try:
            return enum_cls[value]
        except KeyError:
            return enum_cls(value)
    return enum_cls(value)


def _set_path(cfg: Any, dotted: str, value: Any) -> None:
    obj = cfg
    parts = dotted.split(".")
    for p in parts[:-1]:
        if not hasattr(obj, p):
            raise AttributeError(f"configuration has no section {p!r} (in override {dotted!r})")
        obj = getattr(obj, p)
    leaf = parts[-1]
    if not hasattr(obj, leaf):
        raise AttributeError(f"configuration has no field {dotted!r}")
    cur = getattr(obj, leaf)
    import enum as _enum

    if isinstance(cur, _enum.Enum) and not isinstance(value, type(cur)):
        value = _enum_member(type(cur), value)
    setattr(obj, leaf, value)


def make_configuration(project_path: str, module_name: str, output_path: str, *, seed: int = 0,
                       algorithm: Any = "DYNAMOSA", coverage_metrics: Iterable[Any] = ("BRANCH",),
                       assertion_generation: Any = "NONE", maximum_iterations: int = 3,
                       overrides: dict[str, Any] | None = None) -> Any:
    """Build a ``pynguin.configuration.Configuration`` with defaults suited to in-process checks.

    Defaults: iteration budget (``stopping.maximum_iterations``), ``maximum_search_time=-1``, no statistics
    backend, no coverage report, report dir inside *output_path*, no black formatting, no master/worker, no LLM,
    in-process executor.  *overrides* maps dotted field paths (``"stopping.maximum_test_execution_timeout"``,
    ``"search_algorithm.population"``, ``"subprocess"``) to values; enum fields accept member names.
    Keyword overrides with ``__`` instead of ``.`` are accepted by ``Session``.
    """
    import pynguin.configuration as config

    cfg = config.Configuration(
        project_path=str(project_path),
        module_name=module_name,
        test_case_output=config.TestCaseOutputConfiguration(output_path=str(output_path)),
        algorithm=_enum_member(config.Algorithm, algorithm),
    )
    cfg.seeding.seed = int(seed)
    cfg.statistics_output.coverage_metrics = [_enum_member(config.CoverageMetric, m) for m in coverage_metrics]
    cfg.statistics_output.statistics_backend = config.StatisticsBackend.NONE
    cfg.statistics_output.create_coverage_report = False
    cfg.statistics_output.report_dir = os.path.join(str(output_path), "pynguin-report")
    cfg.test_case_output.assertion_generation = _enum_member(config.AssertionGenerator, assertion_generation)
    cfg.test_case_output.format_with_black = False
    cfg.test_case_output.crash_path = os.path.join(str(output_path), "crashes")
    cfg.stopping.maximum_search_time = -1
    cfg.stopping.maximum_iterations = int(maximum_iterations)
    cfg.use_master_worker = False
    cfg.subprocess = False
    cfg.subprocess_if_recommended = False
    for dotted, value in (overrides or {}).items():
        _set_path(cfg, dotted, value)
    return cfg


# --------------------------------------------------------------------------------------------------
# observation helpers (JSON-able, address free)
# --------------------------------------------------------------------------------------------------
def observe_result(result: Any, test_case: Any | None = None) -> dict[str, Any]:
    """Deterministic, JSON-able summary of an ``ExecutionResult``.

    ``exceptions``: {position: exception type name}; ``lines``: sorted covered line ids; ``code_objects``: sorted
    executed code object ids; ``branches``: sorted [predicate id, true-distance == 0, false-distance == 0];
    ``assertions``: {position: sorted rendered assertions}; ``violated``/``errors`` of the verification trace.
    """
    trace = result.execution_trace
    preds = sorted(set(trace.true_distances) | set(trace.false_distances) | set(trace.executed_predicates))
    out: dict[str, Any] = {
        "timeout": bool(result.timeout),
        "exceptions": {str(k): type(v).__name__ for k, v in sorted(result.exceptions.items())},
        "lines": sorted(trace.covered_line_ids),
        "code_objects": sorted(trace.executed_code_objects),
        "branches": [[p, trace.true_distances.get(p) == 0.0, trace.false_distances.get(p) == 0.0] for p in preds],
        "assertions": {str(pos): sorted(_render_assertion(a) for a in asserts)
                       for pos, asserts in sorted(result.assertion_trace.trace.items())},
    }
    avt = result.assertion_verification_trace
    out["verification"] = {
        "failed": sorted(f"{k}:{sorted(v)}" for k, v in getattr(avt, "failed", {}).items() if v),
        "error": sorted(f"{k}:{sorted(v)}" for k, v in getattr(avt, "error", {}).items() if v),
    }
    return out


def _render_assertion(assertion: Any) -> str:
    """Address-free rendering of an assertion (type + source + value/type names)."""
    name = type(assertion).__name__
    parts = [name]
    for attr in ("source", "module", "qualname", "exception_type_name", "length"):
        if hasattr(assertion, attr):
            parts.append(f"{attr}={getattr(assertion, attr)!r}")
    if name == "FloatAssertion":
        parts.append(f"value={assertion.value!r}")
    elif name == "ObjectAssertion":
        parts.append("object=" + _safe_repr(assertion.object))
    return " ".join(parts)


def _safe_repr(value: Any) -> str:
    import enum
    import re

    if isinstance(value, enum.Enum):
        return f"{type(value).__name__}.{value.name}"
    try:
        text = repr(value)
    except Exception as exc:  # noqa: BLE001
        text = f"<repr failed: {type(exc).__name__}>"
    return re.sub(r"0x[0-9a-fA-F]+", "0x?", text)


def literal_source(value: Any) -> str:
    """Python source for a JSON-able argument value (``{"float": "nan"}``/``{"neg0": true}`` for special floats)."""
    if isinstance(value, dict):
        if "float" in value:
            return f"float({value['float']!r})"
        if "enum" in value:  # handled by the caller (needs the alias)
            raise ValueError("enum arguments are rendered by Session")
        if "bytes" in value:
            return repr(bytes(value["bytes"]))
        if "set" in value:
            items = ", ".join(literal_source(v) for v in value["set"])
            return "{" + items + "}" if value["set"] else "set()"
        if "tuple" in value:
            items = [literal_source(v) for v in value["tuple"]]
            return "(" + ", ".join(items) + ("," if len(items) == 1 else "") + ")"
        if "dict" in value:
            return "{" + ", ".join(f"{literal_source(k)}: {literal_source(v)}" for k, v in value["dict"]) + "}"
        raise ValueError(f"unknown argument recipe {value!r}")
    if isinstance(value, list):
        return "[" + ", ".join(literal_source(v) for v in value) + "]"
    if isinstance(value, float):
        if value != value:
            return "float('nan')"
        if value in (float("inf"), float("-inf")):
            return "float('inf')" if value > 0 else "float('-inf')"
    return repr(value)


# --------------------------------------------------------------------------------------------------
# the session
# --------------------------------------------------------------------------------------------------
@dataclasses.dataclass
class _Saved:
    meta_path: list[Any]
    modules: set[str]
    configuration: Any
    sys_path: list[str]


class Session:
    """See the module docstring."""

    def __init__(self, module_dir: str, module_name: str, *, seed: int = 0, algorithm: Any = "DYNAMOSA",
                 coverage_metrics: Iterable[Any] = ("BRANCH",), assertion_generation: Any = "NONE",
                 maximum_iterations: int = 3, instantiate: bool = True, scratch: str | None = None,
                 quiet: bool = True, overrides: dict[str, Any] | None = None, **cfg_overrides: Any) -> None:
        self.module_dir = os.path.abspath(str(module_dir))
        self.module_name = module_name
        self._cfg_args = dict(seed=seed, algorithm=algorithm, coverage_metrics=tuple(coverage_metrics),
                              assertion_generation=assertion_generation, maximum_iterations=maximum_iterations)
        ov = dict(overrides or {})
        for k, v in cfg_overrides.items():
            ov[k.replace("__", ".")] = v
        self._overrides = ov
        self._instantiate = instantiate
        self._scratch_parent = scratch
        self._quiet = quiet
        self._opened = False
        self._closed = False
        self._saved: _Saved | None = None
        self._own_scratch: str | None = None
        self._log_level: int | None = None
        # public attributes, filled by open()
        self.configuration: Any = None
        self.executor: Any = None
        self.cluster: Any = None
        self.constant_provider: Any = None
        self.subject_properties: Any = None
        self.algorithm: Any = None
        self.factory: Any = None
        self.module: Any = None
        self.alias: str = ""
        self.output_path: str = ""
        self.fitness_functions: list[Any] = []
        self.suite_fitness_functions: list[Any] = []
        self.suite_coverage_functions: list[Any] = []

    # ------------------------------------------------------------------ life cycle
    def __enter__(self) -> "Session":
        return self.open()

    def __exit__(self, *exc: Any) -> None:
        self.close()

    def open(self) -> "Session":
        if self._opened:
            raise RuntimeError("session already opened")
        self._opened = True
        import pynguin.configuration as config
        import pynguin.generator as gen
        import pynguin.utils.statistics.stats as stat
        from pynguin.utils.naming import get_module_alias

        parent = self._scratch_parent or os.environ.get("VF_SCRATCH_DIR") or os.environ.get("VERIF_SCRATCH")
        if parent:
            os.makedirs(parent, exist_ok=True)
        self._own_scratch = tempfile.mkdtemp(prefix="vfsess_", dir=parent or None)
        self.output_path = os.path.join(self._own_scratch, "out")
        os.makedirs(self.output_path, exist_ok=True)

        self._saved = _Saved(meta_path=list(sys.meta_path), modules=set(sys.modules),
                             configuration=config.configuration, sys_path=list(sys.path))
        if self._quiet:
            pl = logging.getLogger("pynguin")
            self._log_level = pl.level
            pl.setLevel(logging.CRITICAL + 1)
        try:
            importlib.invalidate_caches()  # SUT files may have been written after the finder cached the directory
            self.configuration = make_configuration(self.module_dir, self.module_name, self.output_path,
                                                    overrides=self._overrides, **self._cfg_args)
            gen.set_configuration(self.configuration)
            stat.reset()
            gen._verify_config()  # noqa: SLF001
            setup = gen._setup_and_check()  # noqa: SLF001
            if setup is None:
                raise SessionSetupError(f"_setup_and_check() failed for {self.module_name} in {self.module_dir}")
            self.executor, self.cluster, self.constant_provider = setup
            self.subject_properties = self.executor.subject_properties
            self.module = sys.modules[self.module_name]
            self.alias = get_module_alias(self.module_name)
            if self._instantiate:
                self.algorithm = gen._instantiate_test_generation_strategy(  # noqa: SLF001
                    self.executor, self.cluster, self.constant_provider)
                self.factory = self.algorithm.test_factory
                self.fitness_functions = list(self.algorithm.test_case_fitness_functions)
                self.suite_fitness_functions = list(self.algorithm.test_suite_fitness_functions)
                self.suite_coverage_functions = list(self.algorithm.test_suite_coverage_functions)
            else:
                import pynguin.testcase.testfactory as tf

                self.factory = tf.TestFactory(self.cluster, constant_provider=self.constant_provider)
        except BaseException:
            self.close()
            raise
        return self

    def close(self) -> None:
        if self._closed or not self._opened:
            return
        self._closed = True
        import pynguin.configuration as config
        import pynguin.utils.statistics.stats as stat
        from pynguin.instrumentation.machinery import InstrumentationFinder

        saved = self._saved
        try:
            if self.executor is not None:
                try:
                    self.executor.clear_observers()
                    self.executor.clear_remote_observers()
                except Exception:  # noqa: BLE001
                    pass
            if self.subject_properties is not None:
                try:
                    self.subject_properties.instrumentation_tracer.disable()
                except Exception:  # noqa: BLE001
                    pass
            if saved is not None:
                before = {id(f) for f in saved.meta_path}
                sys.meta_path[:] = [f for f in sys.meta_path
                                    if not (isinstance(f, InstrumentationFinder) and id(f) not in before)]
                for name in [n for n in list(sys.modules) if n not in saved.modules]:
                    mod = sys.modules.get(name)
                    if name == self.module_name or name.startswith(self.module_name + ".") or self._from_project(mod):
                        sys.modules.pop(name, None)
                # the SUT itself may have been imported before (reload path of _load_sut): drop it as well
                sys.modules.pop(self.module_name, None)
                if self.module_dir in sys.path and sys.path.count(self.module_dir) > saved.sys_path.count(self.module_dir):
                    sys.path.remove(self.module_dir)
            importlib.invalidate_caches()
        finally:
            config.configuration = config.Configuration(
                project_path="", module_name="",
                test_case_output=config.TestCaseOutputConfiguration(output_path=""))
            stat.reset()
            if self._log_level is not None:
                logging.getLogger("pynguin").setLevel(self._log_level)
            if self._own_scratch:
                shutil.rmtree(self._own_scratch, ignore_errors=True)

    def _from_project(self, mod: Any) -> bool:
        path = getattr(mod, "__file__", None)
        if not path:
            return False
        try:
            return os.path.commonpath([os.path.abspath(path), self.module_dir]) == self.module_dir
        except ValueError:
            return False

    # ------------------------------------------------------------------ helpers
    @staticmethod
    def seed_rng(n: int) -> None:
        """Seed pynguin's own RNG (``randomness.RNG``) with a drawn integer."""
        from pynguin.utils import randomness

        randomness.RNG.seed(int(n))

    def new_test_case(self) -> Any:
        import pynguin.testcase.testcase as tc

        return tc.TestCase()

    def random_test_case(self, seed: int, size: int = 5, max_attempts: int = 40) -> Any:
        """A test case built by the real factory (``insert_random_statement`` at the end, like
        ``RandomLengthTestCaseFactory``) until it has at least *size* statements or *max_attempts* insertions
        were tried; pynguin's RNG is seeded with *seed* first."""
        self.seed_rng(seed)
        test_case = self.new_test_case()
        attempts = 0
        while test_case.size() < size and attempts < max_attempts:
            self.factory.insert_random_statement(test_case, test_case.size())
            attempts += 1
        return test_case

    def chromosome(self, test_case: Any, fitness_functions: Iterable[Any] | None = None) -> Any:
        """``TestCaseChromosome`` around *test_case* with the real factory; *fitness_functions* default to none."""
        import pynguin.ga.testcasechromosome as tcc

        chrom = tcc.TestCaseChromosome(test_case=test_case, test_factory=self.factory)
        for f in fitness_functions or ():
            chrom.add_fitness_function(f)
        return chrom

    def suite(self, chromosomes: Iterable[Any] = (), fitness_functions: Iterable[Any] | None = None,
              coverage_functions: Iterable[Any] | None = None) -> Any:
        """``TestSuiteChromosome`` with a real test-case chromosome factory (needed by ``mutate``)."""
        import pynguin.ga.testcasechromosomefactory as tccf
        import pynguin.ga.testcasefactory as tcf
        import pynguin.ga.testsuitechromosome as tsc
        from pynguin.utils.orderedset import OrderedSet

        tc_factory = tccf.TestCaseChromosomeFactory(
            self.factory, tcf.RandomLengthTestCaseFactory(self.factory, self.cluster), OrderedSet())
        s = tsc.TestSuiteChromosome(tc_factory)
        for c in chromosomes:
            s.add_test_case_chromosome(c)
        for f in fitness_functions or ():
            s.add_fitness_function(f)
        for f in coverage_functions or ():
            s.add_coverage_function(f)
        return s

    def subprocess_executor(self, **kwargs: Any) -> Any:
        """``SubprocessTestCaseExecutor`` over the SAME subject properties, built as ``_setup_and_check`` does."""
        from pynguin.testcase.execution import SubprocessTestCaseExecutor

        stop = self.configuration.stopping
        kwargs.setdefault("maximum_test_execution_timeout", stop.maximum_test_execution_timeout)
        kwargs.setdefault("test_execution_time_per_statement", stop.test_execution_time_per_statement)
        return SubprocessTestCaseExecutor(subject_properties=self.subject_properties, **kwargs)

    def plain_executor(self, **kwargs: Any) -> Any:
        """A second in-process ``TestCaseExecutor`` over the same subject properties (no observers attached)."""
        from pynguin.testcase.execution import TestCaseExecutor

        stop = self.configuration.stopping
        kwargs.setdefault("maximum_test_execution_timeout", stop.maximum_test_execution_timeout)
        kwargs.setdefault("test_execution_time_per_statement", stop.test_execution_time_per_statement)
        return TestCaseExecutor(subject_properties=self.subject_properties, **kwargs)

    observe = staticmethod(observe_result)

    # ------------------------------------------------------------------ hand-built test cases
    def accessible(self, kind: str, name: str, owner: str | None = None) -> Any:
        """Look an accessible object up in the cluster: kind in {"fn", "new", "method"}; None if absent."""
        import pynguin.utils.generic.genericaccessibleobject as gao

        for acc in self.cluster.accessible_objects_under_test:
            if kind == "fn" and isinstance(acc, gao.GenericFunction) and acc.function_name == name:
                return acc
            if kind == "new" and isinstance(acc, gao.GenericConstructor) and acc.owner is not None \
                    and acc.owner.name == name:
                return acc
            if kind == "method" and isinstance(acc, gao.GenericMethod) and acc.method_name == name \
                    and (owner is None or acc.owner.name == owner):
                return acc
        return None

    def _arg_source(self, arg: Any, var_of_call: dict[int, str]) -> str:
        if isinstance(arg, dict) and "ref" in arg:
            return var_of_call[int(arg["ref"])]
        if isinstance(arg, dict) and "enum" in arg:
            return f"{self.alias}.{arg['enum']}"
        if isinstance(arg, dict) and "raw" in arg:
            return str(arg["raw"])
        return literal_source(arg)

    def build_test_case_from_calls(self, calls: list[dict[str, Any]]) -> Any:
        """Hand-built test case from a JSON-able list of steps; step *i* binds ``var_i``.

        Steps: ``{"fn": name, "args": [...], "kwargs": {...}}`` (module function),
        ``{"new": ClassName, "args": [...]}`` (constructor), ``{"on": j, "method": name, "args": [...]}`` (method on
        the result of step *j*), ``{"value": v}`` (primitive statement), ``{"stmt": "source", "binds": bool}`` (raw
        statement; use ``{alias}`` for the module alias and ``{self}`` for this step's variable).
        Arguments: JSON primitives / lists, ``{"ref": j}`` (variable of step *j*), ``{"enum": "Color.RED"}``,
        ``{"float": "nan"}``, ``{"tuple": [...]}``, ``{"set": [...]}``, ``{"dict": [[k, v], ...]}``, ``{"bytes": [...]}``,
        ``{"raw": "expression source"}``.  ``accessible`` / ``bound_type`` are filled from the cluster like the factory
        does, so mutation operators and observers treat the statements as factory-built.
        """
        import libcst as cst
        import pynguin.testcase.testcase as tc
        from pynguin.testcase.testfactory import _proper_type_to_raw, _raw_type_or_none  # noqa: PLC2701

        test_case = tc.TestCase()
        var_of_call: dict[int, str] = {}
        type_of_call: dict[int, Any] = {}
        for i, step in enumerate(calls):
            var = test_case.next_var_name()
            var_of_call[i] = var
            args = [self._arg_source(a, var_of_call) for a in step.get("args", [])]
            args += [f"{k}={self._arg_source(v, var_of_call)}" for k, v in step.get("kwargs", {}).items()]
            acc = None
            bound_type: Any = None
            binds = True
            if "fn" in step:
                acc = self.accessible("fn", step["fn"])
                src = f"{var} = {self.alias}.{step['fn']}({', '.join(args)})"
                if acc is not None:
                    bound_type = _proper_type_to_raw(acc.generated_type())
            elif "new" in step:
                acc = self.accessible("new", step["new"])
                src = f"{var} = {self.alias}.{step['new']}({', '.join(args)})"
                if acc is not None and acc.owner is not None:
                    bound_type = _raw_type_or_none(acc.owner.raw_type)
                else:
                    bound_type = getattr(self.module, step["new"], None)
            elif "method" in step:
                recv = int(step["on"])
                owner = type_of_call.get(recv)
                acc = self.accessible("method", step["method"], getattr(owner, "__name__", None))
                src = f"{var} = {var_of_call[recv]}.{step['method']}({', '.join(args)})"
                if acc is not None:
                    bound_type = _proper_type_to_raw(acc.generated_type())
            elif "value" in step:
                value = step["value"]
                src = f"{var} = {self._arg_source(value, var_of_call)}"
                bound_type = type(value) if not isinstance(value, dict) else None
            elif "stmt" in step:
                binds = bool(step.get("binds", False))
                src = step["stmt"].replace("{alias}", self.alias).replace("{self}", var)
            else:
                raise ValueError(f"unknown step {step!r}")
            type_of_call[i] = bound_type
            node = cst.parse_module(src + "\n").body[0]
            test_case.add_statement(tc.Statement(node=node, bound_variable=var if binds else None,
                                                 bound_type=bound_type if binds else None, accessible=acc))
        return test_case
