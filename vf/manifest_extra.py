"""Which checks are registered in MANIFEST.json (only checks that were reviewed and are quiet on the tree)."""
READY = ["C04", "C06", "C10", "C11", "C13", "C14", "C16", "C17", "C18", "C20", "C21", "C23", "C28", "C29", "C33", "C34"]
NOT_APPLICABLE: dict[str, str] = {}
