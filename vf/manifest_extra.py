"""Which checks are registered in MANIFEST.json (only checks that were reviewed and are quiet on the tree)."""
READY = ["C01", "C02", "C03", "C04", "C05", "C06", "C07", "C08", "C09", "C10", "C11", "C12", "C13", "C14", "C15", "C16", "C17", "C18", "C19", "C20", "C21", "C22", "C23", "C24", "C25", "C26", "C27", "C28", "C29", "C30", "C31", "C32", "C33", "C34", "C35"]
NOT_APPLICABLE: dict[str, str] = {}
