NOT_APPLICABLE: dict[str, str] = {}
