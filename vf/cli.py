"""Run the whole tool (`python -m pynguin`) and pytest in fresh interpreters.

    res = run_pynguin(project_dir, module, out_dir, seed=1, algorithm="DYNAMOSA", iterations=5,
                      assertion_generation="SIMPLE", extra=["--no_xfail", "True"], hashseed=0)
    res.rc, res.log, res.test_file (path or None), res.wall

    pt = run_pytest(test_file, project_dir)  ->  {"collected": n, "tests": {name: outcome}, "details": {name: text}, "rc": rc}
"""

from __future__ import annotations

import dataclasses
import os
import re
import subprocess
import sys
import time
import xml.etree.ElementTree as ET

from vf.core import REPO


@dataclasses.dataclass
class PynguinRun:
    rc: int | None
    log: str
    test_file: str | None
    wall: float
    timed_out: bool = False


def base_env(hashseed: int | str = 0) -> dict[str, str]:
    env = {k: v for k, v in os.environ.items() if not k.startswith("PYNGUIN_VERIF_")}
    env.update(PYNGUIN_DANGER_AWARE="1", PYTHONHASHSEED=str(hashseed), PYTHONPATH=f"{REPO}/src",
               PYTHONDONTWRITEBYTECODE="1", PYTHONWARNINGS="ignore")
    return env


def run_pynguin(project_dir: str, module: str, out_dir: str, *, seed: int, algorithm: str = "DYNAMOSA", iterations: int = 5,
                assertion_generation: str = "SIMPLE", extra: list[str] | None = None, hashseed: int | str = 0,
                master_worker: bool = False, timeout: float = 600.0) -> PynguinRun:
    os.makedirs(out_dir, exist_ok=True)
    cmd = [sys.executable, "-m", "pynguin", "--project-path", project_dir, "--module-name", module, "--output-path", out_dir,
           "--maximum-iterations", str(iterations), "--maximum-search-time", "-1", "--seed", str(seed), "--algorithm", algorithm,
           "--assertion-generation", assertion_generation, "--report-dir", os.path.join(out_dir, "report"),
           "--use-master-worker", str(master_worker), "--no-rich", "-v",
           # generous execution timeouts: the corpus has no long-running code, so a timeout could only come from machine load
           "--maximum-test-execution-timeout", "120", "--test-execution-time-per-statement", "30"]
    cmd += list(extra or [])
    t0 = time.time()
    logp = os.path.join(out_dir, "pynguin.log")
    with open(logp, "w") as lf:
        proc = subprocess.Popen(cmd, env=base_env(hashseed), cwd=out_dir, stdout=lf, stderr=subprocess.STDOUT,
                                start_new_session=True)
        timed_out = False
        try:
            rc = proc.wait(timeout=timeout)
        except subprocess.TimeoutExpired:
            timed_out = True
            try:
                os.killpg(proc.pid, 9)
            except ProcessLookupError:
                pass
            proc.wait()
            rc = None
    log = open(logp, errors="replace").read()
    tf = os.path.join(out_dir, f"test_{module.rsplit('.', 1)[-1]}.py")
    return PynguinRun(rc, log, tf if os.path.exists(tf) else None, time.time() - t0, timed_out)


_TIMEOUT_MARKERS = ("Experienced timeout from test-case execution", "Timeout occurred", "timed out")


def log_has_timeouts(log: str) -> bool:
    return any(m in log for m in _TIMEOUT_MARKERS)


def run_pytest(test_file: str, project_dir: str, timeout: float = 300.0) -> dict:
    """Runs pytest on *test_file* in a fresh interpreter with only the project on PYTHONPATH."""
    d = os.path.dirname(test_file)
    junit = os.path.join(d, "junit.xml")
    env = {k: v for k, v in os.environ.items() if not k.startswith(("PYNGUIN", "SE2P", "VERIF", "VF_"))}
    env.update(PYTHONPATH=project_dir, PYTHONHASHSEED="0", PYTHONDONTWRITEBYTECODE="1")
    cmd = [sys.executable, "-m", "pytest", "-q", "-p", "no:cacheprovider", "-p", "no:randomly", "-o", "addopts=",
           f"--junitxml={junit}", "--timeout=120", os.path.basename(test_file)]
    try:
        cp = subprocess.run(cmd, env=env, cwd=d, capture_output=True, text=True, timeout=timeout)
    except subprocess.TimeoutExpired:
        return {"rc": None, "tests": {}, "details": {}, "collected": 0, "stdout": "pytest timed out"}
    tests: dict[str, str] = {}
    details: dict[str, str] = {}
    if os.path.exists(junit):
        root = ET.parse(junit).getroot()
        for tcase in root.iter("testcase"):
            name = tcase.get("name") or "?"
            outcome = "passed"
            for child in tcase:
                if child.tag in ("failure", "error"):
                    outcome = "failed" if child.tag == "failure" else "error"
                    details[name] = ((child.get("message") or "") + "\n" + (child.text or ""))[:3000]
                elif child.tag == "skipped":
                    typ = child.get("type") or ""
                    outcome = "xfailed" if "xfail" in typ else "skipped"
                    details[name] = (child.get("message") or "")[:500]
            if (tcase.get("classname") or "") == "" and name.endswith(".py"):
                outcome = "collection-error"
            tests[name] = outcome
    return {"rc": cp.returncode, "tests": tests, "details": details, "collected": len(tests), "stdout": cp.stdout[-3000:] + cp.stderr[-1000:]}


def message_class(text: str) -> str:
    """Coarse, value-free class of a pytest failure text: exception type + normalised first line."""
    first = ""
    for line in text.splitlines():
        line = line.strip()
        if re.match(r"^(E\s+)?[A-Za-z_][\w\.]*(Error|Exception|Failed|Warning)\b", line) or line.startswith("assert "):
            first = re.sub(r"^E\s+", "", line)
            break
    if not first:
        first = (text.strip().splitlines() or [""])[0]
    first = re.sub(r"0x[0-9a-f]+", "0xN", first)
    first = re.sub(r"-?\d+(\.\d+)?(e[+-]?\d+)?", "N", first)
    first = re.sub(r"var_N", "var", first)
    first = re.sub(r"'[^']{12,}'", "'…'", first)
    return first[:90]
