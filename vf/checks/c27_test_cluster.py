"""C27 — the test cluster holds exactly the module's eligible callables.

A case is a generated module pair (``vf.gen.modules``) + a visibility setting + ignore lists.  The expected set of callables
under test is computed **from the generator's model** (``describe``; no ``inspect``) following the configuration
documentation, and compared with ``generate_test_cluster(...).accessible_objects_under_test``.

Every differing element is bucketed by the *smallest set of documented-behaviour relaxations* that explains it
(``RELAX``): each relaxation is one root cause (e.g. "class names are not filtered by visibility"), so a decision about one
never hides another, and an element no relaxation explains gets an ``unexplained:…`` signature of its own.
"""

from __future__ import annotations

import itertools
import logging
import os
import tempfile
from typing import Any

from hypothesis import strategies as st

from vf.core import Outcome, h12
from vf.gen import modules as gm

PROPERTY = "C27"
META = {
    "title": "The test cluster holds exactly the module's eligible callables",
    "technique": "property-based testing over generated modules: model-derived expected set vs. the real module analysis",
    "design_ref": "DESIGN.md §3 C27",
    "rule": "case = module model (SUT + helper module: functions, lambdas, classes with single/multiple/diamond inheritance, "
            "abstract classes, enums, nested classes, static/class/async/cached/wrapped methods, dunders, name-mangled members, "
            "re-exports, stdlib imports) x element_visibility x ignore_methods x ignore_modules; non-trivial = at least 3 expected "
            "elements and at least one member of the SUT namespace that must NOT be under test; distinct by (model, configuration)",
    "assumptions": [
        "eligibility by naming convention as documented in configuration.py: public = no leading underscore or dunder; "
        "protected = single leading underscore; private = double leading underscore without trailing dunder (name-mangled in classes)",
        "members of nested classes and methods of member-less enums are left unconstrained (not reachable / documented TODO)",
        "functions whose names start with 'main'/'test' (blacklisted by design) are not generated",
        "ignore_methods entries are '<module>.<qualname>' of functions and of methods with non-mangled names",
    ],
    "level_text": "Generated module pairs against an expected set derived from the generator's own model; all three visibility "
                  "settings, ignore lists, re-exports and inheritance from a helper module. Exploration, not proof.",
    "level_note": "Trusted: the module generator's model (self-tested against the interpreter: identity, MRO, abstractness, "
                  "mangled names) and the reading of the configuration documentation encoded in expected().",
}
PLAN = {
    "quick": {"shards": 16, "examples": 1280, "shrink_sigs": 3, "shrink_calls": 120, "shrink_seconds": 15},
    "thorough": {"shards": 16, "examples": 40000, "timeout": 3000},
}

VISIBILITIES = ["PUBLIC", "PROTECTED", "ALL"]
STD_MODULE_NAMES = ["colorsys", "posixpath", "collections", "fractions", "textwrap"]

# relaxations of the documented behaviour; each is one root cause
RELAX = [
    "nonpublic-class-not-filtered",      # class *names* are never checked against element_visibility
    "classmethod-not-collected",         # inspect.getmembers(cls, isfunction) does not see classmethods
    "cached-method-not-collected",       # ... nor functools.cache-wrapped methods
    "enum-method-not-collected",         # EnumType.__dir__ hides methods defined in an enum body
    "ignore_methods-not-applied-to-methods",
    "mangling-decided-by-name-shape",    # name-mangling detected by regex on the name, not from the defining class
    "lambda-visibility-decided-on-placeholder-name",  # visibility of a bound lambda checked on "<lambda>", not on its name
]


# ------------------------------------------------------------------------------------------ strategy
@st.composite
def _cases(draw: Any) -> dict[str, Any]:
    model = draw(gm.module_models())
    desc = gm.describe(model)
    cands: list[list[str]] = []
    for f in desc["functions"]:
        if f["mod"] == "sut" and not f["lambda"]:
            cands.append(["sut", f["name"]])
        elif f["mod"] == "helper":
            cands.append(["helper", f["name"]])
    for c in desc["classes"].values():
        if c["toplevel"] and not c["enum"]:
            for m in c["methods"]:
                if m["runtime_name"] == m["name"]:
                    cands.append([c["mod"], f"{c['qualname']}.{m['name']}"])
    ign_methods = draw(st.lists(st.sampled_from(cands), max_size=3, unique_by=tuple)) if cands and draw(st.booleans()) else []
    ign_modules = draw(st.lists(st.sampled_from(["helper"] * 3 + STD_MODULE_NAMES + ["sut"]), max_size=2, unique=True)) \
        if draw(st.sampled_from([False, False, True])) else []
    return {"model": model, "vis": draw(st.sampled_from(VISIBILITIES)), "ign_methods": ign_methods, "ign_modules": ign_modules}


def strategy(ctx: Any) -> st.SearchStrategy:
    return _cases()


# ------------------------------------------------------------------------------------------ oracle
def _eligible(vis_shape: str, setting: str) -> bool:
    if vis_shape in ("public", "dunder"):
        return True
    if vis_shape in ("protected", "infix"):
        return setting in ("PROTECTED", "ALL")
    if vis_shape == "private":
        return setting == "ALL"
    raise AssertionError(vis_shape)


def _class_eligible(cls_vis: str, setting: str) -> bool:
    # for classes "infix" is a public name with an inner underscore (Box_X)
    return _eligible("public" if cls_vis == "infix" else cls_vis, setting)


def _shape_by_regex(runtime_name: str) -> str:
    """How a method name looks to a reader who only sees the (runtime) name — used by the mangling relaxation only."""
    import re

    if runtime_name.startswith("__") and runtime_name.endswith("__"):
        return "dunder"
    if re.fullmatch(r"_[A-Za-z][A-Za-z0-9]*__\w+", runtime_name) and not runtime_name.endswith("__"):
        return "private"
    if runtime_name.startswith("__"):
        return "private"
    if runtime_name.startswith("_"):
        return "protected"
    return "public"


def universe(desc: dict[str, Any]) -> dict[tuple[str, str], dict[str, Any]]:
    """All constrained candidate elements of the SUT: (kind, qualname) -> facts."""
    out: dict[tuple[str, str], dict[str, Any]] = {}
    for f in desc["functions"]:
        if f["mod"] == "sut":
            out[("function", f["name"])] = {"kind": "function", "flavor": f["flavor"], "name_vis": f["vis"], "owner_vis": "-",
                                            "owner": "module", "ign_key": None if f["lambda"] else f["name"]}
    for c in desc["classes"].values():
        if c["mod"] != "sut" or not c["toplevel"]:
            continue
        if c["enum"]:
            if c["has_members"]:
                out[("enum", c["qualname"])] = {"kind": "enum", "flavor": "enum", "name_vis": "-", "owner_vis": c["vis"],
                                                "owner": "enum", "ign_key": None}
                for m in c["methods"]:
                    out[("method", f"{c['qualname']}.{m['runtime_name']}")] = {
                        "kind": "method", "flavor": m["flavor"], "name_vis": m["vis"], "owner_vis": c["vis"], "owner": "enum",
                        "runtime_name": m["runtime_name"], "ign_key": None}
            continue
        out[("ctor", c["qualname"])] = {"kind": "ctor", "flavor": "abstract-class" if c["abstract"] else "ctor", "name_vis": "-",
                                        "owner_vis": c["vis"], "owner": "class", "ign_key": None}
        for m in c["methods"]:
            out[("method", f"{c['qualname']}.{m['runtime_name']}")] = {
                "kind": "method", "flavor": m["flavor"], "name_vis": m["vis"], "owner_vis": c["vis"], "owner": "class",
                "runtime_name": m["runtime_name"],
                "ign_key": f"{c['qualname']}.{m['name']}" if m["runtime_name"] == m["name"] else None}
    return out


def expected(uni: dict[tuple[str, str], dict[str, Any]], setting: str, ignored: set[str], sut_ignored: bool,
             relax: frozenset[str] = frozenset()) -> set[tuple[str, str]]:
    """Elements that must be under test according to the documentation, optionally with some relaxations applied."""
    exp: set[tuple[str, str]] = set()
    if sut_ignored:
        return exp
    for key, e in uni.items():
        kind, flavor = e["kind"], e["flavor"]
        if flavor in ("async", "asyncgen", "abstract-class"):
            continue  # coroutines cannot be executed (documented); abstract classes have no constructor under test
        if e["owner"] != "module" and "nonpublic-class-not-filtered" not in relax and not _class_eligible(e["owner_vis"], setting):
            continue
        if kind in ("function", "method"):
            shape = e["name_vis"]
            if flavor == "lambda" and "lambda-visibility-decided-on-placeholder-name" in relax:
                shape = "public"
            if kind == "method" and "mangling-decided-by-name-shape" in relax and shape != "dunder":
                shape = _shape_by_regex(e["runtime_name"])
                if shape == "private" and setting != "ALL":
                    continue
            if not _eligible(shape, setting):
                continue
            if e["ign_key"] is not None and e["ign_key"] in ignored:
                if not (kind == "method" and "ignore_methods-not-applied-to-methods" in relax):
                    continue
        if kind == "method":
            if flavor == "class" and "classmethod-not-collected" in relax:
                continue
            if flavor == "cached" and "cached-method-not-collected" in relax:
                continue
            if e["owner"] == "enum" and "enum-method-not-collected" in relax:
                continue
        exp.add(key)
    return exp


def _collect(cluster: Any) -> list[tuple[str, str, str]]:
    from pynguin.utils.generic.genericaccessibleobject import (GenericConstructor, GenericEnum, GenericFunction,
                                                              GenericMethod)

    got = []
    for a in cluster.accessible_objects_under_test:
        if isinstance(a, GenericConstructor):
            got.append(("ctor", a.owner.module, a.owner.qualname))
        elif isinstance(a, GenericMethod):
            got.append(("method", a.owner.module, f"{a.owner.qualname}.{a.method_name}"))
        elif isinstance(a, GenericFunction):
            got.append(("function", getattr(a.callable, "__module__", "?"), str(a.function_name)))
        elif isinstance(a, GenericEnum):
            got.append(("enum", a.owner.module, a.owner.qualname))
        else:
            got.append((type(a).__name__, "?", str(a)))
    return got


def _scratch() -> str:
    return os.environ.get("VF_SCRATCH_DIR") or os.environ.get("VERIF_SCRATCH") or tempfile.gettempdir()


def analyse(model: dict[str, Any], setting: str, ign_methods: list[str], ign_modules: list[str],
            selection: str | None = None) -> tuple[list[tuple[str, str, str]], Any]:
    """Run the real module analysis on a freshly written and imported module pair (configuration restored afterwards)."""
    import pynguin.configuration as config
    from pynguin.analyses.module import generate_test_cluster

    logging.getLogger("pynguin").setLevel(logging.ERROR)
    saved = config.configuration
    with gm.write_and_import(model, _scratch()) as imp:
        cfg = config.Configuration(project_path=imp.path, module_name=imp.sut,
                                   test_case_output=config.TestCaseOutputConfiguration(output_path=imp.path))
        cfg.statistics_output.report_dir = imp.path
        cfg.element_visibility = config.ElementVisibility(setting)
        cfg.ignore_methods = list(ign_methods)
        cfg.ignore_modules = list(ign_modules)
        if selection is not None:
            cfg.generator_selection.generator_selection_algorithm = config.Selection(selection)
        config.configuration = cfg
        try:
            cluster = generate_test_cluster(imp.sut)
            return _collect(cluster), cluster
        finally:
            config.configuration = saved


def evaluate(case: dict[str, Any]) -> Outcome:
    out = Outcome()
    model, setting = case["model"], case["vis"]
    desc = gm.describe(model)
    real = {"sut": desc["sut"], "helper": desc["helper"]}
    ign_methods = [f"{real[m]}.{q}" for m, q in case["ign_methods"]]
    ign_modules = [real.get(m, m) for m in case["ign_modules"]]
    ignored = {q for m, q in case["ign_methods"] if m == "sut"}
    sut_ignored = "sut" in case["ign_modules"]

    got_list, _ = analyse(model, setting, ign_methods, ign_modules)

    uni = universe(desc)
    nested = {c["qualname"] for c in desc["classes"].values() if c["mod"] == "sut" and not c["toplevel"]}
    memberless = {c["qualname"] for c in desc["classes"].values() if c["mod"] == "sut" and c["enum"] and not c["has_members"]}
    got: set[tuple[str, str]] = set()
    for kind, module, qual in got_list:
        if module != desc["sut"]:
            out.fail(f"extra|{kind}|foreign-module", f"{kind} {module}.{qual} is marked as under test but belongs to another module")
            continue
        owner = qual.rsplit(".", 1)[0] if kind == "method" else qual
        if owner in nested or (kind == "method" and owner in memberless):
            continue  # unconstrained
        if (kind, qual) not in uni:
            out.fail(f"extra|{kind}|not-a-member-of-the-model", f"{kind} {qual} is under test but the model has no such top-level member")
            continue
        got.add((kind, qual))
    if len(got_list) != len(set(got_list)):
        out.fail("duplicate|element-listed-twice", f"{sorted(got_list)}")

    e0 = expected(uni, setting, ignored, sut_ignored)
    diff = sorted((got - e0) | (e0 - got))
    cache: dict[frozenset[str], set[tuple[str, str]]] = {frozenset(): e0}

    def exp_for(flags: frozenset[str]) -> set[tuple[str, str]]:
        if flags not in cache:
            cache[flags] = expected(uni, setting, ignored, sut_ignored, flags)
        return cache[flags]

    for key in diff:
        direction = "extra" if key in got else "missing"
        e = uni[key]
        explained: tuple[str, ...] | None = None
        for size in (1, 2, 3):
            for flags in itertools.combinations(RELAX, size):
                if (key in exp_for(frozenset(flags))) == (key in got):
                    explained = flags
                    break
            if explained:
                break
        detail = (f"{direction}: {key[0]} {key[1]} (flavor={e['flavor']}, name={e['name_vis']}, class name={e['owner_vis']}) with "
                  f"element_visibility={setting}, ignore_methods={ign_methods}, ignore_modules={ign_modules}")
        if explained:
            for flag in explained:
                out.fail(f"{direction}|{key[0]}|{flag}", detail)
        else:
            out.fail(f"{direction}|{key[0]}|unexplained:flavor={e['flavor']},name={e['name_vis']}", detail)

    must_not = len(uni) - len(e0) + sum(1 for b in desc["bindings"].values() if b[0] in ("stdlib", "module") or b[1].startswith("helper:"))
    out.nontrivial = len(e0) >= 3 and must_not >= 1
    out.key = [h12(model), setting, case["ign_methods"], case["ign_modules"]]
    out.sample = {"sut": desc["sut"], "vis": setting, "ign_methods": ign_methods, "ign_modules": ign_modules,
                  "expected": sorted(f"{k}:{q}" for k, q in e0)[:12]}
    labs = {f"vis:{setting}"}
    for e in uni.values():
        labs.add(f"{e['kind']}:{e['flavor']}")
        labs.add(f"name:{e['name_vis']}")
        if e["owner"] != "module":
            labs.add(f"class-name:{e['owner_vis']}")
    if ign_methods:
        labs.add("cfg:ignore_methods")
    if ign_modules:
        labs.add("cfg:ignore_modules")
    if nested:
        labs.add("shape:nested-class")
    if any(b[1].startswith("helper:") for b in desc["bindings"].values()):
        labs.add("shape:helper-reexport")
    if any(b[0] == "stdlib" for b in desc["bindings"].values()):
        labs.add("shape:stdlib-import")
    if any(len(c["bases"]) > 1 for c in desc["classes"].values()):
        labs.add("shape:multiple-inheritance")
    if any(c["abstract"] for c in desc["classes"].values() if c["mod"] == "sut"):
        labs.add("shape:abstract-class")
    out.labels = sorted(labs)
    return out
