"""C14 — ranking and selection operators honour their contracts.

Two generated inputs per case:

* a *fitness matrix* (population 1..64 x goals 0..12, values from a small set so that ties are frequent, a few exact
  clones) turned into real ``TestCaseChromosome``s (distinct test-case code per distinct row, drawn lengths) with
  table-driven fitness functions; ``RankBasedPreferenceSorting``, ``DominanceComparator`` and
  ``fast_epsilon_dominance_assignment`` are compared with an independent O(n^2) Pareto computation;
* a *rank-selection query* (bias, population size, random draws incl. 0.0 and the largest float below 1.0) answered by the
  real ``RankSelection.get_index`` with ``randomness.next_float`` scripted; index range, monotonicity in the draw and the
  widths of the draw-intervals per index (bisection on the real function) are checked.
"""

from __future__ import annotations

import math
from typing import Any

from hypothesis import strategies as st

from vf.core import Outcome

PROPERTY = "C14"
META = {
    "title": "Ranking and selection operators honour their contracts",
    "technique": "property-based testing: Hypothesis-drawn fitness matrices / biases / scripted random draws vs an independent "
                 "O(n^2) Pareto computation and interval-width measurement by bisection on the real selection function",
    "design_ref": "DESIGN.md §3 C14",
    "rule": "case = fitness matrix (n in 1..64 individuals x 0..12 ranked goals + 0..3 carried-but-unranked fitness functions, values from {0,.25,.5,1,1.5,2,3} plus drawn finite floats, "
            "<= 3 clones, lengths 0..3, configured population size around the front sizes, scripted tie-break draws) + selection query "
            "(bias from [1,2] u (2,4] incl. 1.0, next-after-1.0, 2.0; n in 1..64; draws incl. 0.0 and 1-2^-53); non-trivial = the "
            "matrix has >= 2 goals, >= 3 individuals, a tie on some goal minimum and >= 2 fronts, or an empty goal set with >= 3 individuals; distinct by the whole case",
    "assumptions": [
        "rank_bias has no documented range in configuration.py ('Bias for better individuals in rank selection'); the domain used is "
        "the one named by the property: [1.0, 2.0] and above (here up to 4.0). 1.0 is the no-pressure end of linear ranking",
        "chromosomes that compare equal (same test-case code) are interchangeable: fronts are compared as multisets of row ids",
        "the preference criterion's length tie-break is reported as a statistic, not enforced",
        "next_float() is uniform on [0,1): draws are scripted from that interval only",
    ],
    "level_text": "Generated populations and selection queries against an independent Pareto computation, range/monotonicity/width "
                  "relations. Exploration, not proof.",
    "level_note": "Trusted: ComputationCache as the fitness lookup (table-driven fitness functions); width tolerance 1e-7 on the draw axis.",
}
PLAN = {
    "quick": {"shards": 12, "examples": 3000},
    "thorough": {"shards": 16, "examples": 150000, "timeout": 3000},
}

FIT = [0.0, 0.25, 0.5, 1.0, 1.5, 2.0, 3.0]
ONE_MINUS = 1.0 - 2.0 ** -53  # the largest value random() can return
EDGE_R = [0.0, 5e-324, 2.0 ** -53, 0.25, 0.5, 0.75, 1.0 - 2.0 ** -52, ONE_MINUS]
EDGE_BIAS = [1.0, math.nextafter(1.0, 2.0), 1.0 + 1e-15, 1.0 + 1e-12, 1.0 + 1e-9, 1.0 + 1e-7, 1.000001, 1.0001, 1.01, 1.2, 1.5, 1.68, 1.7, 1.99,
             math.nextafter(2.0, 1.0), 2.0, math.nextafter(2.0, 3.0), 2.5, 3.0, 4.0]
NEAR_ONE = 1.0 + 1e-6  # biases in (1, NEAR_ONE) form their own class (cancellation regime of the closed formula)
WIDTH_TOL = 1e-7


def strategy(ctx) -> st.SearchStrategy:
    value = st.one_of(st.integers(0, len(FIT) - 1), st.integers(0, len(FIT) - 1),
                      st.floats(0.0, 8.0, allow_nan=False, allow_infinity=False, allow_subnormal=False))
    row = st.lists(value, min_size=12, max_size=12)
    n = st.sampled_from([1, 2, 2, 3, 3, 4, 5, 6, 7, 8, 10, 12, 16, 24, 32, 48, 64])
    matrix = n.flatmap(lambda k: st.lists(row, min_size=k, max_size=k))
    bias = st.one_of(st.sampled_from(EDGE_BIAS), st.floats(1.0, 2.0), st.floats(2.0, 4.0, exclude_min=True),
                     st.floats(1.0, 1.0 + 1e-8))
    draw = st.one_of(st.sampled_from(EDGE_R), st.floats(0.0, ONE_MINUS))
    return st.fixed_dictionaries({
        "rank": st.fixed_dictionaries({
            "goals": st.sampled_from([0, 0, 1, 1, 2, 2, 3, 3, 4, 5, 6, 8, 10, 12]),
            "carried": st.integers(0, 3),  # fitness functions the individuals carry that are not among the ranked goals
            "rows": matrix,
            "lens": st.lists(st.integers(0, 3), min_size=8, max_size=8),
            "clones": st.lists(st.integers(0, 63), max_size=3),
            "pop_delta": st.integers(-3, 3),
            "pop_mode": st.sampled_from(["around-front0", "around-front0", "n", "1", "big"]),
            "coins": st.lists(st.floats(0.0, ONE_MINUS), min_size=1, max_size=8),
        }),
        "sel": st.fixed_dictionaries({
            "bias": bias,
            "n": st.sampled_from([1, 2, 3, 4, 5, 7, 10, 20, 50, 64]),
            "draws": st.lists(draw, min_size=1, max_size=10),
        }),
    })


# ---------------------------------------------------------------------------------------------------- harness helpers
class _Scripted:
    """Replaces ``randomness.next_float`` (and thereby ``next_bool``) by a cyclic script of drawn values."""

    def __init__(self, values: list[float]) -> None:
        self.values = values
        self.i = 0
        self.calls = 0

    def __call__(self, lower_bound: float = 0, upper_bound: float = 1) -> float:
        v = self.values[self.i % len(self.values)]
        self.i += 1
        self.calls += 1
        return lower_bound + (upper_bound - lower_bound) * v

    def __enter__(self) -> _Scripted:
        from pynguin.utils import randomness

        self._orig = randomness.next_float
        randomness.next_float = self
        return self

    def __exit__(self, *exc: object) -> None:
        from pynguin.utils import randomness

        randomness.next_float = self._orig


_STMT_CACHE: dict[str, Any] = {}


def _stmt(src: str) -> Any:
    import libcst as cst
    from pynguin.testcase.testcase import Statement

    node = _STMT_CACHE.get(src)
    if node is None:
        node = _STMT_CACHE[src] = cst.parse_statement(src)
    return Statement(node=node, bound_variable=src.split(" ")[0], bound_type=int)


def _make_population(rows: list[list[float]], lens: list[int], ids: list[int]) -> tuple[list[Any], list[Any]]:
    """Real TestCaseChromosomes; individual k shows row ``ids[k]`` (clones share id, code and therefore equality)."""
    import pynguin.ga.computations as ff
    import pynguin.ga.testcasechromosome as tcc
    from pynguin.testcase.testcase import TestCase

    class TableFitness(ff.FitnessFunction):
        def __init__(self, column: int) -> None:
            self.column = column

        def compute_fitness(self, individual: Any) -> float:
            return individual.vf_row[self.column]

        def compute_is_covered(self, individual: Any) -> bool:
            return individual.vf_row[self.column] == 0.0

        def is_maximisation_function(self) -> bool:
            return False

        def __repr__(self) -> str:
            return f"goal{self.column}"

    goals = [TableFitness(j) for j in range(len(rows[0]))]
    pop = []
    for k, uid in enumerate(ids):
        tc = TestCase()
        # every individual has one identifying statement (distinct code <=> distinct row id) + lens[uid] more
        for s in range(1 + lens[uid % len(lens)]):
            tc.add_statement(_stmt(f"var_{s} = {uid * 10 + s}"))
        c = tcc.TestCaseChromosome(tc)
        c.vf_row = rows[uid]
        c.vf_id = uid
        c.vf_pos = k
        for g in goals:
            c.add_fitness_function(g)
        pop.append(c)
    return pop, goals


def _dominates(a: list[float], b: list[float], g: int | None = None) -> bool:
    """Pareto dominance w.r.t. the first ``g`` columns (the ranked goals); nobody dominates w.r.t. the empty set."""
    a, b = (a, b) if g is None else (a[:g], b[:g])
    return all(x <= y for x, y in zip(a, b)) and any(x < y for x, y in zip(a, b))


def _bias_class(b: float) -> str:
    if b == 1.0:
        return "bias=1"
    if b < NEAR_ONE:
        return "bias-near-1"
    if b <= 2.0:
        return "bias(1,2]"
    return "bias>2"


# ------------------------------------------------------------------------------------------------------------ evaluate
def evaluate(case: dict[str, Any]) -> Outcome:
    out = Outcome()
    _check_ranking(case["rank"], out)
    _check_selection(case["sel"], out)
    return out


def _check_ranking(rc: dict[str, Any], out: Outcome) -> None:
    import pynguin.configuration as config
    from pynguin.ga.operators.comparator import DominanceComparator
    from pynguin.ga.operators.ranking import RankBasedPreferenceSorting, fast_epsilon_dominance_assignment
    from pynguin.utils.orderedset import OrderedSet

    g = rc["goals"]
    width = max(1, min(12, g + rc.get("carried", 0)))  # columns >= g are covered goals: carried by the individuals, not ranked
    rows = [[FIT[v] if isinstance(v, int) else float(v) for v in r[:width]] for r in rc["rows"]]
    n0 = len(rows)
    ids = list(range(n0)) + [c % n0 for c in rc["clones"]]
    n = len(ids)
    has_clones = n > n0

    def fresh() -> tuple[list[Any], Any]:
        pop, goals = _make_population(rows, rc["lens"], ids)
        return pop, OrderedSet(goals[:g])

    # ---- DominanceComparator vs the Pareto definition (all ordered pairs, bounded)
    pop, goals = fresh()
    cmp = DominanceComparator(goals=goals)
    lim = min(n, 12)
    for i in range(lim):
        for j in range(lim):
            want = -1 if _dominates(pop[i].vf_row, pop[j].vf_row, g) else (1 if _dominates(pop[j].vf_row, pop[i].vf_row, g) else 0)
            got = cmp.compare(pop[i], pop[j])
            if got != want:
                out.fail(f"DominanceComparator.compare|{'no-goals' if g == 0 else 'goals'}|expected:{want}|got:{got}",
                         f"{pop[i].vf_row} vs {pop[j].vf_row} w.r.t. the first {g} columns")
                break

    # ---- ranking: first learn the size of front 0 for the drawn coin script (a dry run with a huge population setting),
    # then place the configured population size around it
    saved = config.configuration.search_algorithm.population
    try:
        config.configuration.search_algorithm.population = 10 ** 6
        with _Scripted(rc["coins"]):
            dry = RankBasedPreferenceSorting().compute_ranking_assignment(pop, goals)
        z = len(dry.get_sub_front(0))
        mode = rc["pop_mode"]
        population = {"around-front0": max(1, z + rc["pop_delta"]), "n": max(1, n + rc["pop_delta"]), "1": 1, "big": n + 5}[mode]
        pop, goals = fresh()
        config.configuration.search_algorithm.population = population
        with _Scripted(rc["coins"]) as script:
            ranked = RankBasedPreferenceSorting().compute_ranking_assignment(pop, goals)
    finally:
        config.configuration.search_algorithm.population = saved
    fronts = ranked.fronts
    if fronts is None or not fronts:
        out.fail("ranking|no-fronts-for-non-empty-population|-", f"n={n}")
        return
    front0 = fronts[0]
    # (a) front 0 holds a best individual per goal
    for j in range(g):
        best = min(r[j] for r in (pop[k].vf_row for k in range(n)))
        if not any(c.vf_row[j] == best for c in front0):
            out.fail("ranking|front0-lacks-best-individual-for-a-goal|-", f"goal {j}: min {best}, front0 rows {[c.vf_row for c in front0]}")
            break
    shortest_ok = all(
        any(c.vf_row[j] == min(p.vf_row[j] for p in pop) and
            c.length() == min(p.length() for p in pop if p.vf_row[j] == c.vf_row[j]) for c in front0)
        for j in range(g))
    out.labels.append("stat:front0-best-is-also-shortest" if shortest_ok else "stat:front0-best-not-shortest")
    if len({id(c) for c in front0}) != len(front0):
        out.fail("ranking|front0-contains-an-individual-twice|-", "")
    incremental = len(front0) < population
    out.labels.append("branch:incremental" if incremental else "branch:lumped")
    # everything returned must come from the given population
    given = {id(c) for c in pop}
    if any(id(c) not in given for f in fronts for c in f):
        out.fail("ranking|front-contains-foreign-individual|-", "")
        return

    def ms(cs: Any) -> list[int]:
        return sorted(c.vf_id for c in cs)

    remaining = list(ids)
    for c in front0:
        if c.vf_id in remaining:
            remaining.remove(c.vf_id)
        else:
            out.fail("ranking|front0-exceeds-population-multiset|-", "")
    if incremental:
        ranked_count = len(front0)
        for k in range(1, len(fronts)):
            if not remaining:
                out.fail("ranking|front-built-from-nothing|-", f"front {k}")
                break
            want = sorted(u for u in remaining if not any(_dominates(rows[v], rows[u], g) for v in remaining))
            got = ms(fronts[k])
            if got != want:
                kind = "missing" if set(want) - set(got) else ("extra" if set(got) - set(want) else "multiplicity")
                out.fail(f"ranking|later-front-differs-from-pareto-set|{kind}{'|clones' if has_clones else ''}{'|no-goals' if g == 0 else ''}",
                         f"front {k}: got ids {got}, pareto set of unranked {want}; rows {rows}; ids {ids}")
                break
            for u in got:
                remaining.remove(u)
            ranked_count += len(got)
            if not has_clones and any(c.rank != k for c in fronts[k]):
                out.fail("ranking|rank-attribute-differs-from-front-index|later-front", f"front {k}: {[c.rank for c in fronts[k]]}")
        else:
            if remaining and ranked_count < population:
                out.fail("ranking|stopped-before-population-was-filled|-", f"ranked {ranked_count} < population {population}, unranked {remaining}")
    else:
        if len(fronts) != 2:
            out.fail("ranking|lumped-branch-front-count|-", f"{len(fronts)} fronts")
        else:
            if ms(fronts[1]) != sorted(remaining):
                out.fail(f"ranking|lumped-front-is-not-the-rest|{'clones' if has_clones else '-'}", f"got {ms(fronts[1])}, rest {sorted(remaining)}")
            elif not has_clones and any(c.rank != 1 for c in fronts[1]):
                out.fail("ranking|rank-attribute-differs-from-front-index|lumped", "")
    if not has_clones and any(c.rank != 0 for c in front0):
        out.fail("ranking|rank-attribute-differs-from-front-index|front0", f"{[c.rank for c in front0]}")
    if not has_clones:
        seen: set[int] = set()
        for f in fronts:
            for c in f:
                if id(c) in seen:
                    out.fail("ranking|fronts-not-disjoint|-", f"row id {c.vf_id}")
                seen.add(id(c))

    # ---- crowding distance on every front (as MOSA does) and on the whole population
    for which, front in [("front", f) for f in fronts if f] + [("population", list(pop))]:
        fast_epsilon_dominance_assignment(front, goals)
        bad = [c.distance for c in front if not (isinstance(c.distance, (int, float)) and 0 <= c.distance < 1)]
        if bad:
            out.fail(f"fast_epsilon_dominance_assignment|distance-outside-[0,1)|{which}", f"{bad[:3]} in a front of {len(front)}")
            break

    tie = any(sum(1 for r in rows if r[j] == min(x[j] for x in rows)) >= 2 for j in range(g))
    out.nontrivial = (g >= 2 and n >= 3 and tie and len([f for f in fronts if f]) >= 2) or (g == 0 and n >= 3 and width >= 2)
    out.labels.append("goals:0" if g == 0 else "goals:1" if g == 1 else "goals:2+")
    if width > g:
        out.labels.append("class:carries-unranked-fitness-functions")
    if tie:
        out.labels.append("class:tie-on-goal-minimum")
    if script.calls:
        out.labels.append("class:coin-consulted")
    if has_clones:
        out.labels.append("class:clones")
    out.labels.append(f"fronts:{min(len(fronts), 5)}{'+' if len(fronts) > 5 else ''}")
    out.labels.append("n:" + ("1" if n == 1 else "2-8" if n <= 8 else "9-32" if n <= 32 else "33+"))


def _check_selection(sc: dict[str, Any], out: Outcome) -> None:
    from pynguin.ga.operators.selection import RankSelection

    bias, n = float(sc["bias"]), sc["n"]
    bcls = _bias_class(bias)
    out.labels.append(bcls)
    selection = RankSelection(bias=bias)
    population = list(range(n))  # get_index only uses len(); select() indexes into it

    def index_at(r: float) -> int:
        with _Scripted([r]):
            return selection.get_index(population)

    draws = sorted(set(sc["draws"]) | {0.0, ONE_MINUS})
    prev: int | None = None
    usable = True
    for r in draws:
        rcls = "r=0" if r == 0.0 else "r=max" if r == ONE_MINUS else "r-inner"
        try:
            i = index_at(r)
        except (ZeroDivisionError, ValueError, OverflowError, ArithmeticError) as exc:
            out.fail(f"RankSelection.get_index|{bcls}|raises:{type(exc).__name__}", f"bias={bias!r} n={n} r={r!r}: {exc}")
            usable = False
            break
        if not isinstance(i, int) or not 0 <= i < n:
            out.fail(f"RankSelection.get_index|{bcls}|index-out-of-range:{'negative' if isinstance(i, int) and i < 0 else 'too-large'}",
                     f"bias={bias!r} n={n} r={r!r} ({rcls}): index {i!r}")
            usable = False
            break
        if prev is not None and i < prev:
            out.fail(f"RankSelection.get_index|{bcls}|not-monotone-in-draw", f"bias={bias!r} n={n}: r={r!r} -> {i} after {prev}")
            usable = False
            break
        prev = i
    if not usable or n == 1:
        return
    # widths of the draw-intervals per index, thresholds by bisection on the real function
    try:
        top = index_at(ONE_MINUS)
        thresholds = [0.0]
        for i in range(1, top + 1):
            lo, hi = thresholds[-1], ONE_MINUS  # index(lo) < i or lo is the previous threshold; index(hi) >= i
            if index_at(lo) >= i:
                thresholds.append(lo)
                continue
            for _ in range(60):
                mid = (lo + hi) / 2.0
                if mid in (lo, hi):
                    break
                if index_at(mid) >= i:
                    hi = mid
                else:
                    lo = mid
            thresholds.append(hi)
        thresholds.append(1.0)
    except (ZeroDivisionError, ValueError, OverflowError, IndexError) as exc:
        out.fail(f"RankSelection.get_index|{bcls}|raises-during-bisection:{type(exc).__name__}", f"bias={bias!r} n={n}: {exc}")
        return
    widths = [thresholds[i + 1] - thresholds[i] for i in range(top + 1)] + [0.0] * (n - 1 - top)
    for i in range(n - 1):
        if widths[i + 1] > widths[i] + WIDTH_TOL:
            out.fail(f"RankSelection.get_index|{bcls}|worse-rank-more-likely-than-better-rank",
                     f"bias={bias!r} n={n}: P(index {i}) = {widths[i]!r} < P(index {i + 1}) = {widths[i + 1]!r}")
            break
    if top < n - 1:
        out.labels.append("class:tail-never-selected")
