"""C06 — control-dependence graphs match the post-dominance definition.

Domain: (1) every code object (recursively through ``co_consts``) of a corpus of small pure-Python
stdlib modules compiled from source, enumerated completely; (2) programs rendered from a
Hypothesis-drawn statement tree (nested if/elif/else, while/for with break/continue/else, infinite
loops, try/except/else/finally, with, match, early return, raise, yield inside conditionals,
comprehensions, generator expressions, nested (async) defs, boolean operators); (3) programs of the
shared generator ``vf.gen.pygen`` when that module is importable.

Oracle (vf/oracle/pdom.py, no networkx, no dominator tree): structural CFG invariants, naive iterative
post-dominator *sets*, Ferrante control dependence with label *sets*, compared with
``ControlDependenceGraph.compute(cfg)``, ``get_control_dependencies`` and
``is_control_dependent_on_root``.  The generated code is only compiled, never executed.
"""

from __future__ import annotations

import importlib.util
import os
from types import CodeType
from typing import Any

from hypothesis import strategies as st

from vf.core import Outcome
from vf.oracle import pdom

PROPERTY = "C06"
META = {
    "title": "Control-dependence graphs match the post-dominance definition",
    "technique": "property-based differential testing: generated programs + stdlib code objects; pynguin's CFG/CDG vs. an "
                 "independent naive post-dominator-set / Ferrante control-dependence computation",
    "design_ref": "DESIGN.md §3 C06",
    "rule": "case = one code object of the stdlib corpus (complete enumeration, split over shards) or one program rendered from a "
            "drawn statement tree (<= ~30 statements, depth <= 4: if/elif/else, while/for + break/continue/else, while True, "
            "try/except/else/finally, with, match, return/raise, yield, comprehensions, nested/async defs, and/or/not/ternary); "
            "every code object of the compiled program is checked; non-trivial = some code object with >= 2 conditional "
            "nodes in its CFG; distinct by (module, code-object index) resp. by the drawn tree",
    "assumptions": ["the CFG (nodes, edges, branch_value labels) built by CFG.from_bytecode is taken as the graph on which "
                    "control dependence is defined; only its structural invariants are checked here (branch labels vs. "
                    "executed outcomes are C03)",
                    "the bytecode library's basic-block splitting is trusted"],
    "level_text": "Every CFG/CDG of ~500 stdlib code objects plus generated programs with widely varying control flow, compared "
                  "edge by edge and label by label with an independent definitional computation. Exploration, not proof.",
    "level_note": "Trusted: vf/oracle/pdom.py (120 lines, data-flow equations straight from the definition).",
}
PLAN = {
    "quick": {"shards": 8, "examples": 640, "size": 26, "stdlib": "small"},
    "thorough": {"shards": 16, "examples": 24000, "size": 34, "stdlib": "large", "timeout": 3000},
}

STDLIB_SMALL = ["bisect", "heapq", "colorsys", "graphlib", "fnmatch", "shlex", "textwrap", "sched", "reprlib",
                "json.decoder", "json.encoder", "json.scanner", "string", "base64", "netrc", "copy", "queue", "keyword",
                "operator", "abc", "contextlib", "functools", "glob", "quopri", "stat", "types", "weakref", "numbers",
                "linecache", "tokenize", "getopt", "gettext", "cmd", "code", "codeop", "dis", "pprint", "statistics"]
STDLIB_LARGE = STDLIB_SMALL + ["argparse", "ast", "asyncio.queues", "asyncio.locks", "asyncio.tasks", "calendar", "collections",
                               "configparser", "csv", "dataclasses", "datetime", "difflib", "enum", "fractions", "ftplib",
                               "inspect", "ipaddress", "logging", "mailbox", "optparse", "pathlib", "pickle", "random",
                               "shutil", "smtplib", "socket", "tarfile", "tempfile", "threading", "typing", "urllib.parse",
                               "uuid", "zipfile", "email.message", "email._header_value_parser", "http.client", "xml.dom.minidom"]

_CODES: dict[str, list[CodeType]] = {}


def _walk_codes(code: CodeType, acc: list[CodeType]) -> None:
    acc.append(code)
    for c in code.co_consts:
        if isinstance(c, CodeType):
            _walk_codes(c, acc)


def _module_codes(name: str) -> list[CodeType]:
    if name not in _CODES:
        acc: list[CodeType] = []
        spec = importlib.util.find_spec(name)
        if spec is not None and spec.origin and spec.origin.endswith(".py"):
            with open(spec.origin, "rb") as fh:
                src = fh.read()
            _walk_codes(compile(src, f"<vf-corpus:{name}>", "exec", dont_inherit=True), acc)
        _CODES[name] = acc
    return _CODES[name]


# --------------------------------------------------------------------------------------- generator
SIMPLE = ["assign", "aug", "call", "assert", "ternary", "boolop", "listcomp", "dictcomp", "genexp", "lambda", "pass", "del"]
COMPOUND = ["if", "if", "if", "while", "while", "for", "for", "try", "try", "with", "match", "def"]
CMP = ["<", "<=", "==", "!=", ">", ">=", "is", "is not", "in", "not in"]
EXC = ["ValueError", "KeyError", "(TypeError, OSError)", "Exception", None]
PATTERNS = ["int", "str", "seq2", "seqstar", "map", "cls", "or", "capture-guard", "wild-guard", "none"]
NAMES = ["p0", "p1", "p2", "p3"]


def _cond(draw, depth: int) -> Any:
    kinds = ["name", "cmp", "isnone", "call"]
    if depth > 0:
        kinds += ["not", "and", "or", "and", "or", "chain", "ifexp", "walrus"]
    k = draw(st.sampled_from(kinds))
    n = st.integers(0, 3)
    if k == "name":
        return ["name", draw(n)]
    if k == "cmp":
        return ["cmp", draw(st.integers(0, len(CMP) - 1)), draw(n), draw(n)]
    if k == "isnone":
        return ["isnone", draw(n), draw(st.booleans())]
    if k == "call":
        return ["call", draw(n)]
    if k == "not":
        return ["not", _cond(draw, depth - 1)]
    if k in ("and", "or"):
        return [k, [_cond(draw, depth - 1) for _ in range(draw(st.integers(2, 3)))]]
    if k == "chain":
        return ["chain", draw(n), draw(n), draw(n)]
    if k == "walrus":
        return ["walrus", draw(n)]
    return ["ifexp", _cond(draw, depth - 1), _cond(draw, depth - 1), _cond(draw, depth - 1)]


def _block(draw, st_: dict, depth: int, loop: bool, fn: str, min_size: int = 1) -> list:
    """fn: 'mod' (module level), 'def', 'gen' (yield allowed and used), 'async'."""
    n = draw(st.integers(min_size, 4))
    out = []
    for _ in range(n):
        out.append(_stmt(draw, st_, depth, loop, fn))
        if st_["left"] <= 0:
            break
    return out


def _stmt(draw, st_: dict, depth: int, loop: bool, fn: str) -> Any:
    st_["left"] -= 1
    groups = ["simple", "jump"]
    if depth > 0 and st_["left"] > 0:
        groups += ["compound"] * 4
    g = draw(st.sampled_from(groups))
    if g == "simple":
        k = draw(st.sampled_from(SIMPLE))
        if k in ("assert", "ternary", "boolop", "listcomp", "dictcomp", "genexp", "lambda"):
            return {"k": k, "c": _cond(draw, 1)}
        return {"k": k}
    if g == "jump":
        allowed = ["raise"]
        if fn != "mod":
            allowed += ["return", "return"]
        if loop:
            allowed += ["break", "continue", "break", "continue"]
        if fn == "gen":
            allowed += ["yield", "yield", "yield", "yieldfrom"]
        if fn == "async":
            allowed += ["await", "await", "yield"]
        k = draw(st.sampled_from(allowed))
        if k in ("return", "raise", "yield"):
            return {"k": k, "v": draw(st.integers(0, 3))}
        return {"k": k}
    k = draw(st.sampled_from(COMPOUND))
    d = depth - 1
    if k == "if":
        node = {"k": "if", "c": _cond(draw, 2), "b": _block(draw, st_, d, loop, fn), "elifs": [], "o": []}
        for _ in range(draw(st.integers(0, 2))):
            node["elifs"].append([_cond(draw, 1), _block(draw, st_, d, loop, fn)])
        if draw(st.booleans()):
            node["o"] = _block(draw, st_, d, loop, fn)
        return node
    if k == "while":
        c = draw(st.sampled_from(["cond", "cond", "true"]))
        node = {"k": "while", "c": ["true"] if c == "true" else _cond(draw, 2), "b": _block(draw, st_, d, True, fn), "o": []}
        if draw(st.integers(0, 3)) == 0:
            node["o"] = _block(draw, st_, d, loop, fn)
        return node
    if k == "for":
        node = {"k": "for", "it": draw(st.sampled_from(["name", "range", "items"])), "b": _block(draw, st_, d, True, fn), "o": [],
                "async": fn == "async" and draw(st.booleans())}
        if draw(st.integers(0, 3)) == 0:
            node["o"] = _block(draw, st_, d, loop, fn)
        return node
    if k == "try":
        nh = draw(st.integers(0, 2))
        handlers = []
        for i in range(nh):
            handlers.append([draw(st.integers(0, len(EXC) - 1)), draw(st.booleans()), _block(draw, st_, d, loop, fn)])
        node = {"k": "try", "b": _block(draw, st_, d, loop, fn), "h": handlers, "o": [], "f": []}
        if nh and draw(st.integers(0, 2)) == 0:
            node["o"] = _block(draw, st_, d, loop, fn)
        if nh == 0 or draw(st.integers(0, 2)) == 0:
            node["f"] = _block(draw, st_, d, loop, fn)
        return node
    if k == "with":
        return {"k": "with", "n": draw(st.integers(1, 2)), "as": draw(st.booleans()), "b": _block(draw, st_, d, loop, fn),
                "async": fn == "async" and draw(st.booleans())}
    if k == "match":
        cases = []
        for _ in range(draw(st.integers(1, 3))):
            cases.append([draw(st.integers(0, len(PATTERNS) - 1)), _cond(draw, 1), _block(draw, st_, d, loop, fn)])
        node = {"k": "match", "cases": cases, "wild": None}
        if draw(st.booleans()):
            node["wild"] = _block(draw, st_, d, loop, fn)
        return node
    kind = draw(st.sampled_from(["def", "gen", "gen", "async"]))
    return {"k": "def", "fn": kind, "b": _block(draw, st_, d, False, kind, min_size=2)}


@st.composite
def _program(draw, size: int) -> dict:
    st_ = {"left": draw(st.integers(6, size))}
    kind = draw(st.sampled_from(["def", "def", "gen", "gen", "async"]))
    body = _block(draw, st_, 4, False, kind, min_size=2)
    top: list = []
    if draw(st.integers(0, 4)) == 0:
        st_["left"] = 6
        top = _block(draw, st_, 2, False, "mod")
    return {"kind": "gen", "fn": kind, "body": body, "top": top}


# ---------------------------------------------------------------------------------------- renderer
def _r_cond(c: Any) -> str:
    k = c[0]
    nm = lambda i: NAMES[i % 4]  # noqa: E731
    if k == "name":
        return nm(c[1])
    if k == "true":
        return "True"
    if k == "cmp":
        return f"{nm(c[2])} {CMP[c[1] % len(CMP)]} {nm(c[3])}"
    if k == "isnone":
        return f"{nm(c[1])} is {'not ' if c[2] else ''}None"
    if k == "call":
        return f"{nm(c[1])}.check()"
    if k == "not":
        return f"(not {_r_cond(c[1])})"
    if k in ("and", "or"):
        return "(" + f" {k} ".join(_r_cond(x) for x in c[1]) + ")"
    if k == "chain":
        return f"({nm(c[1])} < {nm(c[2])} <= {nm(c[3])})"
    if k == "walrus":
        return f"(w := {nm(c[1])}.get())"
    if k == "ifexp":
        return f"({_r_cond(c[2])} if {_r_cond(c[1])} else {_r_cond(c[3])})"
    raise AssertionError(k)


class _Renderer:
    def __init__(self) -> None:
        self.lines: list[str] = []
        self.counter = 0
        self.used: set[str] = set()

    def emit(self, ind: int, text: str) -> None:
        self.lines.append("    " * ind + text)

    def block(self, stmts: list, ind: int, loop: bool, fn: str) -> None:
        if not stmts:
            self.emit(ind, "pass")
        for s in stmts:
            self.stmt(s, ind, loop, fn)

    def stmt(self, s: dict, ind: int, loop: bool, fn: str) -> None:  # noqa: C901
        k = s["k"]
        self.used.add(k)
        e = self.emit
        if k == "assign":
            e(ind, "v = p0 + 1")
        elif k == "aug":
            e(ind, "p1 += v0")
        elif k == "call":
            e(ind, "p2.touch(p3)")
        elif k == "pass":
            e(ind, "pass")
        elif k == "del":
            e(ind, "del p3[0]")
        elif k == "assert":
            e(ind, f"assert {_r_cond(s['c'])}, p0")
        elif k == "ternary":
            e(ind, f"v = p1 if {_r_cond(s['c'])} else p2")
        elif k == "boolop":
            e(ind, f"v = {_r_cond(s['c'])} or p3")
        elif k == "listcomp":
            e(ind, f"v = [a + 1 for a in p0 if {_r_cond(s['c'])}]")
        elif k == "dictcomp":
            e(ind, f"v = {{a: b for a in p0 for b in a if {_r_cond(s['c'])}}}")
        elif k == "genexp":
            e(ind, f"v = sum(a for a in p1 if {_r_cond(s['c'])})")
        elif k == "lambda":
            e(ind, f"v = lambda q: q if {_r_cond(s['c'])} else p0")
        elif k == "return":
            if fn == "mod":
                e(ind, "pass")
            else:
                # 'return value' is a syntax error in an async generator
                e(ind, "return" if s.get("v", 0) == 0 or fn == "async" else f"return {NAMES[s['v'] % 4]}")
        elif k == "raise":
            v = s.get("v", 0)
            e(ind, ["raise", "raise ValueError(p0)", "raise KeyError(p1) from p2", "raise p3"][v % 4])
        elif k in ("break", "continue"):
            e(ind, k if loop else "pass")
        elif k == "yield":
            if fn in ("gen", "async"):
                e(ind, ["yield", "yield p0", "v = yield p1", "p2 = (yield)"][s.get("v", 0) % 4])
            else:
                e(ind, "pass")
        elif k == "yieldfrom":
            e(ind, "v = yield from p0" if fn == "gen" else "pass")
        elif k == "await":
            e(ind, "v = await p0.fetch()" if fn == "async" else "pass")
        elif k == "if":
            e(ind, f"if {_r_cond(s['c'])}:")
            self.block(s["b"], ind + 1, loop, fn)
            for c, b in s.get("elifs", []):
                e(ind, f"elif {_r_cond(c)}:")
                self.block(b, ind + 1, loop, fn)
            if s.get("o"):
                e(ind, "else:")
                self.block(s["o"], ind + 1, loop, fn)
        elif k == "while":
            e(ind, f"while {_r_cond(s['c'])}:")
            self.block(s["b"], ind + 1, True, fn)
            if s.get("o"):
                e(ind, "else:")
                self.block(s["o"], ind + 1, loop, fn)
        elif k == "for":
            it = {"name": "p0", "range": "range(p1)", "items": "p2.items()"}[s.get("it", "name")]
            tgt = "k, w" if s.get("it") == "items" else "i"
            pre = "async " if (s.get("async") and fn == "async") else ""
            e(ind, f"{pre}for {tgt} in {it}:")
            self.block(s["b"], ind + 1, True, fn)
            if s.get("o"):
                e(ind, "else:")
                self.block(s["o"], ind + 1, loop, fn)
        elif k == "try":
            e(ind, "try:")
            self.block(s["b"], ind + 1, loop, fn)
            hs = list(s.get("h", []))
            # a bare except must come last
            hs.sort(key=lambda h: EXC[h[0] % len(EXC)] is None)
            seen_bare = False
            for ex, as_, b in hs:
                name = EXC[ex % len(EXC)]
                if name is None:
                    if seen_bare:
                        continue
                    seen_bare = True
                    e(ind, "except:")
                else:
                    e(ind, f"except {name}" + (" as err:" if as_ else ":"))
                self.block(b, ind + 1, loop, fn)
            if hs and s.get("o"):
                e(ind, "else:")
                self.block(s["o"], ind + 1, loop, fn)
            if s.get("f") or not hs:
                e(ind, "finally:")
                self.block(s.get("f", []), ind + 1, loop, fn)
        elif k == "with":
            items = ["p0.open()" + (" as fh" if s.get("as") else ""), "p1"][: max(1, s.get("n", 1))]
            pre = "async " if (s.get("async") and fn == "async") else ""
            e(ind, f"{pre}with {', '.join(items)}:")
            self.block(s["b"], ind + 1, loop, fn)
        elif k == "match":
            e(ind, "match p0:")
            for pat, guard, b in s["cases"]:
                p = PATTERNS[pat % len(PATTERNS)]
                text = {"int": "1", "str": "'a'", "seq2": "[x, y]", "seqstar": "[x, *rest]", "map": "{'k': x, **kw}",
                        "cls": "int(x) | str(x)", "or": "1 | 2 | None", "capture-guard": f"x if {_r_cond(guard)}",
                        "wild-guard": f"_ if {_r_cond(guard)}", "none": "None"}[p]
                e(ind + 1, f"case {text}:")
                self.block(b, ind + 2, loop, fn)
            if s.get("wild") is not None:
                e(ind + 1, "case _:")
                self.block(s["wild"], ind + 2, loop, fn)
        elif k == "def":
            self.counter += 1
            kind = s.get("fn", "def")
            e(ind, f"{'async ' if kind == 'async' else ''}def g{self.counter}(p0, p1=None, *p2, **p3):")
            self.block(s["b"], ind + 1, False, kind)
            if kind == "gen":
                e(ind + 1, "yield p0")
        else:
            raise AssertionError(k)


def render(model: dict) -> str:
    r = _Renderer()
    fn = model.get("fn", "def")
    r.emit(0, f"{'async ' if fn == 'async' else ''}def f0(p0, p1, p2, p3):")
    r.block(model["body"], 1, False, fn)
    if fn == "gen":
        r.emit(1, "yield p3")
    if model.get("top"):
        r.block(model["top"], 0, False, "mod")
    return "\n".join(r.lines) + "\n"


# ------------------------------------------------------------------------------------------ oracle
START = "AUGMENTED_ENTRY"


def _node_id(node: Any) -> Any:
    from pynguin.instrumentation.controlflow import BasicBlockNode

    return node.index if isinstance(node, BasicBlockNode) else node.value


def _block_class(cfg: Any, idx: Any, edges: list) -> str:
    """Features of a CFG node, used only to bucket failures."""
    from pynguin.instrumentation import version

    if not isinstance(idx, int):
        return str(idx)
    node = cfg.get_basic_block_node(idx)
    feats = []
    names = [getattr(i, "name", type(i).__name__) for i in node.basic_block]
    if any(nm in version.YIELDING_NAMES for nm in names):
        feats.append("yield")
    labs = [l for a, _, l in edges if a == idx and l is not None]
    if labs:
        feats.append("for" if "FOR_ITER" in names else "cond")
    if any(a == idx and b == "EXIT" and l is None for a, b, l in edges) and "yield" not in feats \
            and len({b for a, b, _ in edges if a == idx}) > 1:
        feats.append("loopexit")
    if "TryBegin" in names:
        feats.append("trybegin")
    return "+".join(feats) or "plain"


def check_code(code: CodeType, out: Outcome, where: str) -> dict[str, Any]:
    """Runs all C06 comparisons on one code object; returns CFG statistics."""
    from bytecode import Bytecode

    from pynguin.instrumentation import version
    from pynguin.instrumentation.controlflow import CFG, ArtificialNode, BasicBlockNode, ControlDependenceGraph

    cfg = CFG.from_bytecode(version.add_for_loop_no_yield_nodes(Bytecode.from_code(code)))
    nodes = [_node_id(n) for n in cfg.graph.nodes]
    edges = [(_node_id(u), _node_id(v), d.get("branch_value")) for u, v, d in cfg.graph.edges(data=True)]
    stats = {"nodes": len(nodes), "cond": len({a for a, _, l in edges if l is not None}),
             "loop": False, "try": False, "yield": False}
    stats["try"] = any(type(i).__name__ == "TryBegin" for n in cfg.basic_block_nodes for i in n.basic_block)
    stats["yield"] = any(getattr(i, "name", "") in version.YIELDING_NAMES for n in cfg.basic_block_nodes for i in n.basic_block)
    if len(set(nodes)) != len(nodes):
        out.fail("cfg|duplicate-node-index", f"{where}: {sorted(map(repr, nodes))}")
        return stats
    problems = pdom.structural_problems(nodes, edges, "ENTRY", "EXIT")
    for kind, detail in problems:
        out.fail(f"cfg|{kind}", f"{where}: {detail}")
    if problems:
        return stats
    succ = pdom.successors(nodes, edges)
    stats["loop"] = any(n in pdom.reachable(s, succ) for n in nodes for s in succ[n])

    expected = pdom.control_dependence(nodes, edges, "ENTRY", "EXIT", START)
    cdg = ControlDependenceGraph.compute(cfg)
    got_nodes = sorted(map(repr, (_node_id(n) for n in cdg.graph.nodes)))
    want_nodes = sorted(map(repr, [START, *[n for n in nodes if n not in ("ENTRY", "EXIT")]]))
    if got_nodes != want_nodes:
        out.fail("cdg|node-set-differs", f"{where}: got {got_nodes}, expected {want_nodes}")
        return stats
    got: dict[tuple[Any, Any], Any] = {}
    for u, v, d in cdg.graph.edges(data=True):
        # one label per edge, or (if the representation offers it) all labels in "branch_values"
        got[_node_id(u), _node_id(v)] = set(d["branch_values"]) if d.get("branch_values") else {d.get("branch_value")}
    multi_sources: dict[Any, str] = {a: _block_class(cfg, a, edges) for (a, _), labs in expected.items() if len(labs) > 1}
    for (a, b), labs in sorted(expected.items(), key=repr):
        cls = _block_class(cfg, a, edges)
        if (a, b) not in got:
            out.fail(f"cdg|edge-missing|{cls}", f"{where}: expected {a!r} -> {b!r} {sorted(map(repr, labs))}; "
                                                f"cdg edges {sorted(map(repr, got.items()))[:40]}")
        elif got[a, b] == labs:
            pass
        elif len(labs) > 1:
            kind = "label-lost" if got[a, b] < labs else "label-wrong"
            out.fail(f"cdg|multi-{kind}|{cls}", f"{where}: {a!r} -> {b!r} is control dependent under {sorted(map(repr, labs))}, "
                                                f"the graph holds {sorted(map(repr, got[a, b]))}")
        else:
            out.fail(f"cdg|label-wrong|{cls}", f"{where}: {a!r} -> {b!r} expected {sorted(map(repr, labs))}, got {sorted(map(repr, got[a, b]))}")
    for (a, b), lab in sorted(got.items(), key=repr):
        if (a, b) not in expected:
            out.fail(f"cdg|edge-extra|{_block_class(cfg, a, edges)}", f"{where}: unexpected {a!r} -> {b!r} [{lab!r}]")

    is_block = lambda n: isinstance(n, int)  # noqa: E731
    preds = pdom.cd_predecessors(expected)
    for node in sorted(cdg.graph.nodes, key=lambda n: repr(_node_id(n))):
        if not isinstance(node, BasicBlockNode):
            continue
        nid = node.index
        want_deps, multi = pdom.direct_dependencies(expected, nid, is_block, preds)
        got_deps = {(d.node.index, d.branch_value) for d in cdg.get_control_dependencies(node)}
        if got_deps != want_deps:
            tag = ("multi|" + "/".join(sorted({multi_sources.get(m, "?") for m in multi}))) if multi else "single-labels"
            out.fail(f"deps|get_control_dependencies|{tag}", f"{where}: node {nid}: got {sorted(got_deps)}, expected {sorted(want_deps)}")
        want_root, multi = pdom.depends_on_root(expected, nid, START, is_block, preds)
        got_root = cdg.is_control_dependent_on_root(node)
        if got_root != want_root:
            tag = ("multi|" + "/".join(sorted({multi_sources.get(m, "?") for m in multi}))) if multi else "single-labels"
            out.fail(f"deps|is_control_dependent_on_root|{tag}", f"{where}: node {nid}: got {got_root}, expected {want_root}")
        if not want_deps and not want_root:
            out.fail("oracle|node-depends-on-nothing", f"{where}: node {nid}")  # impossible by construction of the augmented graph
    assert ArtificialNode.AUGMENTED_ENTRY.value == START
    return stats


# ---------------------------------------------------------------------------------------- interface
def _pygen():
    if os.environ.get("VF_C06_PYGEN", "1") == "0":
        return None
    try:
        from vf.gen import pygen  # type: ignore[attr-defined]
    except Exception:  # noqa: BLE001
        return None
    if not (hasattr(pygen, "module_strategy") and hasattr(pygen, "render")):
        return None
    return pygen


def strategy(ctx) -> st.SearchStrategy:
    size = int(ctx.params.get("size", 26))
    own = _program(size)
    pg = _pygen()
    if pg is not None:
        try:
            other = pg.module_strategy().map(lambda m: {"kind": "pygen", "model": m})
        except Exception:  # noqa: BLE001  (interface of the shared generator not as expected: use our own only)
            return own
        # one case in four comes from the shared generator
        return st.integers(0, 3).flatmap(lambda i: other if i == 0 else own)
    return own


def _codes_of_case(case: dict, out: Outcome) -> list[tuple[str, CodeType]]:
    if case["kind"] == "stdlib":
        codes = _module_codes(case["module"])
        c = codes[case["index"]]
        return [(f"{case['module']}:{c.co_qualname}", c)]
    if case["kind"] == "pygen":
        pg = _pygen()
        if pg is None:
            out.inconclusive = "pygen-not-available"
            return []
        try:
            src = pg.render(case["model"])
            top = compile(src, "<vf-c06-pygen>", "exec", dont_inherit=True)
        except Exception:  # noqa: BLE001
            out.inconclusive = "pygen-render-or-compile-error"
            return []
    else:
        src = render(case)
        try:
            top = compile(src, "<vf-c06-gen>", "exec", dont_inherit=True)
        except SyntaxError as exc:
            out.inconclusive = f"own-generator-syntax-error:{exc.msg}"
            return []
    acc: list[CodeType] = []
    _walk_codes(top, acc)
    return [(c.co_qualname, c) for c in acc]


def evaluate(case: dict) -> Outcome:
    out = Outcome()
    pairs = _codes_of_case(case, out)
    out.evaluations = max(1, len(pairs))
    conds = 0
    for where, code in pairs:
        stats = check_code(code, out, where)
        conds = max(conds, stats["cond"])
        for f in ("loop", "try", "yield"):
            if stats[f]:
                out.labels.append(f"cfg:{f}")
        out.labels.append("cfg:cond>=2" if stats["cond"] >= 2 else "cfg:cond<2")
    out.nontrivial = conds >= 2
    out.labels.append(f"kind:{case['kind']}")
    if case["kind"] == "stdlib":
        out.key = [case["module"], case["index"]]
        out.sample = {"stdlib": pairs[0][0] if pairs else None}
    elif case["kind"] == "gen":
        r = _Renderer()
        r.block(case["body"], 1, False, case.get("fn", "def"))
        out.labels.extend(f"stmt:{k}" for k in sorted(r.used))
        out.sample = {"source": render(case)}
    return out


def shard(ctx) -> None:
    from vf.hyp import guarded, run_cases

    mods = STDLIB_LARGE if ctx.params.get("stdlib") == "large" else STDLIB_SMALL
    ev = guarded(evaluate)
    k = 0
    for name in mods:
        for idx in range(len(_module_codes(name))):
            if k % ctx.nshards == ctx.shard:
                case = {"kind": "stdlib", "module": name, "index": idx}
                ctx.record(case, ev(case))
            k += 1
    per = max(1, int(ctx.params["examples"]) // ctx.nshards)
    run_cases(ctx, strategy(ctx), evaluate, per)
