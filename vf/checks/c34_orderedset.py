"""C34 — ordered sets behave as insertion-ordered sets and sequences.

Histories are drawn as operation lists (model-based): every operation is applied to the real
``OrderedSet`` / ``FrozenOrderedSet`` and to a reference model (insertion-ordered ``list`` without
duplicates + Python ``set`` semantics written independently of the implementation), and the two are
compared after every step.
"""

from __future__ import annotations

from typing import Any

from hypothesis import strategies as st

from vf.core import Outcome

PROPERTY = "C34"
META = {
    "title": "Ordered sets behave as insertion-ordered sets and sequences",
    "technique": "model-based property testing: Hypothesis-drawn operation histories vs. reference model (ordered list + set semantics)",
    "design_ref": "DESIGN.md §3 C34",
    "rule": "case = initial contents + 1..30 operations over OrderedSet/FrozenOrderedSet with arguments given as list/tuple/set/"
            "frozenset/dict/one-shot iterator/generator/ordered set; non-trivial = history reaches >= 3 elements and uses a one-shot "
            "iterable or a negative index or a multi-argument set operation or continues with a set derived earlier (freeze/copy/constructor) while the others are re-checked; distinct by the whole history",
    "assumptions": ["element equality/hash are Python's own (ints, bools, floats, strs, tuples, None)",
                    "which of two equal objects (1 vs True) is kept is not constrained"],
    "level_text": "Generated histories against an executable reference model; every public operation of the ordered sets, all "
                  "argument kinds incl. one-shot iterators, indices in [-n-1, n]. Exploration, not proof.",
    "level_note": "Trusted: CPython dict/set semantics used by the reference model; the model itself (60 lines).",
}
PLAN = {
    "quick": {"shards": 8, "examples": 4000},
    "thorough": {"shards": 16, "examples": 200000, "timeout": 3000},
}

ELEMS = [0, 1, 2, 3, 4, 5, 6, True, 1.0, "a", "b", "", (1, 2), None, -1]
KINDS = ["list", "tuple", "set", "frozenset", "dict", "iter", "gen", "oset", "foset", "self"]
elem = st.integers(0, len(ELEMS) - 1)
iterable = st.fixed_dictionaries({"kind": st.sampled_from(KINDS), "items": st.lists(elem, max_size=6)})

MUT_ITER1 = ["update", "intersection_update", "symmetric_difference_update", "ior", "iand", "isub", "ixor"]
MUT_ELEM = ["add", "discard", "remove"]
PURE_ITER1 = ["symmetric_difference", "issubset", "issuperset", "or", "and", "xor", "sub", "isdisjoint", "eq_same"]
PURE_ITERN = ["union", "intersection", "difference"]
PURE_ELEM = ["contains", "index", "count"]


def _op() -> st.SearchStrategy:
    flavour = st.sampled_from(["mutable", "frozen"])
    return st.one_of(
        st.tuples(st.sampled_from(MUT_ELEM), elem),
        st.tuples(st.sampled_from(MUT_ITER1), iterable),
        st.tuples(st.just("difference_update"), st.lists(iterable, max_size=3)),
        st.tuples(st.sampled_from(["pop", "clear"])),
        st.tuples(st.sampled_from(PURE_ITER1), iterable, flavour),
        st.tuples(st.sampled_from(PURE_ITERN), st.lists(iterable, max_size=3), flavour),
        st.tuples(st.sampled_from(PURE_ELEM), elem, flavour),
        st.tuples(st.just("getitem"), st.integers(-9, 9), flavour),
        st.tuples(st.sampled_from(["reversed", "copy", "len", "hash", "repr_roundtrip"]), flavour),
        st.tuples(st.just("keep"), st.sampled_from(["freeze", "copy", "frozen_of_frozen", "mutable_of_frozen", "mutable_of_mutable"])),
        st.tuples(st.just("swap"), st.integers(0, 7)),
    ).map(list)


def strategy(ctx) -> st.SearchStrategy:
    return st.fixed_dictionaries({"init": iterable, "ops": st.lists(_op(), min_size=1, max_size=30)})


def _dedup(xs: list) -> list:
    out: list = []
    for x in xs:
        if x not in out:
            out.append(x)
    return out


def _materialise(spec: dict[str, Any], real=None, model=None):
    """Returns (real argument, the element order in which that argument will be iterated)."""
    from pynguin.utils.orderedset import FrozenOrderedSet, OrderedSet

    items = [ELEMS[i] for i in spec["items"]]
    k = spec["kind"]
    if k == "self":  # the set itself as argument (s.difference_update(s), s | s, ...)
        if real is None:
            return list(items), list(items)
        return real, list(model)
    if k == "list":
        return list(items), list(items)
    if k == "tuple":
        return tuple(items), list(items)
    if k == "set":
        s = set(items)
        return s, list(s)
    if k == "frozenset":
        s = frozenset(items)
        return s, list(s)
    if k == "dict":
        d = dict.fromkeys(items)
        return d, list(d)
    if k == "iter":
        return iter(list(items)), list(items)
    if k == "gen":
        return (x for x in list(items)), list(items)
    if k == "oset":
        return OrderedSet(items), _dedup(items)
    if k == "foset":
        return FrozenOrderedSet(items), _dedup(items)
    raise AssertionError(k)


def evaluate(case: dict[str, Any]) -> Outcome:
    from pynguin.utils.orderedset import FrozenOrderedSet, OrderedSet

    out = Outcome()
    arg, order = _materialise(case["init"])
    real = OrderedSet(arg)
    model: list = _dedup(order)
    if list(real) != model:
        out.fail(f"init|{case['init']['kind']}|wrong-state", f"{list(real)!r} != {model!r}")
        return out
    used_oneshot = used_neg = used_multi = used_alias = False
    max_len = len(model)
    kept: list[tuple[Any, list]] = []  # objects derived earlier + the contents they must keep

    def target(flavour: str):
        return real if flavour == "mutable" else real.freeze()

    for op in case["ops"]:
        name = op[0]
        akind = "-"
        expect_exc: type | None = None
        got_exc: BaseException | None = None
        expected: Any = None
        got: Any = None
        check_result = False
        try:
            if name in MUT_ELEM:
                v = ELEMS[op[1]]
                if name == "add":
                    real.add(v)
                    if v not in model:
                        model.append(v)
                elif name == "discard":
                    real.discard(v)
                    if v in model:
                        model.remove(v)
                else:
                    if v in model:
                        model.remove(v)
                    else:
                        expect_exc = KeyError
                    real.remove(v)
            elif name in MUT_ITER1:
                akind = op[1]["kind"]
                used_oneshot |= akind in ("iter", "gen")
                a, order = _materialise(op[1], real, model)
                oset = set(order)
                if name in ("update", "ior"):
                    new = model + [x for x in order if x not in model]
                elif name in ("intersection_update", "iand"):
                    new = [x for x in model if x in oset]
                elif name == "isub":
                    new = [x for x in model if x not in oset]
                else:  # symmetric difference: self order, then other's order
                    new = [x for x in model if x not in oset] + [x for x in _dedup(order) if x not in model]
                model = _dedup(new)
                if name == "update":
                    real.update(a)
                elif name == "intersection_update":
                    real.intersection_update(a)
                elif name == "symmetric_difference_update":
                    real.symmetric_difference_update(a)
                elif name == "ior":
                    real |= a
                elif name == "iand":
                    real &= a
                elif name == "isub":
                    real -= a
                else:
                    real ^= a
            elif name == "difference_update":
                mats = [_materialise(s, real, model) for s in op[1]]
                akind = f"{len(op[1])}-iterables"
                used_oneshot |= any(s["kind"] in ("iter", "gen") for s in op[1])
                used_multi |= len(op[1]) >= 2
                rem = set()
                for _, o in mats:
                    rem |= set(o)
                model = [x for x in model if x not in rem]
                real.difference_update(*[m[0] for m in mats])
            elif name == "pop":
                if not model:
                    expect_exc = KeyError
                v = real.pop()
                if v not in model:
                    out.fail("pop|-|wrong-result", f"popped {v!r} not in {model!r}")
                else:
                    model.remove(v)
            elif name == "clear":
                real.clear()
                model = []
            elif name == "keep":
                how = op[1]
                akind = how
                if how == "freeze":
                    obj = real.freeze()
                elif how == "copy":
                    import copy as _copy

                    obj = _copy.copy(real)
                elif how == "frozen_of_frozen":
                    obj = FrozenOrderedSet(real.freeze())
                elif how == "mutable_of_frozen":
                    fz = real.freeze()
                    kept.append((fz, list(model)))
                    obj = OrderedSet(fz)
                else:
                    obj = OrderedSet(real)
                kept.append((obj, list(model)))
                kept[:] = kept[-8:]
            elif name == "swap":
                if kept:
                    used_alias = True
                    i = op[1] % len(kept)
                    obj, exp = kept[i]
                    akind = type(obj).__name__
                    if isinstance(obj, OrderedSet):
                        kept[i] = (real, list(model))
                        real, model = obj, list(exp)
                    else:  # a frozen set stays as it is; continue with a mutable set built from it
                        kept.append((real, list(model)))
                        kept[:] = kept[-8:]
                        real, model = OrderedSet(obj), list(exp)
            elif name in PURE_ITER1:
                akind = op[1]["kind"]
                used_oneshot |= akind in ("iter", "gen")
                a, order = _materialise(op[1], real, model)
                oset = set(order)
                t = target(op[2])
                check_result = True
                if name in ("symmetric_difference", "xor"):
                    expected = [x for x in model if x not in oset] + [x for x in _dedup(order) if x not in model]
                    got = list(t.symmetric_difference(a) if name == "symmetric_difference" else t ^ a)
                elif name == "issubset":
                    expected = all(x in oset for x in model)
                    got = t.issubset(a)
                elif name == "issuperset":
                    expected = all(x in model for x in order)
                    got = t.issuperset(a)
                elif name == "or":
                    expected = _dedup(model + order)
                    got = list(t | a)
                elif name == "and":
                    expected = [x for x in model if x in oset]
                    got = list(t & a)
                elif name == "sub":
                    expected = [x for x in model if x not in oset]
                    got = list(t - a)
                elif name == "isdisjoint":
                    expected = not any(x in oset for x in model)
                    got = t.isdisjoint(a)
                else:  # eq_same: equality with an ordered set of the same class built from the argument
                    other = type(t)(order)
                    expected = model == _dedup(order)
                    got = t == other
            elif name in PURE_ITERN:
                mats = [_materialise(s, real, model) for s in op[1]]
                akind = f"{len(op[1])}-iterables"
                used_oneshot |= any(s["kind"] in ("iter", "gen") for s in op[1])
                used_multi |= len(op[1]) >= 2
                t = target(op[2])
                check_result = True
                if name == "union":
                    acc = list(model)
                    for _, o in mats:
                        acc += o
                    expected = _dedup(acc)
                    got = list(t.union(*[m[0] for m in mats]))
                elif name == "intersection":
                    expected = [x for x in model if all(x in set(o) for _, o in mats)]
                    got = list(t.intersection(*[m[0] for m in mats]))
                else:
                    expected = [x for x in model if not any(x in set(o) for _, o in mats)]
                    got = list(t.difference(*[m[0] for m in mats]))
            elif name in PURE_ELEM:
                v = ELEMS[op[1]]
                t = target(op[2])
                check_result = True
                if name == "contains":
                    expected, got = (v in model), (v in t)
                elif name == "count":
                    expected, got = model.count(v), t.count(v)
                else:
                    if v in model:
                        expected = model.index(v)
                    else:
                        expect_exc = ValueError
                    got = t.index(v)
            elif name == "getitem":
                i = op[1]
                akind = "neg" if i < 0 else "nonneg"
                used_neg |= i < 0 and len(model) > 0
                t = target(op[2])
                check_result = True
                if -len(model) <= i < len(model):
                    expected = model[i]
                else:
                    expect_exc = IndexError
                got = t[i]
            else:
                t = target(op[1])
                check_result = True
                if name == "reversed":
                    expected, got = list(reversed(model)), list(reversed(t))
                elif name == "copy":
                    import copy

                    c = copy.copy(t)
                    expected, got = (model, type(t)), (list(c), type(c))
                elif name == "len":
                    expected, got = len(model), len(t)
                elif name == "hash":
                    f1, f2 = FrozenOrderedSet(model), real.freeze()
                    expected, got = hash(f1), hash(f2)
                else:
                    r = eval(repr(t), {"OrderedSet": OrderedSet, "FrozenOrderedSet": FrozenOrderedSet})  # noqa: S307
                    expected, got = (model, type(t)), (list(r), type(r))
        except Exception as exc:  # noqa: BLE001
            got_exc = exc
        if got_exc is not None:
            if expect_exc is None or not isinstance(got_exc, expect_exc):
                out.fail(f"{name}|{akind}|raises:{type(got_exc).__name__}",
                         f"op={op!r} model={model!r}: {type(got_exc).__name__}: {got_exc}")
                return out
        elif expect_exc is not None:
            out.fail(f"{name}|{akind}|missing:{expect_exc.__name__}", f"op={op!r} model={model!r} returned {got!r}")
            return out
        elif check_result and got != expected:
            out.fail(f"{name}|{akind}|wrong-result", f"op={op!r} model={model!r}: got {got!r}, expected {expected!r}")
            return out
        if list(real) != model or len(real) != len(model):
            out.fail(f"{name}|{akind}|wrong-state", f"op={op!r}: real {list(real)!r} != model {model!r}")
            return out
        for obj, exp in kept:
            if list(obj) != exp or len(obj) != len(exp) or (isinstance(obj, FrozenOrderedSet) and hash(obj) != hash(FrozenOrderedSet(exp))):
                out.fail(f"{name}|{akind}|changed-another-set:{type(obj).__name__}",
                         f"op={op!r} changed a {type(obj).__name__} derived earlier: {list(obj)!r}, expected {exp!r}")
                return out
        max_len = max(max_len, len(model))
        out.labels.append(name)
    out.nontrivial = max_len >= 3 and (used_oneshot or used_neg or used_multi or used_alias)
    if used_alias:
        out.labels.append("class:continued-with-derived-set")
    if used_oneshot:
        out.labels.append("class:one-shot-iterable")
    if used_neg:
        out.labels.append("class:negative-index")
    if used_multi:
        out.labels.append("class:multi-argument")
    return out
