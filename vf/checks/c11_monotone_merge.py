"""C11 — adding tests never lowers coverage or raises fitness; merging execution traces is order-independent.

A case is a registry spec (``vf.gen.traces``), a family of 2..8 traces (sound synthetic models + real call lists),
two drawn merge schedules (which group is merged into which, until one group is left: every order and every
bracketing is reachable) and a drawn insertion order.  Oracles: (1) both schedules and the left fold into an empty
trace (``analyze_results``) give the same observable trace, equal to the union / sum / pointwise-min computed from the
event lists without pynguin; merging never alters the *source* trace; (2) along the chain of growing suites every
suite coverage function is non-decreasing and every suite fitness function non-increasing.
"""

from __future__ import annotations

from typing import Any

from hypothesis import strategies as st

from vf.core import Outcome
from vf.gen import traces as T

PROPERTY = "C11"
META = {
    "title": "Adding tests never lowers coverage or raises fitness; merging is order-independent",
    "technique": "property-based testing: Hypothesis-drawn trace families, merge schedules (orders + bracketings) and insertion "
                 "orders vs an independently computed reference merge and monotonicity relations",
    "design_ref": "DESIGN.md §3 C11",
    "rule": "case = registry spec + family of 2..8 traces (sound synthetic update lists and real executions) + two merge schedules "
            "+ insertion order + exclusion sets; non-trivial = two traces of the family executed a shared predicate with "
            "different covered outcomes; distinct by (rendered source, metrics, resolved event lists, schedules, order)",
    "assumptions": [
        "executed_instructions / executed_assertions are positional by design and not compared; object_addresses is empty "
        "without CHECKED instrumentation",
        "float sums: suite fitness is compared with <= on the values pynguin returns (rounding is monotone, terms are added in "
        "registry order in both suites)",
        "synthetic traces contain only what ExecutionTracer can emit (see vf/gen/traces.py)",
    ],
    "level_text": "Generated trace families against an executable reference merge and monotonicity of all suite-level branch, line and "
                  "statement-checked functions (with and without exclusions). Exploration, not proof.",
    "level_note": "Trusted: the instrumentation that builds the registries; the RefTrace model (union / sum / pointwise min).",
}
PLAN = {
    "quick": {"shards": 12, "examples": 2000},
    "thorough": {"shards": 16, "examples": 150000, "timeout": 3000},
}

_pair = st.tuples(st.integers(0, 7), st.integers(0, 7)).map(list)
_idx = st.lists(st.integers(0, 15), max_size=3)


def strategy(ctx) -> st.SearchStrategy:
    return st.fixed_dictionaries({
        "reg": T.registry_spec(),
        "traces": st.lists(T.trace_model(max_updates=8), min_size=2, max_size=6),
        "real": st.lists(T.calls_model(), max_size=2),
        "sched_a": st.lists(_pair, min_size=7, max_size=7),
        "sched_b": st.lists(_pair, min_size=7, max_size=7),
        "order": st.lists(st.integers(0, 7), min_size=8, max_size=8),
        "excl": st.fixed_dictionaries({"code": _idx, "true": _idx, "false": _idx}),
        # suites in which cloned chromosomes share one execution result: a sequence of member indices with repeats and
        # a rotation/reversal of it (the same multiset of result objects in another order)
        "shared": st.lists(st.integers(0, 7), min_size=3, max_size=7),
        "shared_rot": st.integers(1, 6),
    })


def _observe(trace: Any) -> dict[str, Any]:
    return {
        "executed_code_objects": set(trace.executed_code_objects),
        "executed_predicates": dict(trace.executed_predicates),
        "true_distances": dict(trace.true_distances),
        "false_distances": dict(trace.false_distances),
        "covered_line_ids": set(trace.covered_line_ids),
        "checked_lines": set(trace.checked_lines),
    }


def _ref_obs(ref: T.RefTrace) -> dict[str, Any]:
    return {"executed_code_objects": ref.code, "executed_predicates": ref.counts, "true_distances": ref.tmin,
            "false_distances": ref.fmin, "covered_line_ids": ref.lines, "checked_lines": ref.checked}


def _diff_fields(a: dict[str, Any], b: dict[str, Any]) -> list[str]:
    return [k for k in a if a[k] != b[k]]


def evaluate(case: dict[str, Any]) -> Outcome:
    import pynguin.ga.computations as ff
    from pynguin.ga import fitness_metrics as fm
    from pynguin.instrumentation.tracer import ExecutionTrace

    out = Outcome()
    reg = T.build_registry(case["reg"])
    sp = reg.sp

    # ---- the family: a builder per member (fresh trace objects for every use, merge mutates its target) + its model
    builders: list[Any] = []
    refs: list[T.RefTrace] = []
    keys: list[Any] = []
    for m in case["traces"]:
        res = T.resolve(m, reg)
        builders.append(lambda res=res: T.materialise(res, reg))
        refs.append(T.reference(res, reg))
        keys.append([res.code, res.updates, res.lines, res.checked])
    for calls in case["real"]:
        first = T.run_real(reg, calls)
        builders.append(lambda calls=calls: T.run_real(reg, calls))
        refs.append(T.ref_of_trace(first))
        keys.append(["real", calls])
    n = len(builders)
    want = _ref_obs(T.ref_merge(refs))

    def tcov(r: T.RefTrace, p: int) -> tuple[bool, bool]:
        return (r.tmin.get(p) == 0.0, r.fmin.get(p) == 0.0)

    out.nontrivial = any(
        p in refs[i].counts and p in refs[j].counts and tcov(refs[i], p) != tcov(refs[j], p)
        for i in range(n) for j in range(i + 1, n) for p in reg.pred_ids
    )
    if out.nontrivial:
        out.labels.append("class:shared-predicate-different-outcomes")
    if any(r.counts.keys() & s.counts.keys() for i, r in enumerate(refs) for s in refs[i + 1:]):
        out.labels.append("class:shared-predicate")
    if any(r.lines - s.lines and s.lines - r.lines for i, r in enumerate(refs) for s in refs[i + 1:]):
        out.labels.append("class:incomparable-line-sets")
    out.labels.append(f"family:{n}")

    # ---- (1) merge schedules
    def run_schedule(name: str, sched: list[list[int]]) -> dict[str, Any] | None:
        groups = [b() for b in builders]
        members = [[i] for i in range(n)]
        step = 0
        while len(groups) > 1:
            i, j = sched[step % len(sched)]
            step += 1
            i %= len(groups)
            j %= len(groups)
            if i == j:
                j = (j + 1) % len(groups)
            src_before = _observe(groups[j])
            expected = _ref_obs(T.ref_merge([refs[k] for k in members[i] + members[j]]))
            groups[i].merge(groups[j])
            if _observe(groups[j]) != src_before:
                out.fail("merge|source-trace-modified|" + ",".join(_diff_fields(_observe(groups[j]), src_before)), f"{name} step {step}")
            got = _observe(groups[i])
            bad = _diff_fields(got, expected)
            if bad:
                out.fail("merge|pairwise-result-differs-from-reference|" + ",".join(bad),
                         f"{name} step {step}: members {members[i]}+{members[j]}: " +
                         "; ".join(f"{k}: got {got[k]!r} want {expected[k]!r}" for k in bad))
                return None
            members[i] += members[j]
            del groups[j], members[j]
        return _observe(groups[0])

    obs_a = run_schedule("schedule-a", case["sched_a"])
    obs_b = run_schedule("schedule-b", case["sched_b"])
    results = [b() for b in builders]
    folded = _observe(fm.analyze_results([T.result_with(t) for t in results]))
    for name, obs in (("schedule-a", obs_a), ("schedule-b", obs_b), ("analyze_results", folded)):
        if obs is None:
            continue
        bad = _diff_fields(obs, want)
        if bad:
            out.fail("merge|family-result-differs-from-reference|" + ",".join(bad),
                     f"{name}: " + "; ".join(f"{k}: got {obs[k]!r} want {want[k]!r}" for k in bad))
    # ---- (1b) the same result OBJECT several times in one suite (clones share their last execution result)
    shared_objs = [T.result_with(b()) for b in builders]
    seq = [i % n for i in case.get("shared", [])]
    if len(seq) >= 2:
        rot = case.get("shared_rot", 1) % len(seq)
        orders = {"as-drawn": seq, "rotated": seq[rot:] + seq[:rot], "sorted": sorted(seq), "reversed": seq[::-1]}
        want_shared = _ref_obs(T.ref_merge([refs[i] for i in seq]))
        for oname, order_ in orders.items():
            got = _observe(fm.analyze_results([shared_objs[i] for i in order_]))
            bad = _diff_fields(got, want_shared)
            if bad:
                out.fail("analyze_results|shared-result-objects|differs-from-reference|" + ",".join(bad),
                         f"order {oname} {order_}: " + "; ".join(f"{k}: got {got[k]!r} want {want_shared[k]!r}" for k in bad))
                break
        if len(set(seq)) < len(seq):
            out.labels.append("class:shared-result-object-repeated")
    if obs_a is not None and obs_b is not None and obs_a != obs_b:
        out.fail("merge|order-or-grouping-dependent|" + ",".join(_diff_fields(obs_a, obs_b)), "two schedules, two results")
    # merging into a fresh trace reproduces the trace (what the import_trace copy and init_trace rely on)
    copy_ = ExecutionTrace()
    copy_.merge(results[0])
    bad = _diff_fields(_observe(copy_), _ref_obs(refs[0]))
    if bad:
        out.fail("merge|copy-into-empty-trace-differs|" + ",".join(bad), "")

    # ---- (2) monotonicity along a chain of growing suites
    executor = T.StubExecutor(sp)

    def pick(idx: list[int], ids: list[int]) -> set[int]:
        return {ids[i % len(ids)] for i in idx} if ids else set()

    xc, xt, xf = (pick(case["excl"]["code"], reg.code_ids), pick(case["excl"]["true"], reg.pred_ids),
                  pick(case["excl"]["false"], reg.pred_ids))
    order = sorted(range(n), key=lambda i: (case["order"][i % len(case["order"])], i))

    def restricted() -> Any:
        f = ff.BranchDistanceTestSuiteFitnessFunction(executor)
        f.restrict(set(xc), set(xt), set(xf))
        return f

    fitness_fns = [("BranchDistanceTestSuiteFitnessFunction|noexcl", lambda: ff.BranchDistanceTestSuiteFitnessFunction(executor)),
                   ("BranchDistanceTestSuiteFitnessFunction|excl", restricted),
                   ("LineTestSuiteFitnessFunction", lambda: ff.LineTestSuiteFitnessFunction(executor)),
                   ("StatementCheckedTestSuiteFitnessFunction", lambda: ff.StatementCheckedTestSuiteFitnessFunction(executor))]
    coverage_fns = [("TestSuiteBranchCoverageFunction", lambda: ff.TestSuiteBranchCoverageFunction(executor)),
                    ("TestSuiteLineCoverageFunction", lambda: ff.TestSuiteLineCoverageFunction(executor)),
                    ("TestSuiteStatementCheckedCoverageFunction", lambda: ff.TestSuiteStatementCheckedCoverageFunction(executor))]
    prev_fit: dict[str, float] = {}
    prev_cov: dict[str, float] = {}
    prev_flag: dict[str, bool] = {}
    for k in range(0, n + 1):
        suite = T.suite_of([builders[i]() for i in order[:k]])  # fresh chromosomes: no caches involved
        for name, mk in fitness_fns:
            f = mk()
            v = f.compute_fitness(suite)
            flag = f.compute_is_covered(suite)
            if name in prev_fit and not v <= prev_fit[name]:
                out.fail(f"{name}|fitness-increased-when-test-added|-", f"suite size {k - 1}->{k}: {prev_fit[name]!r} -> {v!r}")
            if prev_flag.get(name) and not flag:
                out.fail(f"{name}|is_covered-lost-when-test-added|-", f"suite size {k - 1}->{k}")
            prev_fit[name], prev_flag[name] = v, flag
        for name, mk in coverage_fns:
            v = mk().compute_coverage(suite)
            if name in prev_cov and not v >= prev_cov[name]:
                out.fail(f"{name}|coverage-decreased-when-test-added|-", f"suite size {k - 1}->{k}: {prev_cov[name]!r} -> {v!r}")
            prev_cov[name] = v
    if executor.executed:
        out.fail("harness|stub-executor-was-asked-to-execute|-", "a cached last execution result was ignored")
    if prev_cov["TestSuiteBranchCoverageFunction"] > 0:
        out.labels.append("class:coverage-grew")

    out.key = [reg.source, case["reg"]["metrics"], case["reg"]["module"], keys, case["sched_a"][:n - 1], case["sched_b"][:n - 1], order]
    out.labels.append("mode:module" if case["reg"]["module"] else "mode:functions")
    out.labels.append("metrics:" + "+".join(case["reg"]["metrics"]))
    out.evaluations = 3 + n
    return out
