"""C04 — branch distances: non-negative, not NaN, exactly one zero, zero = Python's outcome.

Cases are ``(kind, op, v1, v2)`` with value *recipes* from ``vf.gen.values``.  Every case is evaluated twice on
fresh copies of the operands:

* reference: Python's own operator (``bool(v1 < v2)``, ``v1 in v2``, ``bool(v)``, a real ``try/raise/except``),
  recording outcome or exception type and the operation log of the logged user objects;
* tracer: a fresh ``SubjectProperties`` with one registered predicate, the tracer bound to the current thread
  (``with properties.instrumentation_tracer``), one call of ``executed_compare_predicate`` /
  ``executed_bool_predicate`` / ``executed_exception_match``, distances read back from
  ``get_trace().true_distances/false_distances``.

Oracle (DESIGN.md §3 C04): tracer raises only if the reference raises (then the same type); otherwise both
distances are numbers >= 0 (so not NaN), exactly one is 0 and the zero one is the reference outcome; every
``(operator, operand)`` the tracer run logs also occurs in the reference log (repetitions are only counted);
operands are unchanged afterwards (iterators not consumed); the tracer is enabled afterwards.
"""

from __future__ import annotations

import operator
from typing import Any

from hypothesis import strategies as st

from vf.core import Outcome, exc_detail
from vf.gen import values as V

PROPERTY = "C04"
META = {
    "title": "Branch distances are non-negative and zero exactly for the outcome taken",
    "technique": "property-based differential testing: Hypothesis-drawn (operator, operand recipes) evaluated by the real "
                 "ExecutionTracer vs. Python's own operator on fresh copies; operation logs of instrumented user objects",
    "design_ref": "DESIGN.md §3 C04",
    "rule": "case = comparison kind (10 compare ops, truthiness, exception match, auxiliary `key in container` before a subscript) + operand recipes drawn from numeric edges "
            "(|x|>2**53, >1e308, NaN, inf, -0.0, subnormal, Decimal/Fraction/complex), str/bytes, nested containers, sets "
            "(partial order), one-shot iterators, ranges and logged user objects with partial/raising protocols; "
            "each comparison also with the second operand being the very same object as the first; "
            "non-trivial = operands of different categories or at least one edge-class operand; distinct by (op, recipes)",
    "assumptions": ["the reference outcome of a comparison is bool(result of Python's operator), as consumed by the "
                    "conditional jump that follows the instrumented COMPARE_OP",
                    "user-defined numbers.Number subclasses are not generated (arithmetic on them is out of the explored domain)",
                    "an `in` test on a one-shot iterator may be left unrecorded (it cannot be observed without consuming it); "
                    "every other evaluation must be recorded"],
    "level_text": "Generated operand pairs against Python's own operators; all comparison kinds of PynguinCompare, truthiness "
                  "and exception matching. Exploration, not proof.",
    "level_note": "Trusted: CPython's operators as reference; the recipe materialiser and the operation log in vf/gen/values.py.",
}
PLAN = {
    "quick": {"shards": 16, "examples": 16000, "shrink_sigs": 2, "shrink_seconds": 6, "shrink_calls": 150},
    "thorough": {"shards": 16, "examples": 600000, "timeout": 3000, "shrink_sigs": 6},
}

ORDER_OPS = ["LT", "LE", "GT", "GE"]
EQ_OPS = ["EQ", "NE"]
IN_OPS = ["IN", "NOT_IN"]
IS_OPS = ["IS", "IS_NOT"]
PYOPS = {
    "LT": operator.lt, "LE": operator.le, "GT": operator.gt, "GE": operator.ge, "EQ": operator.eq, "NE": operator.ne,
    "IN": lambda a, b: a in b, "NOT_IN": lambda a, b: a not in b,
    "IS": operator.is_, "IS_NOT": operator.is_not,
}


# ------------------------------------------------------------------------------------------- generator
def _numeric_pairs() -> st.SearchStrategy:
    num = V.numbers()
    near = st.tuples(V.ints(), st.integers(-2, 2)).map(lambda t: (t[0], {"k": "int", "v": t[0]["v"] + t[1]}))
    int_float = st.tuples(st.sampled_from(V.INT_EDGES), st.integers(-1, 1)).map(
        lambda t: ({"k": "int", "v": t[0] + t[1]}, V._f(float(t[0])) if abs(t[0]) < 10**308 else V._f(1e308)))
    return V.choice(st.tuples(num, num), st.tuples(num, num), near, int_float, int_float.map(lambda p: (p[1], p[0])),
                     num.map(lambda r: (r, r)))


def _text_pairs() -> st.SearchStrategy:
    return V.choice(st.tuples(V.strs(), V.strs()), st.tuples(V.bytess(), V.bytess()), V.strs().map(lambda r: (r, r)))


def _obj_pairs() -> st.SearchStrategy:
    cls = V.class_recipes("cmp")
    tag = st.integers(0, 2)

    def mk(c, t):
        return {"k": "obj", "cls": c, "tag": t, "items": []}

    same_cls = st.tuples(cls, tag, tag).map(lambda t: (mk(t[0], t[1]), mk(t[0], t[2])))
    base_sub = st.tuples(V.class_recipes("cmp", subclass=False), V._cmp_methods(), tag, tag, st.booleans()).map(
        lambda t: (mk(t[0], t[2]), mk({"n": "S", "m": t[1], "base": t[0]}, t[3]))[:: (1 if t[4] else -1)])
    two = st.tuples(V.objects("cmp"), V.objects("any"))
    with_scalar = st.tuples(V.objects("cmp"), V.choice(V.ints(), V.floats(), V.strs(), V.nones()))
    return V.choice(same_cls, same_cls, base_sub, two, with_scalar, with_scalar.map(lambda p: (p[1], p[0])))


def _container_pairs() -> st.SearchStrategy:
    small = V.choice(st.integers(0, 3).map(lambda v: {"k": "int", "v": v}), V.strs(2), V.floats(), V.hashable_objects())
    sets = st.tuples(st.sampled_from(["set", "frozenset"]), st.lists(small, max_size=3)).map(lambda t: {"k": t[0], "items": t[1]})
    seqs = st.tuples(st.sampled_from(["list", "tuple"]), st.lists(V.choice(small, V.objects("cmp")), max_size=3)).map(
        lambda t: {"k": t[0], "items": t[1]})
    dicts = st.lists(st.tuples(small, small).map(list), max_size=2).map(lambda xs: {"k": "dict", "items": xs})
    anyc = V.choice(sets, seqs, dicts)
    return V.choice(st.tuples(sets, sets), st.tuples(seqs, seqs), st.tuples(anyc, anyc), anyc.map(lambda r: (r, r)))


def _mixed_pairs() -> st.SearchStrategy:
    v = V.values(1)
    return st.tuples(v, v)


def _in_pairs() -> st.SearchStrategy:
    needle = V.choice(st.integers(0, 3).map(lambda v: {"k": "int", "v": v}), V.ints(), V.floats(), V.strs(2), V.nones(),
                       V.decimals(), V.objects("cmp"), V.hashable_objects())
    elem = V.choice(needle, needle, V.objects("cmp"))
    hay_seq = st.tuples(st.sampled_from(["list", "tuple", "iter", "gen"]), st.lists(elem, max_size=4)).map(
        lambda t: {"k": t[0], "items": t[1]})
    hashable_elem = V.choice(st.integers(0, 3).map(lambda v: {"k": "int", "v": v}), V.ints(), V.floats(), V.strs(2), V.nones(),
                              V.hashable_objects())
    hay_set = st.tuples(st.sampled_from(["set", "frozenset"]), st.lists(hashable_elem, max_size=4)).map(
        lambda t: {"k": t[0], "items": t[1]})
    hay_dict = st.lists(st.tuples(hashable_elem, V.ints()).map(list), max_size=3).map(lambda xs: {"k": "dict", "items": xs})
    hay_obj = V.objects("container", payload=elem)
    hay_other = V.choice(V.ranges(), V.strs(), V.bytess(), V.ints(), V.nones(), V.objects("cmp"))
    general = st.tuples(needle, V.choice(hay_seq, hay_seq, hay_set, hay_dict, hay_obj, hay_obj, hay_other))
    hashed = st.tuples(V.choice(hashable_elem, hashable_elem, V.objects("any")), V.choice(hay_set, hay_dict))
    text = V.choice(st.tuples(V.strs(2), V.strs()), st.tuples(V.choice(V.bytess(2), st.integers(0, 300).map(lambda v: {"k": "int", "v": v})),
                                                                V.bytess()))
    return V.choice(general, general, hashed, text)


def _exc_pairs() -> st.SearchStrategy:
    cls = V.exception_classes()
    tup = st.lists(V.choice(cls, st.lists(cls, max_size=2).map(lambda xs: {"k": "tuple", "items": xs})), max_size=3).map(
        lambda xs: {"k": "tuple", "items": xs})
    invalid = V.choice(V.ints(), V.strs(), V.nones(), st.just({"k": "type", "name": "object"}), st.just({"k": "type", "name": "int"}),
                        st.just({"k": "tuple", "items": [{"k": "excclass", "name": "ValueError"}, {"k": "int", "v": 1}]}))
    err = V.choice(V.exception_instances(), V.exception_instances(), V.exception_instances(), cls)

    def inst(c):
        return {"k": "excinst", "cls": c, "args": []}

    def builtin(n):
        return {"k": "excclass", "name": n}

    # directed shapes: (a) a real subclass relation, (b) an exception ABC that merely *registers* the raised class
    name = st.sampled_from(V.BUILTIN_EXCS)
    sub = st.tuples(name, st.booleans()).map(lambda t: (
        inst({"k": "excclass", "user": {"n": "E1", "base": builtin(t[0]), "meta": "plain"}}),
        builtin(t[0]) if t[1] else {"k": "tuple", "items": [builtin("KeyError"), builtin(t[0])]}))
    virtual = st.tuples(name, st.sampled_from(["Exception", "OSError", "ArithmeticError"]), st.booleans()).map(lambda t: (
        inst(builtin(t[0])),
        (lambda abc: abc if t[2] else {"k": "tuple", "items": [abc]})(
            {"k": "excclass", "user": {"n": "E2", "base": builtin(t[1]), "meta": "abc", "virtual": [t[0]]}})))
    general = st.tuples(err, V.choice(cls, cls, cls, tup, tup, invalid))
    return V.choice(general, general, general, sub, virtual)


def _subscr_pairs() -> st.SearchStrategy:
    """(key, container) for the auxiliary membership predicate that precedes ``container[key]``: built-in containers only."""
    key = V.choice(st.integers(-2, 4).map(lambda v: {"k": "int", "v": v}), V.strs(2), V.slices(), V.ints(), V.floats(), V.nones(),
                   V.bools(), st.just({"k": "list", "items": []}), st.just({"k": "tuple", "items": [{"k": "int", "v": 0}]}))
    elem = V.choice(st.integers(0, 3).map(lambda v: {"k": "int", "v": v}), V.strs(2), V.floats(), V.nones())
    seq = st.tuples(st.sampled_from(["list", "tuple"]), st.lists(elem, max_size=4)).map(lambda t: {"k": t[0], "items": t[1]})
    dicts = st.lists(st.tuples(elem, elem).map(list), max_size=3).map(lambda xs: {"k": "dict", "items": xs})
    return st.tuples(key, V.choice(seq, seq, dicts, dicts, V.strs(), V.bytess(), V.ranges()))


def _bool_values() -> st.SearchStrategy:
    return V.choice(V.numbers(), V.numbers(), V.objects("truth"), V.objects("truth"), V.objects("any"), V.values(1), V.strs(), V.bytess(),
                     st.just({"k": "plain"}), st.just({"k": "type", "name": "int"}), st.just({"k": "func", "name": "len"}))


def strategy(ctx) -> st.SearchStrategy:
    def case(kind: str, ops: list[str] | None, pairs: st.SearchStrategy) -> st.SearchStrategy:
        op = st.sampled_from(ops) if ops else st.just(kind.upper())
        # "alias": the second operand is the very same live object as the first (x < x, x == x, x in x, x is x)
        return st.tuples(op, pairs, st.integers(0, 5)).map(
            lambda t: _mk(kind, t[0], t[1][0], t[1][1], kind == "cmp" and (t[2] == 0 or (t[2] <= 2 and t[0] in IS_OPS))))

    def _mk(kind: str, op: str, v1: dict, v2: dict, alias: bool) -> dict:
        return {"kind": kind, "op": op, "v1": v1, "v2": v1 if alias else v2, "alias": bool(alias)}

    # one object on both sides, weighted towards values that are not equal to themselves
    irreflexive = V.choice(
        st.sampled_from([{"k": "float", "x": "nan"}, {"k": "decimal", "v": "NaN"}, {"k": "decimal", "v": "sNaN"},
                         {"k": "complex", "re": "nan", "im": "0x0.0p+0"}, {"k": "complex", "re": "0x1.0p+0", "im": "nan"},
                         {"k": "list", "items": [{"k": "float", "x": "nan"}]}, {"k": "tuple", "items": [{"k": "float", "x": "nan"}]}]),
        V.objects("cmp"), V.objects("cmp"), V.objects("any"), V.numbers(), V.values(1))
    same_object = st.tuples(st.sampled_from(ORDER_OPS + EQ_OPS + EQ_OPS + EQ_OPS + IN_OPS + IS_OPS), irreflexive).map(
        lambda t: _mk("cmp", t[0], t[1], t[1], True))

    cmp_ops = ORDER_OPS + EQ_OPS
    return V.choice(
        case("cmp", cmp_ops, _numeric_pairs()),
        case("cmp", cmp_ops, _numeric_pairs()),
        case("cmp", cmp_ops, _text_pairs()),
        case("cmp", cmp_ops, _obj_pairs()),
        case("cmp", cmp_ops, _obj_pairs()),
        case("cmp", cmp_ops, _container_pairs()),
        case("cmp", cmp_ops + IS_OPS, _mixed_pairs()),
        case("cmp", IN_OPS, _in_pairs()),
        case("cmp", IN_OPS, _in_pairs()),
        case("cmp", IS_OPS, V.choice(_mixed_pairs(), _numeric_pairs())),
        _bool_values().map(lambda v: {"kind": "bool", "op": "BOOL", "v1": v, "v2": {"k": "none"}, "alias": False}),
        _bool_values().map(lambda v: {"kind": "bool", "op": "BOOL", "v1": v, "v2": {"k": "none"}, "alias": False}),
        case("exc", ["EXC_MATCH"], _exc_pairs()),
        case("subscr", ["SUBSCR_IN"], _subscr_pairs()),
        same_object,
    )


# ------------------------------------------------------------------------------------------- oracle
def _reference(kind: str, op: str, a: Any, b: Any) -> tuple[bool | None, BaseException | None]:
    try:
        if kind == "bool":
            return bool(a), None
        if kind == "exc":
            return _python_exception_match(a, b), None
        if kind == "subscr":  # the operation of the module under test is container[key]; the recorded outcome is `key in container`
            b[a]
            try:
                return a in b, None
            except TypeError:
                return None, None
        return bool(PYOPS[op](a, b)), None
    except Exception as exc:  # noqa: BLE001  (the reference operator itself raised: recorded as its type)
        return None, exc


def _python_exception_match(err: Any, exc: Any) -> bool:
    """What ``try: raise err`` / ``except exc:`` decides (raises TypeError for an invalid ``exc``)."""
    inst = err() if isinstance(err, type) else err  # ``raise cls`` instantiates without arguments
    try:
        try:
            raise inst
        except exc:
            return True
    except BaseException as caught:  # noqa: BLE001
        if caught is inst:
            return False
        raise  # raised by the matching itself (invalid ``exc``)


_OP_GROUP = {"LT": "ORDER", "LE": "ORDER", "GT": "ORDER", "GE": "ORDER", "EQ": "EQ", "NE": "EQ", "IN": "IN", "NOT_IN": "IN",
             "IS": "IS", "IS_NOT": "IS", "BOOL": "BOOL", "EXC_MATCH": "EXC", "SUBSCR_IN": "SUBSCR"}
_FAMILY = {"float.-0": "float", "float.subnormal": "float", "bytearray": "bytes", "list": "seq", "tuple": "seq", "frozenset": "set",
           "iter": "iterator", "gen": "iterator", "decimal.huge": "decimal", "decimal.inf": "decimal.nonfinite",
           "decimal.nan": "decimal.nonfinite", "decimal.snan": "decimal.nonfinite", "fraction.huge": "fraction",
           "complex.huge": "complex", "none": "other", "bool": "int", "plain": "other", "type": "other", "func": "other", "slice": "other"}


def _family(cat: str) -> str:
    """Coarser operand class for failure signatures (root-cause buckets); labels keep the fine class."""
    return _FAMILY.get(cat, cat)


def _aspects(case: dict[str, Any]) -> tuple[str, str]:
    if case["kind"] == "bool":
        return "truth", "truth"
    if case["op"] in IN_OPS or case["kind"] == "subscr":
        return "cmp", "container"
    return "cmp", "cmp"


def evaluate(case: dict[str, Any]) -> Outcome:
    from pynguin.instrumentation import PynguinCompare
    from pynguin.instrumentation.tracer import PredicateMetaData, SubjectProperties

    out = Outcome()
    kind, op, r1, r2 = case["kind"], case["op"], case["v1"], case["v2"]
    asp1, asp2 = _aspects(case)
    c1 = V.category(r1, asp1)
    c2 = V.category(r2, asp2) if kind != "bool" else "-"
    f1, f2 = _family(c1), _family(c2)
    # symmetric comparisons: the operand order is not part of the root cause
    cats = ",".join(sorted([f1, f2])) if _OP_GROUP[op] in ("ORDER", "EQ", "IS") else f"{f1},{f2}"
    out.labels += [f"op:{op}", f"cat:{c1}"] + ([f"cat:{c2}"] if kind != "bool" else [])

    def fail(what: str, detail: str) -> None:
        out.fail(f"{_OP_GROUP[op]}|{cats}|{what}", f"case={case!r}\n{detail}")

    # ---- reference on fresh copies
    a = V.materialise(r1)
    b = a if case.get("alias") else V.materialise(r2)
    V.reset_log()
    ref_outcome, ref_exc = _reference(kind, op, a, b)
    ref_log = V.take_log()

    # ---- tracer on fresh copies
    a2 = V.materialise(r1)
    b2 = a2 if case.get("alias") else V.materialise(r2)
    props = SubjectProperties()
    pid = props.register_predicate(PredicateMetaData(line_no=1, code_object_id=0, node=object()))  # type: ignore[arg-type]
    tracer = props.instrumentation_tracer
    tr_exc: BaseException | None = None
    V.reset_log()
    with tracer:
        try:
            if kind == "bool":
                tracer.executed_bool_predicate(a2, pid)
            elif kind == "exc":
                tracer.executed_exception_match(a2, b2, pid)
            elif kind == "subscr":
                tracer.executed_in_presence_predicate(a2, b2, pid)
            else:
                tracer.executed_compare_predicate(a2, b2, pid, PynguinCompare[op])
        except Exception as exc:  # noqa: BLE001  (classified below)
            tr_exc = exc
        disabled = tracer.is_disabled()
        trace = tracer.get_trace()
        dt = trace.true_distances.get(pid)
        df = trace.false_distances.get(pid)
    tr_log = V.take_log()
    if op in IS_OPS and ref_exc is None:  # identity has no side effects: judge the very objects the tracer saw
        ref_outcome = PYOPS[op](a2, b2)

    out.labels.append("ref:raises" if ref_exc is not None else f"ref:{ref_outcome}")
    if case.get("alias"):
        out.labels.append("same-object-operands")
    one_shot_in = op in IN_OPS and (r2["k"] in ("iter", "gen") or V.category(r2, "container") == "obj.iter-self")

    if disabled:
        out.fail("tracer-left-disabled|after-exception" if tr_exc is not None else "tracer-left-disabled|after-normal-return",
                 f"case={case!r}\nis_disabled() is True after the call (raised: {type(tr_exc).__name__ if tr_exc else None})")
    if tr_exc is not None:
        if ref_exc is None:
            fail(f"raises:{type(tr_exc).__name__}", f"Python's operator gives {ref_outcome!r}; tracer raised\n{exc_detail(tr_exc)}")
        elif type(tr_exc) is not type(ref_exc):
            fail(f"raises:{type(tr_exc).__name__}-instead-of-{type(ref_exc).__name__}",
                 f"reference raised {ref_exc!r}; tracer raised\n{exc_detail(tr_exc)}")
    elif ref_exc is None:
        if dt is None or df is None:
            if one_shot_in:
                out.labels.append("unrecorded:one-shot-iterator")
            else:
                fail("not-recorded", f"no distance recorded; reference outcome {ref_outcome!r}")
        else:
            ok_num = all(isinstance(d, (int, float)) for d in (dt, df))
            if not ok_num or not (dt >= 0) or not (df >= 0):
                fail("negative-or-nan", f"true={dt!r} false={df!r} reference outcome {ref_outcome!r}")
            elif dt == 0 and df == 0:
                fail("both-zero", f"true={dt!r} false={df!r} reference outcome {ref_outcome!r}")
            elif dt != 0 and df != 0:
                fail("none-zero", f"true={dt!r} false={df!r} reference outcome {ref_outcome!r}")
            elif ref_outcome is not None and (dt == 0) != bool(ref_outcome):
                fail("wrong-outcome", f"true={dt!r} false={df!r} but Python's operator gives {ref_outcome!r}")

    # ---- operators invoked on user objects: subset of what the comparison itself invokes
    ref_pairs = set(ref_log)
    new_ops = sorted({entry[0].rsplit(".", 1)[1] for entry in tr_log if entry not in ref_pairs})
    if new_ops:
        fail("new-operator:" + new_ops[0], f"operators not invoked by the comparison itself: {new_ops}\nreference log {ref_log!r}\ntracer log {tr_log!r}")
    if len(tr_log) > len(set(tr_log)) or any(e in ref_pairs for e in tr_log):
        out.labels.append("repeated-user-operator")

    # ---- operands unchanged (iterators not consumed)
    pristine = (V.snapshot(V.materialise(r1), consume=True), V.snapshot(V.materialise(r2), consume=True))
    after = (V.snapshot(a2, consume=True), V.snapshot(b2, consume=True) if not case.get("alias") else None)
    if after[0] != pristine[0] or (after[1] is not None and after[1] != pristine[1]):
        fail("operand-consumed", f"operands after the tracer call: {after!r}\nfresh operands: {pristine!r}")

    out.nontrivial = (c1 != c2 and kind != "bool") or V.is_edge(r1) or (kind != "bool" and V.is_edge(r2)) or kind == "exc"
    out.key = [kind, op, r1, r2, case.get("alias")]
    return out
