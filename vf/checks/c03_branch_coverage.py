"""C03 -- reported branch outcomes equal the branches actually taken.

Generated modules (``vf.gen.pygen``) are executed twice: uninstrumented under ``sys.monitoring`` (ground truth: BRANCH events
classified by fall-through offset, PY_START/CALL for code object entry) and through pynguin's real import hook with BRANCH
instrumentation.  Predicates are mapped to the original conditional jumps by linear order (asserted by opcode name); the meaning
of a True/False goal is the ``branch_value`` label of the CFG edge that was actually followed.  "Reported covered" is what the
real ``BranchGoal.is_covered`` / ``BranchlessCodeObjectGoal`` say about the trace.  Part (4): every CFG node ending in a
conditional jump or FOR_ITER is a registered predicate with both goals.  See ``vf/c02c03_harness.py``; DESIGN.md section 3 C03.
"""

from __future__ import annotations

from typing import Any

from hypothesis import strategies as st

from vf.c02c03_harness import evaluate_case, run_shard
from vf.core import Outcome
from vf.gen import pygen

PROPERTY = "C03"
META = {
    "title": "Reported branch outcomes equal the branches actually taken",
    "technique": "differential property-based testing: grammar-generated Python modules, ground truth from sys.monitoring BRANCH/"
                 "PY_START events on the uninstrumented code vs. pynguin's BRANCH instrumentation, CFG edge labels and branch goals",
    "design_ref": "DESIGN.md §3 C03",
    "rule": "case = pygen module model (nested conditions, and/or, chained comparisons, is (not) None, in/not in, string predicates, "
            "except matching, for/while with break/continue/else, match, comprehensions, generators, closures, classes) + 2 argument "
            "tuples per callable + a metric subset containing BRANCH; one evaluation = one observation window (module execution or "
            "one call); non-trivial = some predicate was executed with exactly one of its two outcomes in a window (so a swapped "
            "report is visible); distinct by (module source, calls, metrics)",
    "assumptions": [
        "a BRANCH event (code, src, dst) with dst == offset of the next non-CACHE instruction means 'fell through', any other dst "
        "means 'jumped' (an exhausted 3.12 FOR_ITER lands behind its END_FOR)",
        "the k-th non-artificial conditional jump/FOR_ITER of the instrumented CFG is the k-th one of dis.get_instructions(original); "
        "checked by opcode name, otherwise the case is inconclusive",
        "True/False of a goal = the branch_value label of the CFG edge entered (the reading the control-dependence graph and "
        "DynaMOSA's goal graph rely on)",
        "a window is compared only if the instrumented run had the same outcome kind/exception type as the original run and the "
        "tracer neither raised into the subject nor was left disabled (C01/C04/C05 territory; counted as excluded)",
        "the dynamic-seeding adapter is active as in production (install_import_hook adds it); a window in which it changed "
        "the behaviour of the subject would be excluded as 'behaviour-diverged'",
    ],
    "level_text": "Generated programs x inputs against an independent interpreter-level oracle; exploration, not proof.",
    "level_note": "Trusted: CPython's sys.monitoring and dis, vf.gen.pygen's renderer.",
}
PLAN = {
    "quick": {"shards": 16, "examples": 320, "max_stmts": 14, "max_funcs": 2},
    "thorough": {"shards": 16, "examples": 8000, "timeout": 3000, "max_stmts": 25, "max_funcs": 3},
}
FEATURES = set(pygen.FEATURES)


def strategy(ctx) -> st.SearchStrategy:
    p = ctx.params
    base = pygen.case_strategy(FEATURES, max_funcs=p.get("max_funcs", 2), max_stmts=p.get("max_stmts", 14), per_target=2,
                               values="tame", mismatch=6)
    return st.tuples(base, st.sampled_from([["BRANCH"], ["BRANCH", "LINE"]])).map(
        lambda t: {"module": t[0]["module"], "calls": t[0]["calls"], "metrics": t[1]})


def evaluate(case: dict[str, Any]) -> Outcome:
    """One case in a forked child (used by ``./check --replay`` and for the replay files of known findings)."""
    return evaluate_case(case, "branch")


def shard(ctx) -> None:
    """The campaign of one shard: one supervised worker process, cases evaluated in-process (see ``run_shard``)."""
    run_shard(ctx, strategy(ctx), "branch")
