"""C24 — exported tests round-trip through the seed parser.

Each case: real session on a corpus module -> suite (factory-built tests or a short search) -> optional SIMPLE assertions
-> file A written by the real ``TestSuiteWriter`` exactly as ``generator._export_chromosome`` calls it -> parsed back by the
real initial-population seeding entry point (``InitialPopulationProvider.collect_testcases`` -> ``parse_seed_module``) ->
the parsed test cases written again with the same writer settings (file B).  Files A and B are parsed with ``ast`` and
compared function by function: same decorators, same sequence of statements, and per statement the same multiset of
``assert`` lines — after the two documented normalisations (``<alias>.Name`` == ``Name`` for names the file imports from the
SUT; order of the asserts that follow one statement).
"""

from __future__ import annotations

import ast
import os
import shutil
import tempfile
from collections import Counter
from typing import Any

from hypothesis import strategies as st

from vf.core import Outcome

PROPERTY = "C24"
META = {
    "title": "Exported tests round-trip through the seed parser",
    "technique": "program/history generation: Hypothesis-drawn (module, seeds, suite source, assertion mode, no_xfail, callable/collection "
                 "probabilities) through the real export -> seed-parse -> export pipeline; ast-level comparison of the two files",
    "design_ref": "DESIGN.md §3 C24",
    "rule": "case = corpus module (+/- annotations) x 2..5 factory-built tests (sizes 2..10, drawn seeds) or a 2..5-iteration search x "
            "assertions on/off x no_xfail x drawn callable/collection probabilities. Oracle: file A (export) vs file B (export of the "
            "re-parsed test cases) function by function after ast.unparse: decorators, statement sequence, multiset of asserts per "
            "statement. Non-trivial = some exported function has >= 3 statements and >= 1 assertion; distinct by the whole case",
    "assumptions": ["normalisation 1: `<alias>.Name` and `Name` are the same reference when the file imports Name from the SUT module",
                    "normalisation 2: the order of the asserts that follow one statement is irrelevant",
                    "an exported function whose test case is empty (`pass`) is not required to come back",
                    "the writer re-executes statements under a wall-clock watchdog; the harness raises that limit to 120 s and classifies any "
                    "abandoned re-execution as inconclusive"],
    "level_text": "Generated suites through export -> seed parser -> export; files compared at ast level. Exploration, not proof.",
    "level_note": "Trusted: CPython ast; vf.session wiring equals generator._run; the writer is deterministic for equal test cases "
                  "(the comparison is between two outputs of the same writer).",
}
PLAN = {
    "quick": {"shards": 16, "examples": 320, "timeout": 1500},
    "thorough": {"shards": 16, "examples": 6000, "timeout": 7200},
}


# C24-specific SUT (obeys the corpus rule of DESIGN §2.7): parameter and attribute names that are also public module-level names --
# a keyword argument `factor=...` or an attribute `.scale` in an exported test is then spelled like a name the file imports from the SUT.
EXTRA_SUTS = {
    "vfc24_shadow": '''"""Names used both as module-level callables and as parameter / attribute names."""
from dataclasses import dataclass


def factor(n: int) -> int:
    if n > 10:
        return 10
    if n < 0:
        raise ValueError("negative")
    return n


def scale(value: int, factor: int = 2) -> int:
    if factor < 0:
        raise ValueError("negative factor")
    if factor == 0:
        return 0
    return value + factor


def label(box: "Box") -> str:
    if box.label:
        return box.label
    return "none"


@dataclass
class Box:
    scale: int = 1
    label: str = "b"

    def resized(self, scale: int) -> "Box":
        if scale <= 0:
            raise ValueError("scale must be positive")
        return Box(scale=scale, label=self.label)

    def describe(self, label: str = "") -> str:
        if label:
            return label + ":" + self.label
        return self.label


def widest(first: Box, second: Box, scale: int = 1) -> Box:
    if first.scale + scale >= second.scale:
        return first
    return second
''',
    # results whose type is neither a builtin nor defined in the SUT (asserted by type *name*), and a stdlib exception type
    "vfc24_values": '''"""Results of stdlib types and a stdlib (non-builtin) exception."""
from collections import OrderedDict
from fractions import Fraction
from statistics import StatisticsError


def half(n: int) -> Fraction:
    if n < 0:
        return Fraction(-1, 2)
    return Fraction(1, 2) + n


def pair(key: str, value: int = 0) -> OrderedDict:
    result = OrderedDict()
    if key:
        result[key] = value
    return result


def middle(values: list) -> int:
    if not values:
        raise StatisticsError("no values")
    if len(values) > 2:
        return 2
    return 1


def as_text(value) -> str:
    if isinstance(value, Fraction):
        return "fraction"
    if isinstance(value, OrderedDict):
        return "ordered"
    return "other"
''',
    # a public class nested inside another class: isinstance assertions on its instances name the type `<alias>.Outer.Inner`
    "vfc24_nested": '''"""A class nested inside another class, reachable through its constructor and through factory functions."""


class LinkedList:
    class Node:
        def __init__(self, value: int = 0) -> None:
            self.value = value
            self.next = None

        def is_last(self) -> bool:
            return self.next is None

    def __init__(self) -> None:
        self.head = None
        self.size = 0

    def push(self, value: int) -> "LinkedList.Node":
        node = LinkedList.Node(value)
        node.next = self.head
        self.head = node
        self.size += 1
        return node

    def first(self) -> "LinkedList.Node":
        if self.head is None:
            raise IndexError("empty list")
        return self.head


def make_node(value: int) -> LinkedList.Node:
    if value < 0:
        raise ValueError("negative")
    return LinkedList.Node(value)


def value_of(node: LinkedList.Node) -> int:
    if node.next is not None:
        return node.next.value
    return node.value
''',
}


def strategy(ctx) -> st.SearchStrategy:
    from vf.corpus import MODULES

    return st.fixed_dictionaries({
        "module": st.sampled_from([*MODULES, *EXTRA_SUTS, *EXTRA_SUTS]),
        "strip": st.sampled_from([False, False, True]),
        "seed": st.integers(0, 10**6),
        "source": st.sampled_from(["factory", "factory", "factory", "search"]),
        "algo": st.sampled_from(["MOSA", "WHOLE_SUITE", "RANDOM"]),
        "tests": st.lists(st.tuples(st.integers(0, 10**6), st.integers(2, 10)).map(list), min_size=2, max_size=5),
        "iterations": st.integers(2, 5),
        "assertions": st.sampled_from([True, True, False]),
        "no_xfail": st.booleans(),
        "minimize": st.sampled_from(["OFF", "NONE", "NONE", "CASE"]),
        "callable_argument_probability": st.sampled_from([0.0, 0.3, 0.8]),
        "callable_invocation_probability": st.sampled_from([0.0, 0.25]),
        "collection_reference_probability": st.sampled_from([0.0, 0.5, 1.0]),
        "skip_optional_parameter_probability": st.sampled_from([0.0, 0.7]),
    })


# ------------------------------------------------------------------------------------------ file model (independent: ast only)
class _Unalias(ast.NodeTransformer):
    """normalisation 1: `<alias>.Name` -> `Name` for names imported from the SUT module."""

    def __init__(self, alias: str, imported: set[str]) -> None:
        self.alias, self.imported = alias, imported

    def visit_Attribute(self, node: ast.Attribute) -> ast.AST:  # noqa: N802
        self.generic_visit(node)
        if isinstance(node.value, ast.Name) and node.value.id == self.alias and node.attr in self.imported:
            return ast.copy_location(ast.Name(id=node.attr, ctx=node.ctx), node)
        return node


def file_model(text: str, module_name: str, alias: str) -> list[dict[str, Any]] | None:
    """[{name, decorators, groups: [[statement text, sorted assert texts]]}] of the ``test_*`` functions, or None (syntax error)."""
    try:
        tree = ast.parse(text)
    except SyntaxError:
        return None
    imported: set[str] = set()
    for node in tree.body:
        if isinstance(node, ast.ImportFrom) and node.module == module_name and node.level == 0:
            imported |= {a.asname or a.name for a in node.names if a.asname is None or a.asname == a.name}
    norm = _Unalias(alias, imported)
    functions = []
    for node in tree.body:
        if not (isinstance(node, ast.FunctionDef) and node.name.startswith("test_")):
            continue
        groups: list[list[Any]] = []
        for stmt in node.body:
            stmt = ast.fix_missing_locations(norm.visit(stmt))
            if isinstance(stmt, ast.Assert):
                if not groups:
                    groups.append(["<function start>", []])
                groups[-1][1].append(ast.unparse(stmt))
            else:
                groups.append([ast.unparse(stmt), []])
        for g in groups:
            g[1].sort()  # normalisation 2
        functions.append({"name": node.name, "decorators": [ast.unparse(d) for d in node.decorator_list], "groups": groups,
                          "source": ast.unparse(node), "sut_names": frozenset(imported)})
    return functions


def _stmt_kind(text: str, sut_names: frozenset[str] = frozenset()) -> str:
    """Root-cause class of an exported statement (what the seed parser has to cope with)."""
    import builtins

    try:
        node = ast.parse(text).body[0]
    except (SyntaxError, IndexError):
        return "unparsable"
    if isinstance(node, ast.With):
        kinds = set()
        for item in node.items:
            call = item.context_expr
            if isinstance(call, ast.Call) and ast.unparse(call.func) == "pytest.raises" and call.args:
                exc = ast.unparse(call.args[0])
                root = exc.split(".")[0]
                kinds.add("builtin-exception" if hasattr(builtins, exc) else "sut-exception" if root in sut_names else
                          "imported-exception")
            else:
                kinds.add("other-context")
        inner = "+".join(sorted({_stmt_kind(ast.unparse(b), sut_names) for b in node.body}))
        return f"with-pytest-raises:{'+'.join(sorted(kinds))}:{inner}"
    if any(isinstance(n, ast.Lambda) for n in ast.walk(node)):
        return "lambda"
    if any(isinstance(n, (ast.ListComp, ast.SetComp, ast.DictComp, ast.GeneratorExp)) for n in ast.walk(node)):
        return "comprehension"
    value = node.value if isinstance(node, (ast.Assign, ast.Expr)) else None
    if isinstance(value, (ast.List, ast.Tuple, ast.Set, ast.Dict)):
        return "collection"
    if isinstance(value, ast.Call):
        if any(isinstance(a, ast.Starred) for a in value.args) or any(k.arg is None for k in value.keywords):
            return "call-with-unpacking"
        return "call"
    if isinstance(value, ast.Constant):
        return "literal"
    if isinstance(value, (ast.Name, ast.Attribute)):
        return "reference"
    if isinstance(node, ast.Pass):
        return "pass"
    return type(value if value is not None else node).__name__.lower()


def _rhs(text: str) -> str:
    """The statement without its assignment target: the writer turns `var = X` into `X` when nothing reads var any more, so a
    statement that lost its readers changes its text as a *consequence* of an earlier loss."""
    try:
        node = ast.parse(text).body[0]
    except (SyntaxError, IndexError):
        return text
    if isinstance(node, ast.Assign) and len(node.targets) == 1 and isinstance(node.targets[0], ast.Name):
        return ast.unparse(node.value)
    if isinstance(node, ast.With) and len(node.body) == 1:
        node.body = [ast.parse(_rhs(ast.unparse(node.body[0]))).body[0]]
        return ast.unparse(ast.fix_missing_locations(node))
    return text


def _assert_kind(text: str) -> str:
    if "pytest.approx" in text:
        return "float"
    if "__module__" in text:
        return "type-name"
    if "isinstance(" in text:
        try:
            typ = ast.parse(text).body[0].test.args[1]  # type: ignore[attr-defined]
            if isinstance(typ, ast.Attribute):  # after normalisation 1 a top-level SUT class is a bare name
                return "isinstance-nested-class"
        except (SyntaxError, IndexError, AttributeError):
            pass
        return "isinstance"
    if "len(" in text:
        return "length"
    try:
        test = ast.parse(text).body[0].test  # type: ignore[attr-defined]
    except (SyntaxError, IndexError, AttributeError):
        return "value"
    if isinstance(test, ast.Compare) and isinstance(test.left, ast.Attribute):
        return "field"
    return "value"


def compare_functions(fa: dict[str, Any], fb: dict[str, Any] | None) -> list[tuple[str, str]]:
    """Differences between an exported function (A) and its round-tripped version (B); at most one signature per function."""
    sut = fa["sut_names"]
    if fb is None:
        # every statement was dropped; the first one cannot depend on an earlier loss, so its kind names the root cause
        return [(f"function-lost|{_stmt_kind(fa['groups'][0][0], sut)}", fa["source"][:700])]
    ta = [t for t, _ in fa["groups"]]
    tb = [t for t, _ in fb["groups"]]
    both = f"A:\n{fa['source'][:700]}\nB:\n{fb['source'][:700]}"
    if ta != tb:
        ka, kb = [_rhs(t) for t in ta], [_rhs(t) for t in tb]
        if ka == kb:
            # only assignment targets differ: a lost assertion makes a variable unused, so look at the assertions first
            found = _compare_assertions(fa, fb, ta, both)
            if found:
                return found
            i = next(i for i in range(len(ta)) if ta[i] != tb[i])
            return [(f"assignment-target-differs|{_stmt_kind(ta[i], sut)}", f"statement {i}: A `{ta[i][:200]}` B `{tb[i][:200]}`\n{both}")]
        i = 0
        while i < len(ka) and i < len(kb) and ka[i] == kb[i]:
            i += 1
        if i == len(ka):
            return [("statement-gained", f"B has extra statement `{tb[i][:160]}`\n{both}")]
        what = "changed" if i < len(kb) and ka[i] not in kb[i:] and ka[i + 1:i + 2] == kb[i + 1:i + 2] else "lost"
        return [(f"statement-{what}|{_stmt_kind(ta[i], sut)}",
                 f"first difference at statement {i}: A `{ta[i][:200]}` B `{(tb[i] if i < len(tb) else '<end>')[:200]}`\n{both}")]
    found = _compare_assertions(fa, fb, ta, both)
    if found:
        return found
    if fa["decorators"] != fb["decorators"]:
        return [("decorators-differ", f"A {fa['decorators']} B {fb['decorators']}\n{fa['source'][:500]}")]
    return []


def _compare_assertions(fa: dict[str, Any], fb: dict[str, Any], ta: list[str], both: str) -> list[tuple[str, str]]:
    for i, ((_, aa), (_, ab)) in enumerate(zip(fa["groups"], fb["groups"])):
        if aa != ab:
            missing = list((Counter(aa) - Counter(ab)).elements())
            extra = list((Counter(ab) - Counter(aa)).elements())
            others = Counter(x for j, (_, xs) in enumerate(fb["groups"]) if j != i for x in xs)
            if missing:
                what = "moved" if all(m in others for m in missing) else "lost"
                kind = _assert_kind(missing[0])
            else:
                what, kind = "gained", _assert_kind(extra[0])
            return [(f"assertion-{what}|{kind}",
                     f"after statement {i} `{ta[i][:160]}`: missing {missing[:4]} extra {extra[:4]}\n{both}")]
    return []


# ------------------------------------------------------------------------------------------ the pipeline
class _CaseTimeout(BaseException):
    pass


def _alarm(_signo, _frame):
    raise _CaseTimeout


def _pipeline(case: dict[str, Any], module_dir: str, module_name: str) -> dict[str, Any]:
    from pathlib import Path

    import pynguin.configuration as config
    import pynguin.generator as gen
    import pynguin.testcase.export as export
    from pynguin.analyses.seeding import InitialPopulationProvider, parse_seed_module

    from vf.core import exc_detail, exc_sig, has_pynguin_frame
    from vf.session import Session

    overrides = {
        "test_case_output.no_xfail": case["no_xfail"],
        "test_case_output.format_with_black": False,
        "test_case_output.post_process": case["minimize"] != "OFF",
        "test_case_output.minimization.test_case_minimization_strategy": "NONE" if case["minimize"] == "OFF" else case["minimize"],
        "test_creation.callable_argument_probability": case["callable_argument_probability"],
        "test_creation.callable_invocation_probability": case["callable_invocation_probability"],
        "test_creation.collection_reference_probability": case["collection_reference_probability"],
        "test_creation.skip_optional_parameter_probability": case["skip_optional_parameter_probability"],
        "seeding.initial_population_mutations": 0,
        # documented option: filter flaky assertions by in-process re-execution (no subprocess per case; the corpus is deterministic)
        "test_case_output.filter_assertions_in_subprocess": False,
        # the corpus has no long-running code: a test-execution timeout could only come from machine load
        "stopping.maximum_test_execution_timeout": 120,
        "stopping.test_execution_time_per_statement": 30,
    }
    res: dict[str, Any] = {"stage_error": None, "abandoned": 0, "timeouts": 0}
    abandoned = [0]
    real_guarded = export._exec_statement_guarded  # noqa: SLF001
    real_limit = export._STATEMENT_EXECUTION_TIMEOUT  # noqa: SLF001

    def counting_guarded(code_str, namespace, tracer):
        finished, exc_type = real_guarded(code_str, namespace, tracer)
        if not finished:
            abandoned[0] += 1
        return finished, exc_type

    export._exec_statement_guarded = counting_guarded  # noqa: SLF001
    export._STATEMENT_EXECUTION_TIMEOUT = 120.0  # noqa: SLF001  (machine load must not decide what the writer emits)
    try:
        with Session(module_dir, module_name, seed=case["seed"], algorithm=case["algo"], coverage_metrics=("BRANCH",),
                     assertion_generation="SIMPLE" if case["assertions"] else "NONE", maximum_iterations=case["iterations"],
                     overrides=overrides) as s:
            if case["source"] == "search":
                suite = s.algorithm.generate_tests()
            else:
                chroms = [s.chromosome(s.random_test_case(seed, size)) for seed, size in case["tests"]]
                suite = s.suite([c for c in chroms if c.size() > 0])
            for f in s.algorithm.test_suite_coverage_functions:
                if f not in suite.get_coverage_functions():
                    suite.add_coverage_function(f)
            suite.get_coverage()  # executes every test: ExceptionTruncation below needs the execution results
            s.executor.clear_observers()
            s.executor.clear_remote_observers()
            gen._generate_assertions(s.executor, suite, s.cluster)  # noqa: SLF001  (no-op for NONE)
            # generator._run: statements behind the first raising statement are always truncated before the export
            gen._minimize(suite, s.algorithm)  # noqa: SLF001
            for ch in suite.test_case_chromosomes:
                r = ch.get_last_execution_result()
                if r is not None and r.timeout:
                    res["timeouts"] += 1
            s.subject_properties.instrumentation_tracer.disable()
            res["suite_size"] = suite.size()
            res["alias"] = s.alias
            writer = export.TestSuiteWriter(no_xfail=config.configuration.test_case_output.no_xfail)

            def write(a_suite: Any, where: str) -> str:  # the arguments of generator._export_chromosome
                target = writer.write(a_suite, config.configuration.module_name, Path(s.output_path) / where,
                                      project_path=config.configuration.project_path,
                                      format_with_black=config.configuration.test_case_output.format_with_black,
                                      seed=config.configuration.seeding.seed if s.cluster.sut_uses_random else None,
                                      subject_properties=s.subject_properties)
                return Path(target).read_text(encoding="utf-8")

            stage = "export"
            try:
                res["file_a"] = write(suite, "a")
                stage = "parse"
                provider = InitialPopulationProvider(s.cluster, s.factory)
                provider.collect_testcases(str(Path(s.output_path) / "a"))
                parsed = list(provider._testcases)  # noqa: SLF001
                res["parsed"] = len(parsed)
                # which exported functions come back at all (alignment when some are lost): the same parser, one function at a time
                tree = ast.parse(res["file_a"])
                header = [n for n in tree.body if not isinstance(n, ast.FunctionDef)]
                alive = []
                for fn in [n for n in tree.body if isinstance(n, ast.FunctionDef) and n.name.startswith("test_")]:
                    single = ast.unparse(ast.Module(body=[*header, fn], type_ignores=[])) + "\n"
                    alive.append(len(parse_seed_module(single, s.cluster, create_assertions=case["assertions"])) > 0)
                res["alive"] = alive
                stage = "re-export"
                suite_b = s.suite([s.chromosome(t) for t in parsed])
                res["file_b"] = write(suite_b, "b")
            except Exception as exc:  # noqa: BLE001
                if not has_pynguin_frame(exc):
                    raise
                res["stage_error"] = [stage, exc_sig(exc), exc_detail(exc)]
    finally:
        export._exec_statement_guarded = real_guarded  # noqa: SLF001
        export._STATEMENT_EXECUTION_TIMEOUT = real_limit  # noqa: SLF001
    res["abandoned"] = abandoned[0]
    return res


def _analyse(case: dict[str, Any], module_name: str, res: dict[str, Any], out: Outcome) -> None:
    if res["timeouts"] or res["abandoned"]:
        out.inconclusive = "test execution / statement re-execution ran into a wall-clock limit (time-dependent)"
        return
    if res["stage_error"]:
        stage, sig, detail = res["stage_error"]
        out.fail(f"raises|{stage}|{sig}", f"case={case}\n{detail}")
        return
    if res.get("suite_size", 0) == 0:
        out.inconclusive = "empty suite"
        return
    alias = res["alias"]
    fa = file_model(res["file_a"], module_name, alias)
    fb = file_model(res["file_b"], module_name, alias)
    if fa is None:
        out.fail("exported-file-does-not-parse", res["file_a"][:800])
        return
    if fb is None:
        try:
            ast.parse(res["file_b"])
            msg, line = "?", ""
        except SyntaxError as exc:
            msg = (exc.msg or "").split(",")[0].split("(")[0].strip()
            line = (exc.text or "").strip()
        out.fail(f"re-exported-file-does-not-parse|{msg}", f"offending line: {line[:300]}\ncase={case}\n{res['file_b'][:600]}")
        return
    fa = [f for f in fa if f["name"] != "test_empty"]
    fb = [f for f in fb if f["name"] != "test_empty"]
    # an exported function whose body is only `pass` stands for an empty test case and is not required to come back
    alive = res["alive"]
    if len(alive) != len(fa):
        raise RuntimeError("harness: function count mismatch between the two readings of file A")
    expected_back = sum(1 for ok in alive if ok)
    if expected_back != res["parsed"] or res["parsed"] != len(fb):
        out.fail("parsed-count-differs", f"functions {len(fa)}, parsable one by one {expected_back}, collect_testcases {res['parsed']}, "
                                         f"re-exported {len(fb)}; case={case}")
        return
    it = iter(fb)
    n_functions = n_big = 0
    for f, ok in zip(fa, alive):
        only_pass = [t for t, _ in f["groups"]] == ["pass"]
        g = next(it) if ok else None
        if only_pass and g is None:
            continue
        n_functions += 1
        n_stmts = len(f["groups"])
        n_asserts = sum(len(a) for _, a in f["groups"])
        n_big += n_stmts >= 3 and n_asserts >= 1
        for sig, detail in compare_functions(f, g):
            out.fail(sig, f"{detail}\ncase={case}")
        for t, _ in f["groups"]:
            out.labels.append("stmt:" + _stmt_kind(t, f["sut_names"]))
        for _, asserts in f["groups"]:
            for a in asserts:
                out.labels.append("assert:" + _assert_kind(a))
        if f["decorators"]:
            out.labels.append("function:xfail")
    out.labels = sorted(set(out.labels))
    out.labels += [f"assertions:{case['assertions']}", f"no_xfail:{case['no_xfail']}", f"source:{case['source']}"]
    out.evaluations = max(1, n_functions)
    out.nontrivial = n_big >= 1
    out.sample = {"case": case, "functions": n_functions, "functions_ge3_statements_with_assert": n_big}


def _strip_annotations(src: str) -> str:
    """Same transformation as vf.corpus.materialise_variant(strip_annotations=True)."""
    tree = ast.parse(src)
    for node in ast.walk(tree):
        if isinstance(node, (ast.FunctionDef, ast.AsyncFunctionDef)):
            node.returns = None
            for a in [*node.args.posonlyargs, *node.args.args, *node.args.kwonlyargs, node.args.vararg, node.args.kwarg]:
                if a is not None:
                    a.annotation = None
    return ast.unparse(tree) + "\n"


_WARM = [False]


def _warm() -> None:
    """Pull pynguin's lazily imported modules in once per shard process."""
    if _WARM[0]:
        return
    _WARM[0] = True
    import pynguin.analyses.seeding  # noqa: F401
    import pynguin.generator  # noqa: F401
    import pynguin.testcase.export  # noqa: F401


def evaluate_in_process(case: dict[str, Any]) -> Outcome:
    """Runs inside the worker process, several cases one after the other (``Session.close`` undoes global effects); SIGALRM is
    the inner watchdog against hangs."""
    import signal

    from vf.core import exc_detail, exc_sig, has_pynguin_frame
    from vf.corpus import materialise_variant
    from vf.session import SessionSetupError

    _warm()
    out = Outcome()
    tmp = tempfile.mkdtemp(prefix="vf_c24_", dir=os.environ.get("VF_SCRATCH_DIR") or os.environ.get("VERIF_SCRATCH"))
    old_handler = signal.signal(signal.SIGALRM, _alarm)
    res = None
    module_name = case["module"]
    try:
        module_dir = os.path.join(tmp, "m")
        if case["module"] in EXTRA_SUTS:
            os.makedirs(module_dir)
            src = EXTRA_SUTS[case["module"]]
            if case["strip"]:
                src = _strip_annotations(src)
            with open(os.path.join(module_dir, case["module"] + ".py"), "w", encoding="utf-8") as fh:
                fh.write(src)
        else:
            materialise_variant(case["module"], module_dir, strip_annotations=case["strip"])
        signal.alarm(900)
        try:
            res = _pipeline(case, module_dir, module_name)
        except _CaseTimeout:
            out.inconclusive = "pipeline exceeded 900 s"
        except SessionSetupError:
            out.inconclusive = "session-setup-failed"
        except Exception as exc:  # noqa: BLE001
            if not has_pynguin_frame(exc):
                raise
            out.fail(f"unexpected-exception|{exc_sig(exc)}", exc_detail(exc))
        finally:
            signal.alarm(0)
    finally:
        signal.signal(signal.SIGALRM, old_handler)
        import sys

        sys.modules.pop(module_name, None)
        shutil.rmtree(tmp, ignore_errors=True)
    if res is not None:
        _analyse(case, module_name, res, out)
    return out


def evaluate(case: dict[str, Any]) -> Outcome:
    """Evaluates the case in the shard's persistent forked worker (vf/c15c24c35_worker.py): a crash of the interpreter while
    instrumented code runs, or a hang, ends the worker, not the shard, and is reported as inconclusive (not this property)."""
    from vf.c15c24c35_worker import run_in_worker

    kind, value = run_in_worker(__name__, "evaluate_in_process", case, timeout=1000)
    if kind == "ok":
        return value
    out = Outcome()
    if kind == "exc":
        out.fail(f"unexpected-exception|{value['sig']}", value["detail"])
    elif kind == "signal":
        out.labels.append("class:interpreter-crash")
        out.inconclusive = f"interpreter died with signal {value} while the case ran (instrumented code; C01-C03, not this property)"
    elif kind == "timeout":
        out.inconclusive = "case exceeded 1000 s in the worker"
    else:
        out.inconclusive = f"worker exited with code {value}"
    return out
