"""C09 — dynamic slices are sound and checked lines were executed.

Each case is a generated mini-language module (``vf/oracle/dyndep.py``) plus the two integer arguments of one call
``var_0 = sut.f(a0, a1)``.  In a forked child the module is

* executed *uninstrumented* under ``sys.monitoring`` (``vf/oracle/monitor.py``)  -> executed lines / instructions,
* interpreted by the independent dynamic-dependence interpreter                   -> lines the returned value depends on,
* run through the real pipeline: session with ``coverage_metrics=[CHECKED]``, ``RemoteStatementSlicingObserver`` (and,
  in assertion mode, ``RemoteAssertionExecutionObserver`` + ``compute_assertion_checked_coverage``), hand-built test
  case, plus one direct ``DynamicSlicer.slice`` call on the recorded trace.

Oracles: (1) checked ⊆ executed, (2) slice well-formed, (3) oracle dependences ⊆ checked lines.
"""

from __future__ import annotations

import dis
import os
import shutil
import tempfile
from typing import Any

from hypothesis import strategies as st

from vf.core import Outcome, h12

PROPERTY = "C09"

#: The supported fragment = what the generator emits.  It was widened construct by construct, in this order, while the
#: tree stayed green; see META["rule"] for what is demanded per construct.  "recursion-joined" (a quarter of the recursive
#: helpers: pre-call local assigned in both arms of an if/else, unrestricted body) exercises the known finding
#: C09/recursion-frame-blind-local-uses; its failures carry the signature suffix `|recursion-multi-def`.
FEATURES = ("arith", "if", "while", "call", "nested-call", "global", "attr", "alias", "obj-param", "early-return", "list",
            "computed-index", "list-param", "joined-if", "branchy-helper", "recursion", "recursion-joined")

META = {
    "title": "Dynamic slices are sound and checked lines were executed",
    "technique": "program generation: Hypothesis-drawn mini-language modules + call arguments through the real CHECKED pipeline "
                 "(instrumented import, executor, RemoteStatementSlicingObserver / RemoteAssertionExecutionObserver, DynamicSlicer); "
                 "oracles: sys.monitoring ground truth of the uninstrumented run and an independent dynamic-dependence interpreter "
                 "of the same model (vf/oracle/dyndep.py)",
    "design_ref": "DESIGN.md §3 C09",
    "rule": "case = module of the mini-language {int locals and parameters; + - *; six comparisons; if / if-else; fuel-bounded while "
            "(dedicated counter, bound literal 0..3 or (expr) % 4, nested up to depth 2); calls to 0..2 helper functions of the same "
            "module (as operands anywhere in expressions, nested in arguments, helper->helper); reads of two module-level int globals; "
            "one prelude class Box with attribute get/set on fields v/w; 3-element lists with constant and computed ((expr) % 3) "
            "subscripts for load and store; aliases `o1 = o0` / `l1 = l0`; early `return` at the end of an if-branch (also inside "
            "loops); helpers that receive a Box or a list and read/mutate it; if/else whose arms both end assigning the same variable "
            "(joined-if); branching helpers (own if/else and loops, result depends on the arm taken) called from branching callers, "
            "also from the caller's last top-level block, so that basic-block indices of nested callee blocks coincide with "
            "top-level caller blocks; fuel-bounded self-recursive helpers hK(a0, a1) (guard `if a1 <= 0: return`, then a fresh "
            "local defined before `vR = hK(e, a1 - 1)` and used after it; besides that only straight-line assignments to fresh "
            "locals, calls to other helpers allowed; entry fuel (e) % 3, depth <= 3; a quarter of the recursive helpers instead assign the "
            "pre-call local in both arms of an if/else and have unrestricted bodies: a missing line inside a recursive helper "
            "that assigns some local on more than one line gets the signature suffix |recursion-multi-def, a missing line "
            "inside a helper that such a recursive helper calls (transitively) gets |recursion-multi-def-callee = known findings "
            "recursion-frame-blind-local-uses / recursion-reentrant-return-line)}, rendered one statement per "
            "line, + two int arguments of "
            "`var_0 = sut.f(a0, a1)`; mode statement (criterion = store of var_0) or assertion (`assert var_0 == value` sliced as well). "
            "Oracles per case: (1) every checked line was executed (sys.monitoring, instruction-level upper bracket, import included); "
            "(2) DynamicSlicer.slice contains its criterion and only instructions that were executed no later than the criterion "
            "(trace entry with the same (code object, node, index), or - for instruction kinds that are never traced - an "
            "INSTRUCTION event with the same (line, opname)); (3) lines in the dynamic data+control dependence closure of the "
            "returned value ⊆ checked lines of every pipeline (observer, direct slice, assertion slice). Closure: instance based "
            "(Korel-Laski): operands -> last defining instance (locals, parameters -> argument expressions + call line, globals -> "
            "module-level assignment, attribute / list cells -> last store into that cell of that object, subscript loads -> also the "
            "definition of the list variable, call results -> callee return instance + def/class line of the callee); control -> "
            "if-predicate instance of the branch taken, k-th while-header evaluation for the k-th iteration and the (k+1)-th "
            "evaluation, call line for the callee's statements, predicate of an if/while containing a return for what follows it. "
            "NOT demanded (calibrated on the unchanged tree): loop-exit evaluations; the definition of the variable through which the "
            "object of an attribute access or of a store is reached (`o1 = o0` for `o1.v`, `l1 = l0` for `l1[0] = e`): pynguin's "
            "stack simulation documents that it does not search those uses - counted as `observed:` labels instead; the `def "
            "__init__` line. "
            "Non-trivial = closure has >= 3 lines and >= 1 executed line of a function body is outside it; distinct by model+arguments+mode",
    "assumptions": ["the module compiles to the same bytecode in the harness (compile(..., dont_inherit=True)) and in pynguin's import hook",
                    "the interpreter's semantics of the mini-language equals Python's: cross-checked per case (returned value and "
                    "executed line set must equal the uninstrumented run, otherwise the harness aborts with exit 2)",
                    "the oracle demands a lower bound only: a callee's statements depend on the call line, not on argument "
                    "expressions they do not read; heap cells are tracked per object and field/index",
                    "cases are evaluated one after the other in a forked worker process (recycled every 40 cases, replaced after a "
                    "crash or hang), each with its own session and a unique module name"],
    "level_text": "Generated programs of a fixed language fragment through the real slicing pipeline, against an interpreter-computed "
                  "dependence closure and sys.monitoring ground truth. Soundness is relative to the fragment; outside it only (1) and (2) "
                  "would apply. Exploration, not proof.",
    "level_note": "Trusted: vf.session wiring equals generator._run for CHECKED; CPython's sys.monitoring; the 350-line interpreter.",
}
PLAN = {
    "quick": {"shards": 16, "examples": 160, "timeout": 1500, "features": list(FEATURES),
              "shrink_calls": 60, "shrink_seconds": 20, "shrink_sigs": 2},
    "thorough": {"shards": 16, "examples": 3200, "timeout": 6000, "features": list(FEATURES),
                 "shrink_calls": 400, "shrink_seconds": 120},
}

OPS = ["+", "-", "*"]
CMPS = ["<", "<=", "==", "!=", ">", ">="]


# --------------------------------------------------------------------------------------------------
# generator
# --------------------------------------------------------------------------------------------------
class _Gen:
    """Type-directed generator of one function body; all choices come from ``draw``."""

    def __init__(self, draw, feats: frozenset[str], helpers: list[str], kind: str = "int") -> None:
        self.draw = draw
        self.feats = feats
        self.helpers = helpers  # kinds of the helpers that may be called
        self.ints = ["a0", "a1"]
        self.objs = ["q"] if kind == "obj" else []
        self.lsts = ["m"] if kind == "lst" else []
        self.n_int = self.n_obj = self.n_lst = self.n_cnt = 0
        self.loop_depth = 0
        self.single_def = False

    def pick(self, n: int) -> int:
        return self.draw(st.integers(0, n - 1))

    def choose(self, weighted: list[tuple[str, int]]) -> str:
        names = [n for n, w in weighted for _ in range(w)]
        return names[self.pick(len(names))]

    # ---- expressions
    def leaf(self) -> list:
        opts = [("var", 5), ("const", 2)]
        if "global" in self.feats:
            opts.append(("global", 1))
        if self.objs:
            opts.append(("attr", 3))
        if self.lsts:
            opts.append(("sub", 3))
        k = self.choose(opts)
        if k == "var":
            # prefer recently defined variables
            i = len(self.ints) - 1 - min(self.pick(len(self.ints)), self.pick(len(self.ints)))
            return ["v", self.ints[i]]
        if k == "const":
            return ["c", self.draw(st.integers(-3, 9))]
        if k == "global":
            return ["g", self.pick(2)]
        if k == "attr":
            return ["attr", self.objs[self.pick(len(self.objs))], ("v", "w")[self.pick(2)]]
        return ["sub", self.lsts[self.pick(len(self.lsts))], self.index()]

    def index(self) -> list:
        if "computed-index" in self.feats and self.pick(3) == 0:
            return ["v", self.ints[self.pick(len(self.ints))]]
        return ["c", self.pick(3)]

    def expr(self, depth: int) -> list:
        if depth <= 0:
            return self.leaf()
        opts = [("leaf", 3), ("bin", 4)]
        if self.helpers and "call" in self.feats:
            opts.append(("call", 2))
        k = self.choose(opts)
        if k == "leaf":
            return self.leaf()
        if k == "bin":
            return ["b", OPS[self.pick(3)], self.expr(depth - 1), self.expr(depth - 1)]
        return self.call(depth)

    def call(self, depth: int) -> list:
        usable = [i for i, kind in enumerate(self.helpers)
                  if kind in ("int", "rec") or (kind == "obj" and self.objs) or (kind == "lst" and self.lsts)]
        if not usable:
            return self.leaf()
        i = usable[self.pick(len(usable))]
        sub = depth - 1 if "nested-call" in self.feats else 0
        if self.helpers[i] == "rec":
            return ["rcall", i, self.expr(sub), self.expr(sub)]
        e = ["call", i, self.expr(sub), self.expr(sub)]
        if self.helpers[i] == "obj":
            e.append(self.objs[self.pick(len(self.objs))])
        elif self.helpers[i] == "lst":
            e.append(self.lsts[self.pick(len(self.lsts))])
        return e

    def ret_expr(self) -> list:
        """The returned expression: biased towards heap reads so that stores matter for the criterion."""
        e = self.expr(2)
        if self.objs and self.pick(3):
            e = ["b", OPS[self.pick(3)], ["attr", self.objs[self.pick(len(self.objs))], ("v", "w")[self.pick(2)]], e]
        if self.lsts and self.pick(3):
            e = ["b", OPS[self.pick(3)], e, ["sub", self.lsts[self.pick(len(self.lsts))], self.index()]]
        return e

    def cond(self) -> list:
        return ["cmp", CMPS[self.pick(6)], self.expr(1), self.expr(1)]

    # ---- statements
    def target(self) -> str:
        """An int variable to assign: an existing local (not a parameter, not a loop counter) or a fresh one."""
        existing = [v for v in self.ints if v.startswith("v")]
        if existing and self.pick(2) == 0:
            return existing[self.pick(len(existing))]
        name = f"v{self.n_int}"
        self.n_int += 1
        self.ints.append(name)
        return name

    def block(self, n: int, depth: int, may_return: bool = False) -> list:
        saved = (list(self.ints), list(self.objs), list(self.lsts))
        out = [self.stmt(depth) for _ in range(n)]
        if may_return and "early-return" in self.feats and self.pick(4) == 0:
            out.append(["ret", self.expr(1)])
        # names first bound inside a nested block are not definitely assigned afterwards
        if depth > 0:
            self.ints, self.objs, self.lsts = saved
        return out

    def joined_if(self, c: list, depth: int) -> list:
        """``if c: ...; v = e1  else: ...; v = e2`` - both arms end with an assignment to the same variable, which is
        therefore definitely assigned (and data dependent on the arm taken) afterwards."""
        then = self.block(self.pick(2), depth + 1)
        e1 = self.expr(1)
        els = self.block(self.pick(2), depth + 1)
        e2 = self.expr(1)
        name = self.target()
        return ["if", c, [*then, ["set", name, e1]], [*els, ["set", name, e2]]]

    def stmt(self, depth: int) -> list:
        if self.single_def:
            # bodies of recursive helpers: every local has exactly one defining line (HEAD resolves the use of an outer
            # frame by the definition of an inner frame of the same code object - sound only if that is the same line)
            e = self.expr(2)
            name = f"v{self.n_int}"
            self.n_int += 1
            self.ints.append(name)
            return ["set", name, e]
        opts = [("set", 5)]
        if depth < 2:
            if "if" in self.feats:
                opts.append(("if", 3))
            if "while" in self.feats and self.loop_depth < 2:
                opts.append(("while", 2))
        if "attr" in self.feats:
            opts.append(("new", 1))
            if self.objs:
                opts.append(("setattr", 3))
        if "list" in self.feats:
            opts.append(("newlist", 1))
            if self.lsts:
                opts.append(("setsub", 3))
        if "alias" in self.feats and (self.objs or self.lsts):
            opts.append(("alias", 1))
        k = self.choose(opts)
        if k == "set":
            e = self.expr(2)
            return ["set", self.target(), e]
        if k == "if":
            c = self.cond()
            if "joined-if" in self.feats and self.pick(2) == 0:
                return self.joined_if(c, depth)
            then = self.block(1 + self.pick(2), depth + 1, may_return=True)
            els = self.block(self.pick(3), depth + 1) if self.pick(2) == 0 else []
            return ["if", c, then, els]
        if k == "while":
            name = f"c{self.n_cnt}"
            self.n_cnt += 1
            bound = ["c", self.pick(4)] if self.pick(3) else self.expr(1)
            self.ints.append(name)  # readable inside (and, definitely assigned, after) the loop
            self.loop_depth += 1
            body = self.block(1 + self.pick(3), depth + 1)
            self.loop_depth -= 1
            if name not in self.ints:
                self.ints.append(name)
            return ["while", name, bound, body]
        if k == "new":
            e1, e2 = self.expr(1), self.expr(1)
            name = f"o{self.n_obj}"
            self.n_obj += 1
            self.objs.append(name)
            return ["new", name, e1, e2]
        if k == "setattr":
            return ["setattr", self.objs[self.pick(len(self.objs))], ("v", "w")[self.pick(2)], self.expr(2)]
        if k == "newlist":
            es = [self.expr(1), self.expr(1), self.expr(1)]
            name = f"l{self.n_lst}"
            self.n_lst += 1
            self.lsts.append(name)
            return ["newlist", name, es]
        if k == "setsub":
            return ["setsub", self.lsts[self.pick(len(self.lsts))], self.index(), self.expr(2)]
        # alias
        pool = [("o", x) for x in self.objs] + [("l", x) for x in self.lsts]
        typ, src = pool[self.pick(len(pool))]
        if typ == "o":
            name = f"o{self.n_obj}"
            self.n_obj += 1
            self.objs.append(name)
        else:
            name = f"l{self.n_lst}"
            self.n_lst += 1
            self.lsts.append(name)
        return ["alias", name, src]


def _recursive_helper(draw, feats: frozenset[str], callable_kinds: list[str], k: int) -> dict[str, Any]:
    """``hK(a0, a1)`` with fuel a1::

        <0..2 statements>
        if a1 <= 0:
            return <expr>
        vP = <expr>                               a local defined before the recursive call (not in the base frame) ...
        vR = hK(<expr>, a1 - 1)
        <0..2 statements>
        return (vP op vR) op <expr>               ... and used after it

    With the feature "recursion-joined" vP is instead assigned in both arms of an if/else, i.e. on different lines in
    different frames (not part of the default fragment: HEAD resolves a use to a definition of an inner frame).
    """
    g = _Gen(draw, feats, callable_kinds, "int")
    multi = "recursion-joined" in feats and g.pick(4) == 0  # modest rate: exercises the known finding
    g.single_def = not multi
    body = g.block(g.pick(3), 0)
    # mostly keep the earlier locals out of the base value and of the argument, so that only the use *after* the
    # recursive call needs the definition of vP
    visible = list(g.ints)
    if g.pick(4):
        g.ints = ["a0", "a1"]
    base = g.expr(1)
    arg = g.expr(1)
    g.ints = visible
    body.append(["if", ["cmp", "<=", ["v", "a1"], ["c", 0]], [["ret", base]], []])
    if multi:
        body.append(g.joined_if(g.cond(), 0))
        pre = body[-1][2][-1][1]
    else:
        e = g.expr(2)
        pre = f"v{g.n_int}"  # always a fresh name: defined on exactly this line
        g.n_int += 1
        g.ints.append(pre)
        body.append(["set", pre, e])
    rec = f"v{g.n_int}"
    g.n_int += 1
    g.ints.append(rec)
    body.append(["set", rec, ["self", k, arg]])
    body += g.block(g.pick(3), 0)
    ret = ["b", OPS[g.pick(3)], ["b", OPS[g.pick(3)], ["v", pre], ["v", rec]], g.expr(1)]
    return {"kind": "rec", "body": body, "ret": ret}


@st.composite
def programs(draw, feats: frozenset[str]) -> dict[str, Any]:
    helper_kinds: list[str] = []
    helpers = []
    n_helpers = draw(st.integers(0, 3)) if "call" in feats else 0
    for _ in range(n_helpers):
        kinds = ["int", "int"]
        if "obj-param" in feats and "attr" in feats:
            kinds.append("obj")
        if "list-param" in feats and "list" in feats:
            kinds.append("lst")
        if "recursion" in feats:
            kinds += ["rec", "rec"]
        kind = kinds[draw(st.integers(0, len(kinds) - 1))]
        k = len(helpers)
        if kind == "rec":
            helpers.append(_recursive_helper(draw, feats, list(helper_kinds), k))
            helper_kinds.append(kind)
            continue
        g = _Gen(draw, feats, list(helper_kinds), kind)
        if "branchy-helper" in feats and g.pick(3):
            # a branching helper whose result depends on the arm taken: blocks inside if/else (and loops) get the block
            # indices that are top-level blocks in its callers
            body = g.block(g.pick(3), 0)
            body.append(g.joined_if(g.cond(), 0))
            joined = body[-1][2][-1][1]
            body += g.block(g.pick(3), 0)
            ret = ["b", OPS[g.pick(3)], ["v", joined], g.ret_expr()]
        else:
            body = g.block(draw(st.integers(1, 4)), 0)
            ret = g.ret_expr()
        helpers.append({"kind": kind, "body": body, "ret": ret})
        helper_kinds.append(kind)
    g = _Gen(draw, feats, helper_kinds)
    body = g.block(draw(st.integers(3, 10)), 0)
    ret = g.ret_expr()
    if helper_kinds and "branchy-helper" in feats and g.pick(4):
        # a call in the last top-level block of the caller whose result reaches the criterion
        recs = [i for i, kind in enumerate(helper_kinds) if kind == "rec"]
        if recs and g.pick(2):
            call = ["rcall", recs[g.pick(len(recs))], g.expr(1), g.expr(1)]
        else:
            call = g.call(1)
        ret = ["b", OPS[g.pick(2)], call, ret]
    return {
        "program": {"globals": [draw(st.integers(-2, 6)), draw(st.integers(-2, 6))], "helpers": helpers,
                    "main": {"body": body, "ret": ret}, "args": [draw(st.integers(-2, 5)), draw(st.integers(-2, 5))]},
        "mode": draw(st.sampled_from(["statement", "statement", "assertion"])),
    }


def strategy(ctx) -> st.SearchStrategy:
    return programs(frozenset(ctx.params.get("features", FEATURES)))


# --------------------------------------------------------------------------------------------------
# the forked child: ground truth, oracle, real pipeline
# --------------------------------------------------------------------------------------------------
def multi_def_recursive_ranges(model: dict[str, Any], lay: dict[str, Any]) -> list[list[int]]:
    """[first line, last line] of every recursive helper that assigns some local on more than one line."""

    def assigned(stmts: list[dict[str, Any]], acc: dict[str, set[int]]) -> int:
        last = 0
        for s in stmts:
            k = s["k"]
            last = max(last, s["line"])
            if k in ("set", "new", "newlist", "alias"):
                acc.setdefault(s["name"], set()).add(s["line"])
            elif k == "if":
                last = max(last, assigned(s["then"], acc), assigned(s["else"], acc))
            elif k == "while":
                acc.setdefault(s["counter"], set()).update((s["init"], s["inc"]))
                last = max(last, s["inc"], assigned(s["body"], acc))
        return last

    out = []
    for h, fn in zip(model["helpers"], lay["helpers"]):
        if h.get("kind") != "rec":
            continue
        acc: dict[str, set[int]] = {}
        last = assigned(fn["body"], acc)
        if any(len(lines) > 1 for lines in acc.values()):
            out.append([fn["def_line"], last])
    return out


def multi_def_callee_ranges(model: dict[str, Any], lay: dict[str, Any]) -> list[list[int]]:
    """[first line, last line] of every *other* helper that a multi-def recursive helper calls (transitively): the
    frame-blind use tracking drops the defining instance of the outer frame, and with it the calls that instance makes."""
    multi = multi_def_recursive_ranges(model, lay)
    starts = {r[0] for r in multi}

    def callees(node: Any, acc: set[int]) -> None:
        if isinstance(node, list):
            if node and node[0] in ("call", "rcall", "self") and isinstance(node[1], int):
                acc.add(node[1])
            for x in node:
                callees(x, acc)

    graph = []
    for h in model["helpers"]:
        acc: set[int] = set()
        callees(h["body"], acc)
        callees(h["ret"], acc)
        graph.append(acc)
    todo = [i for i, fn in enumerate(lay["helpers"]) if fn["def_line"] in starts]
    seen = set(todo)
    while todo:
        for j in graph[todo.pop()]:
            if j not in seen:
                seen.add(j)
                todo.append(j)

    def last_line(stmts: list[dict[str, Any]]) -> int:
        last = 0
        for st_ in stmts:
            last = max(last, st_["line"], st_.get("inc", 0))
            for key in ("then", "else", "body"):
                if key in st_:
                    last = max(last, last_line(st_[key]))
        return last

    return [[lay["helpers"][i]["def_line"], last_line(lay["helpers"][i]["body"])] for i in sorted(seen)
            if lay["helpers"][i]["def_line"] not in starts]


class HarnessError(RuntimeError):
    """Model, renderer, interpreter and CPython disagree — a bug of this check, never a verdict."""


def _ground_truth(source: str, path: str, args: list[int]) -> dict[str, Any]:
    from vf.oracle.monitor import Monitor, all_code_objects

    code = compile(source, path, "exec", dont_inherit=True)
    codes = all_code_objects(code)
    ns: dict[str, Any] = {"__name__": "vfsut_ground_truth"}
    with Monitor(codes) as mon:
        with mon.window() as obs:
            exec(code, ns)  # noqa: S102
            value = ns["f"](*args)
    pairs = set()
    for c in codes:
        table = {ins.offset: ins for ins in dis.get_instructions(c)}
        for off in obs.offsets(c):
            ins = table.get(off)
            if ins is not None and ins.positions is not None and ins.positions.lineno is not None:
                pairs.add((ins.positions.lineno, ins.opname))
    return {"value": value, "lo": sorted(obs.lines_lo()), "hi": sorted(obs.lines_hi()), "pairs": pairs}


def _key(x: Any) -> tuple[int, int, int]:
    return (x.code_object_id, x.node_id, x.instr_original_index)


def _wellformed(slice_, executed, pos: int, sut_path: str, pairs: set[tuple[int, str]], what: str) -> list[list[str]]:
    """Oracle (2) for one slice; returns [signature, detail] pairs."""
    fails: list[list[str]] = []
    first: dict[tuple[int, int, int], int] = {}
    for i, e in enumerate(executed):
        first.setdefault(_key(e), i)
    traced_kinds = {e.name for e in executed}
    keys = {_key(u) for u in slice_}
    if _key(executed[pos]) not in keys:
        fails.append([f"slice|{what}|criterion-missing", f"criterion {executed[pos]} not in the slice"])
    seen: set[str] = set()
    for u in slice_:
        at = first.get(_key(u))
        sig = None
        if at is not None:
            if at > pos:
                sig = f"slice|{what}|instruction-first-executed-after-criterion|{u.name}"
        elif u.name in traced_kinds:
            sig = f"slice|{what}|traced-kind-without-trace-entry|{u.name}"
        elif u.file == sut_path and isinstance(u.lineno, int) and (u.lineno, u.name) not in pairs:
            sig = f"slice|{what}|instruction-not-executed|{u.name}"
        if sig is not None and sig not in seen:
            seen.add(sig)
            fails.append([sig, f"{u} code_object={u.code_object_id} node={u.node_id} index={u.instr_original_index}"])
    return fails


def _child(case: dict[str, Any]) -> dict[str, Any]:
    from vf.oracle import dyndep
    from vf.session import Session

    model = case["program"]
    lay = dyndep.layout(model)
    name = "vfsut_" + h12(case)
    scratch = tempfile.mkdtemp(prefix="c09_", dir=os.environ.get("VERIF_SCRATCH"))
    try:
        path = os.path.join(scratch, name + ".py")
        with open(path, "w") as fh:
            fh.write(lay["source"])
        args = [int(a) for a in model["args"]]
        try:
            oracle = dyndep.interpret(model, lay, fuel=3000)
        except dyndep.TooLong:
            return {"skipped": "more than 3000 statement instances"}
        truth = _ground_truth(lay["source"], path, args)
        if oracle["value"] != truth["value"]:
            raise HarnessError(f"interpreter returned {oracle['value']}, CPython {truth['value']}\n{lay['source']}")
        if oracle["executed"] != truth["lo"]:
            raise HarnessError(f"interpreter executed {oracle['executed']}, LINE events {truth['lo']}\n{lay['source']}")
        res: dict[str, Any] = {"oracle": {k: oracle[k] for k in ("value", "deps", "executed", "stats", "instances")},
                               "first_missing": {}, "hi": truth["hi"], "n_lines": lay["n_lines"], "fails": [],
                               "multi_def_ranges": multi_def_recursive_ranges(model, lay),
                               "multi_def_callee_ranges": multi_def_callee_ranges(model, lay),
                               "body_lines": sorted(l for l, k in oracle["kinds"].items()
                                                    if k not in ("class", "def", "global"))}

        import pynguin.assertion.assertion as ass
        from pynguin.ga.checked_coverage import compute_assertion_checked_coverage
        from pynguin.instrumentation import AST_FILENAME
        from pynguin.slicer.dynamicslicer import DynamicSlicer, SlicingCriterion
        from pynguin.slicer.statementslicingobserver import RemoteStatementSlicingObserver
        from pynguin.testcase.execution_observers import RemoteAssertionExecutionObserver

        overrides = {"stopping.maximum_slicing_time": 600, "stopping.maximum_test_execution_timeout": 300,
                     "stopping.test_execution_time_per_statement": 300}
        with Session(scratch, name, seed=0, algorithm="MOSA", coverage_metrics=("CHECKED",), instantiate=False,
                     overrides=overrides) as s:
            sp = s.subject_properties
            s.executor.add_remote_observer(RemoteStatementSlicingObserver())  # as generator._run does for CHECKED
            test = s.build_test_case_from_calls([{"fn": "f", "args": args}])
            if case["mode"] == "assertion":
                s.executor.add_remote_observer(RemoteAssertionExecutionObserver())
                test.statements()[0].assertions.append(ass.ObjectAssertion("var_0", truth["value"]))
            result = s.executor.execute(test)
            if result.timeout:
                return {"inconclusive": "test execution timed out"}
            if result.exceptions:
                # the uninstrumented run above returned normally: the exception comes from the instrumented execution
                kinds = "+".join(sorted({type(e).__name__ for e in result.exceptions.values()}))
                return {"fails": [[f"instrumented-run-raised|{kinds}", f"{result.exceptions!r}\n{lay['source']}"]],
                        "aborted": True}
            trace = result.execution_trace
            executed = trace.executed_instructions

            def line_numbers(ids) -> list[int]:
                out = []
                for i in ids:
                    meta = sp.existing_lines[i]
                    if os.path.abspath(meta.file_name) != path:
                        res["fails"].append(["checked|line-of-foreign-file", f"{meta.file_name}:{meta.line_number}"])
                    else:
                        out.append(meta.line_number)
                return sorted(set(out))

            res["checked"] = {"statement": line_numbers(trace.checked_lines)}
            # direct slice, criterion located independently of the observer's offset arithmetic
            stores = [i for i, e in enumerate(executed)
                      if e.file == AST_FILENAME and e.name == "STORE_NAME" and e.argument == "var_0"]
            if len(stores) != 1:
                raise HarnessError(f"expected one store of var_0 in the trace, found {len(stores)}")
            slicer = DynamicSlicer(sp.existing_code_objects)
            own = slicer.slice(trace, SlicingCriterion(stores[0]))
            res["fails"] += _wellformed(own, executed, stores[0], path, truth["pairs"], "direct")
            res["checked"]["direct"] = line_numbers(DynamicSlicer.map_instructions_to_lines(own, sp))
            res["trace_len"] = len(executed)
            res["slice_len"] = len(own)
            if case["mode"] == "assertion":
                if len(trace.executed_assertions) != 1:
                    res["fails"].append(["assertion|not-recorded-exactly-once",
                                         f"{len(trace.executed_assertions)} executed assertions for one passing assert"])
                else:
                    ea = trace.executed_assertions[0]
                    pos = ea.trace_position
                    if not (pos > stores[0] and executed[pos].file == AST_FILENAME
                            and executed[pos].name.startswith("POP_JUMP")):
                        res["fails"].append(["assertion|position-is-not-the-assert-jump", f"{pos}: {executed[pos]}"])
                    compute_assertion_checked_coverage(trace, sp)  # fills assertion.checked_instructions
                    instrs = list(ea.assertion.checked_instructions)
                    res["fails"] += _wellformed(instrs, executed, pos, path, truth["pairs"], "assertion")
                    res["checked"]["assertion"] = line_numbers(DynamicSlicer.map_instructions_to_lines(instrs, sp))
        for what, lines in res["checked"].items():
            res["first_missing"][what] = [list(x) for x in dyndep.first_missing(oracle, set(lines))]
        # not a verdict, only counted: what the stricter reading (definition of the variable through which an object is
        # reached) would additionally demand
        strict = dyndep.interpret(model, lay, object_var_deps=True)
        res["strict_missing"] = [list(x) for x in dyndep.first_missing(strict, set(res["checked"]["statement"]) | (
            set(oracle["deps"]) - set(res["checked"]["statement"])))]
        return res
    finally:
        shutil.rmtree(scratch, ignore_errors=True)


# --------------------------------------------------------------------------------------------------
# verdicts
# --------------------------------------------------------------------------------------------------
def _constructs(model: dict[str, Any]) -> set[str]:
    found: set[str] = set()

    def ex(e: list) -> None:
        if e[0] == "b":
            found.add("arith")
            ex(e[2])
            ex(e[3])
        elif e[0] == "g":
            found.add("global")
        elif e[0] == "attr":
            found.add("attr-load")
        elif e[0] == "sub":
            found.add("subscr-load")
            if e[2][0] != "c":
                found.add("computed-index")
                ex(e[2])
        elif e[0] == "self":
            found.add("recursion")
            ex(e[2])
        elif e[0] == "rcall":
            found.add("call")
            found.add("call-of-recursive-helper")
            ex(e[2])
            ex(e[3])
        elif e[0] == "call":
            found.add("call")
            for a in (e[2], e[3]):
                if _has_call(a):
                    found.add("nested-call")
                ex(a)
            if len(e) > 4:
                found.add("object-argument")

    def _has_call(e: list) -> bool:
        return e[0] == "call" or (e[0] == "b" and (_has_call(e[2]) or _has_call(e[3])))

    def bl(stmts: list, depth: int, in_loop: bool) -> None:
        for s in stmts:
            k = s[0]
            if k == "set":
                ex(s[2])
            elif k == "if":
                found.add("if-else" if s[3] else "if")
                if depth:
                    found.add("nested-block")
                ex(s[1][2])
                ex(s[1][3])
                bl(s[2], depth + 1, in_loop)
                bl(s[3], depth + 1, in_loop)
            elif k == "while":
                found.add("while")
                if in_loop:
                    found.add("nested-loop")
                if s[2][0] != "c":
                    found.add("computed-bound")
                    ex(s[2])
                bl(s[3], depth + 1, True)
            elif k == "new":
                found.add("new-object")
                ex(s[2])
                ex(s[3])
            elif k == "setattr":
                found.add("attr-store")
                ex(s[3])
            elif k == "newlist":
                found.add("new-list")
                for x in s[2]:
                    ex(x)
            elif k == "setsub":
                found.add("subscr-store")
                if s[2][0] != "c":
                    found.add("computed-index")
                    ex(s[2])
                ex(s[3])
            elif k == "alias":
                found.add("alias")
            elif k == "ret":
                found.add("early-return-in-loop" if in_loop else "early-return")
                ex(s[1])

    for h in model["helpers"]:
        found.add("helper:" + h["kind"])
        bl(h["body"], 0, False)
        ex(h["ret"])
    bl(model["main"]["body"], 0, False)
    ex(model["main"]["ret"])
    return found


def _analyse(case: dict[str, Any], res: dict[str, Any], out: Outcome) -> None:
    if "inconclusive" in res:
        out.inconclusive = res["inconclusive"]
        return
    if "skipped" in res:
        out.labels.append("skipped:" + res["skipped"])
        out.excluded = 1
        return
    for sig, detail in res["fails"]:
        out.fail(sig, f"{detail}\ncase={case}")
    if res.get("aborted"):
        return
    hi = set(res["hi"])
    deps = set(res["oracle"]["deps"])
    pipelines = sorted(res["checked"])
    missing: dict[tuple[int, str, str], list[str]] = {}
    for what, lines in res["checked"].items():
        stray = sorted(set(lines) - hi)
        if stray:
            out.fail(f"checked-not-executed|{what}", f"checked lines {stray} were not executed (executed: {sorted(hi)})\ncase={case}")
        for line, typ, kind in res["first_missing"][what]:
            missing.setdefault((line, typ, kind), []).append(what)
        if not res["first_missing"][what] and deps - set(lines):
            raise HarnessError(f"missing lines {sorted(deps - set(lines))} without a frontier")
    for (line, typ, kind), whats in sorted(missing.items()):
        # one bucket per (dependence type, kind of the missing statement); the pipeline is part of the bucket only
        # when the pipelines disagree (e.g. only the observer's criterion is off)
        where = "" if sorted(whats) == pipelines else "only-" + "+".join(sorted(whats)) + "|"
        # known finding recursion-frame-blind-local-uses: uses are keyed by (name, code object), so the use of an outer
        # frame is resolved (and removed) by a definition in an inner frame of the same recursive function
        suffix = "|recursion-multi-def" if any(lo <= line <= hi_ for lo, hi_ in res.get("multi_def_ranges", [])) else ""
        if not suffix and any(lo <= line <= hi_ for lo, hi_ in res.get("multi_def_callee_ranges", [])):
            # same root cause seen through a callee: the dropped instance of the outer frame made this call
            suffix = "|recursion-multi-def-callee"
        out.fail(f"unsound|{where}{typ}|{kind}{suffix}",
                 f"line {line} ({kind}) is a {typ} dependence of the returned value but not in the checked lines of "
                 f"{sorted(whats)}; oracle={sorted(deps)} checked={res['checked']}\ncase={case}")
    if res.get("multi_def_ranges"):
        out.labels.append("class:recursive-helper-with-multi-def-local")
    for typ, kind in sorted({(t, k) for _l, t, k in res.get("strict_missing", [])}):
        out.labels.append(f"observed:base-variable-definition-not-checked({kind})")
    stats = res["oracle"]["stats"]
    body = set(res["body_lines"])
    outside = body - deps
    out.nontrivial = len(deps) >= 3 and len(outside) >= 1
    out.labels.append(f"mode:{case['mode']}")
    out.labels += sorted("construct:" + c for c in _constructs(case["program"]))
    for key in ("calls", "iterations", "heap_reads", "heap_writes", "early_returns", "recursive_calls"):
        if stats.get(key):
            out.labels.append(f"dynamic:{key}")
    out.labels.append("slice-size:" + ("1-2" if len(deps) < 3 else "3-7" if len(deps) < 8 else "8-15" if len(deps) < 16 else "16+"))
    if not outside:
        out.labels.append("class:every-executed-body-line-demanded")
    out.sample = {"case": case, "oracle_lines": sorted(deps), "checked": res["checked"], "trace_len": res.get("trace_len"),
                  "slice_len": res.get("slice_len")}


def _preimport() -> None:
    """Import everything the child needs once in the parent, so that a fork costs milliseconds."""
    import libcst  # noqa: F401
    import pynguin.assertion.assertion  # noqa: F401
    import pynguin.ga.checked_coverage  # noqa: F401
    import pynguin.generator  # noqa: F401
    import pynguin.slicer.dynamicslicer  # noqa: F401
    import pynguin.slicer.statementslicingobserver  # noqa: F401
    import pynguin.testcase.execution_observers  # noqa: F401
    import pynguin.testcase.testfactory  # noqa: F401

    import vf.oracle.dyndep  # noqa: F401
    import vf.oracle.monitor  # noqa: F401
    import vf.session  # noqa: F401


class _Worker:
    """One forked child that evaluates many cases (``_child``) one after the other.

    A fork per case costs seconds of copy-on-write faults on a loaded machine, ten times the work itself; a fresh
    interpreter per case would cost the pynguin import.  The worker keeps the isolation that matters: a crash or a hang
    of instrumented code hits the worker, is reported for the case at hand, and the next case gets a new worker.  Every
    case opens and closes its own ``vf.session.Session`` (unique module name), so nothing is shared between cases but
    imported library modules; the worker is recycled after ``RECYCLE`` cases anyway.
    """

    RECYCLE = 40

    def __init__(self) -> None:
        self.pid: int | None = None
        self.rfd = self.wfd = -1
        self.served = 0
        self.buf = b""

    def start(self) -> None:
        import atexit

        p2c_r, p2c_w = os.pipe()
        c2p_r, c2p_w = os.pipe()
        pid = os.fork()
        if pid == 0:
            try:
                os.close(p2c_w)
                os.close(c2p_r)
                _worker_main(p2c_r, c2p_w)
            finally:
                os._exit(0)
        os.close(p2c_r)
        os.close(c2p_w)
        self.pid, self.rfd, self.wfd, self.served, self.buf = pid, c2p_r, p2c_w, 0, b""
        atexit.register(self.stop)

    def stop(self) -> tuple[str, Any]:
        """Ends the worker; returns how it ended: ("exit", code) | ("signal", number)."""
        import signal

        if self.pid is None:
            return ("exit", 0)
        pid, self.pid = self.pid, None
        for fd in (self.wfd, self.rfd):
            try:
                os.close(fd)
            except OSError:
                pass
        import time

        deadline = time.time() + 5
        while True:
            done, status = os.waitpid(pid, os.WNOHANG)
            if done:
                break
            if time.time() > deadline:
                try:
                    os.kill(pid, signal.SIGKILL)
                except ProcessLookupError:
                    pass
                _, status = os.waitpid(pid, 0)
                break
            time.sleep(0.02)
        if os.WIFSIGNALED(status):
            return ("signal", os.WTERMSIG(status))
        return ("exit", os.WEXITSTATUS(status))

    def call(self, case: dict[str, Any], timeout: float) -> tuple[str, Any]:
        import json
        import select
        import signal
        import time

        if self.pid is None or self.served >= self.RECYCLE:
            self.stop()
            self.start()
        self.served += 1
        try:
            os.write(self.wfd, (json.dumps(case) + "\n").encode())
        except OSError:
            return ("died", self.stop())
        deadline = time.time() + timeout
        while b"\n" not in self.buf:
            left = deadline - time.time()
            if left <= 0:
                try:
                    os.kill(self.pid, signal.SIGKILL)
                except ProcessLookupError:
                    pass
                self.stop()
                return ("timeout", None)
            ready, _, _ = select.select([self.rfd], [], [], min(left, 1.0))
            if ready:
                chunk = os.read(self.rfd, 1 << 16)
                if not chunk:
                    return ("died", self.stop())
                self.buf += chunk
        line, self.buf = self.buf.split(b"\n", 1)
        kind, val = json.loads(line)
        return (kind, val)


def _worker_main(rfd: int, wfd: int) -> None:
    import json

    from vf.core import exc_detail, exc_sig, has_pynguin_frame

    with os.fdopen(rfd, "r") as inp, os.fdopen(wfd, "w") as outp:
        for line in inp:
            try:
                payload = ["ok", _child(json.loads(line))]
            except BaseException as exc:  # noqa: BLE001
                payload = ["exc", {"type": type(exc).__name__, "sig": exc_sig(exc), "detail": exc_detail(exc),
                                   "pynguin_frame": has_pynguin_frame(exc)}]
            outp.write(json.dumps(payload, default=repr) + "\n")
            outp.flush()


_WORKER = _Worker()


def evaluate(case: dict[str, Any]) -> Outcome:
    _preimport()
    out = Outcome()
    if os.environ.get("VF_C09_ISOLATION") == "fork":  # one fork per case (slow; for cross-checking the worker)
        from vf.iso import forked

        kind, val = forked(lambda: _child(case), timeout=900)
    else:
        kind, val = _WORKER.call(case, timeout=900)
    if kind == "ok":
        _analyse(case, val, out)
    elif kind == "timeout":
        out.inconclusive = "case exceeded 900 s"
    elif kind == "exc":
        if val.get("pynguin_frame"):
            out.fail(f"unexpected-exception|{val['sig']}", f"{val['detail']}\ncase={case}")
        else:
            raise HarnessError("harness error in child: " + val["detail"])
    else:  # ("died", (how, n)) from the worker, ("signal" | "exit", n) from vf.iso.forked
        how = val[0] if kind == "died" else kind
        out.fail(f"child-died|{how}", f"{kind} {val}\ncase={case}")
    return out
