"""C21 — kept assertions hold on the original module and preserve mutant kills.

Parts
  (a) ``_select_minimal_assertions`` on random kill maps: the kept keys are keys of the map, none has an
      empty kill set, together they kill exactly the mutants the whole map kills, and (docstring:
      "minimal subset", "prune redundant assertions") no kept key is redundant w.r.t. the other kept keys.
  (b) ``_MutationSummary`` / ``_MutationMetrics`` on random ``_MutantInfo`` lists: killed / survived /
      timed-out partition the mutants, the score is in [0, 1] and equals
      |killed and not timed out| / (|mutants| - |timed out|), 1.0 for divisor 0 (recomputed independently).
  (b2) the real ``__compute_mutation_summary`` / ``__build_kill_map`` / ``__minimize_assertions`` pipeline on
      random test x mutant result matrices built from real ``ExecutionResult`` / ``AssertionVerificationTrace``
      objects and a stub test case: unchecked (None) and timed-out cells never count, the per-test kill set of
      the kept assertions equals the per-test kill set of all assertions.
  (c)/(d) in-process sessions (vf.session): after assertion generation every kept assertion holds on the
      unmutated module; kill sets with minimization on are supersets of those with minimization off.
"""

from __future__ import annotations

from typing import Any

from hypothesis import strategies as st

from vf.core import Outcome

PROPERTY = "C21"
META = {
    "title": "Kept assertions hold on the original module and preserve mutant kills",
    "technique": "property-based testing: random kill maps / mutant-info lists / result matrices against independent set "
                 "arithmetic; in-process assertion-generation sessions re-verified with a fresh observer",
    "design_ref": "DESIGN.md §3 C21",
    "rule": "case kinds: 'select' = kill map with <= 40 keys over <= 60 mutants (empty kill sets, duplicates, subsumed and "
            "chained sets drawn on purpose); 'score' = list of <= 40 mutant infos with drawn killed_by / timed_out_by; 'matrix' = "
            "<= 4 tests x <= 12 mutants with cells none/ok/timeout/violations/exception over <= 4 statements x <= 3 assertions; "
            "'session' = corpus module x seed x strategy; non-trivial: select: >= 3 keys with non-empty kill sets and two keys "
            "overlapping; score: >= 1 killed and >= 1 timed-out or surviving mutant; matrix: >= 1 violated cell; distinct by case",
    "assumptions": ["'minimal' is read as irredundant (no kept assertion can be dropped), not as minimum cardinality",
                    "the stub test case of part (b2) offers statements()/assertions/has_only_exception_assertion() only"],
    "level_text": "Random kill maps, mutant-info lists and result matrices against recomputed set arithmetic, plus in-process "
                  "assertion-generation runs on small corpus modules. Exploration, not proof.",
    "level_note": "Trusted: Python set arithmetic in the oracle; for sessions the in-process executor as re-verification base.",
}
PLAN = {
    "quick": {"shards": 8, "examples": 6000, "sessions": 16},
    "thorough": {"shards": 16, "examples": 600000, "sessions": 400, "timeout": 3000},
}


# ------------------------------------------------------------------------------------ strategies
def _kill_map() -> st.SearchStrategy:
    mutants = st.integers(0, 59)
    key = st.tuples(st.integers(0, 7), st.integers(0, 5))
    base = st.lists(st.tuples(key, st.lists(mutants, max_size=12)), max_size=40)

    @st.composite
    def structured(draw):
        """Maps with subsumed / chained / duplicated kill sets, the shapes on which greedy picks redundant keys."""
        entries = draw(st.lists(st.tuples(key, st.lists(st.integers(0, 14), max_size=8)), min_size=1, max_size=14))
        extra = []
        for k, ks in entries:
            mode = draw(st.integers(0, 4))
            nk = draw(key)
            if mode == 0:
                extra.append((nk, list(ks)))  # duplicate
            elif mode == 1:
                extra.append((nk, ks[: len(ks) // 2]))  # subsumed
            elif mode == 2:
                extra.append((nk, ks[len(ks) // 2:] + [draw(st.integers(15, 30))]))  # chained
            elif mode == 3:
                extra.append((nk, []))
        return entries + extra

    return st.one_of(base, structured()).map(lambda es: {"kind": "select", "entries": [[list(k), sorted(set(v))] for k, v in es]})


def _score() -> st.SearchStrategy:
    tests = st.lists(st.integers(0, 5), max_size=3)
    info = st.tuples(tests, tests)
    return st.lists(info, max_size=40).map(lambda xs: {"kind": "score", "infos": [[list(k), list(t)] for k, t in xs]})


def _matrix() -> st.SearchStrategy:
    @st.composite
    def build(draw):
        n_stmt = draw(st.integers(1, 4))
        stmts = [{"n": draw(st.integers(0, 3)), "only_exc": draw(st.integers(0, 5)) == 0} for _ in range(n_stmt)]
        n_tests = draw(st.integers(1, 4))
        n_mut = draw(st.integers(0, 12))
        cell = st.one_of(
            st.just(["none"]), st.just(["ok"]), st.just(["ok"]), st.just(["timeout"]), st.just(["exception"]),
            st.tuples(st.just("viol"), st.lists(st.tuples(st.integers(0, n_stmt - 1), st.integers(0, 2), st.booleans()),
                                                min_size=1, max_size=5)).map(lambda t: [t[0], [list(x) for x in t[1]]]))
        rows = [[draw(cell) for _ in range(n_mut)] for _ in range(n_tests)]
        # a mutant whose module is invalid is unchecked for every test: pynguin gives it no column at all, a test
        # aborted after a timeout gets None cells afterwards; both appear as "none" cells here
        return {"kind": "matrix", "stmts": stmts, "rows": rows, "minimize": draw(st.booleans())}

    return build()


def strategy(ctx) -> st.SearchStrategy:
    return st.one_of(_kill_map(), _kill_map(), _score(), _matrix())


# ---------------------------------------------------------------------------------------- oracle
def _eval_select(case: dict, out: Outcome) -> None:
    from pynguin.assertion.assertiongenerator import _select_minimal_assertions

    kill_map: dict[tuple[int, int], set[int]] = {}
    for k, v in case["entries"]:
        kill_map[tuple(k)] = set(v)  # later duplicates of a key overwrite, as in a dict
    pristine = {k: set(v) for k, v in kill_map.items()}
    keep = _select_minimal_assertions(kill_map)
    shape = "empty-map" if not kill_map else ("all-empty" if not any(kill_map.values()) else "mixed")
    if kill_map != pristine:
        out.fail(f"select|{shape}|argument-mutated", f"{pristine!r} -> {kill_map!r}")
    if not isinstance(keep, set):
        out.fail(f"select|{shape}|result-not-a-set", repr(type(keep)))
        return
    if not keep <= set(pristine):
        out.fail(f"select|{shape}|kept-key-not-in-map", f"{sorted(keep - set(pristine))!r}")
        return
    empties = [k for k in keep if not pristine[k]]
    if empties:
        out.fail(f"select|{shape}|kept-key-with-empty-kill-set", f"{empties!r} in {pristine!r}")
    universe = set().union(*pristine.values()) if pristine else set()
    covered = set().union(*[pristine[k] for k in keep]) if keep else set()
    if covered != universe:
        out.fail(f"select|{shape}|kills-lost", f"map {pristine!r}: kept {sorted(keep)!r} kill {sorted(covered)!r}, all kill {sorted(universe)!r}")
    for k in sorted(keep):
        others = set().union(*[pristine[o] for o in keep if o != k]) if len(keep) > 1 else set()
        if pristine[k] and pristine[k] <= others:
            out.fail(f"select|{shape}|redundant-key-kept", f"map {pristine!r}: kept {sorted(keep)!r}, {k!r} adds nothing")
            break
    again = _select_minimal_assertions({k: set(v) for k, v in pristine.items()})
    if again != keep:
        out.fail(f"select|{shape}|not-deterministic", f"{sorted(keep)!r} vs {sorted(again)!r}")
    nonempty = [k for k, v in pristine.items() if v]
    overlap = any(pristine[a] & pristine[b] for i, a in enumerate(nonempty) for b in nonempty[i + 1:])
    out.nontrivial = len(nonempty) >= 3 and overlap
    out.labels.append(f"select:{shape}")
    if len(keep) < len(nonempty):
        out.labels.append("select:dropped-some-killing-key")


def _eval_score(case: dict, out: Outcome) -> None:
    from pynguin.assertion.assertiongenerator import _MutantInfo, _MutationSummary

    infos = [_MutantInfo(i, timed_out_by=list(t), killed_by=list(k)) for i, (k, t) in enumerate(case["infos"])]
    summary = _MutationSummary(infos)
    n = len(infos)
    timed = {i for i, (k, t) in enumerate(case["infos"]) if t}
    killed = {i for i, (k, t) in enumerate(case["infos"]) if k and not t}
    survived = set(range(n)) - timed - killed
    got = {"killed": {m.mut_num for m in summary.get_killed()}, "timeout": {m.mut_num for m in summary.get_timeout()},
           "survived": {m.mut_num for m in summary.get_survived()}}
    for name, want in (("killed", killed), ("timeout", timed), ("survived", survived)):
        if got[name] != want:
            out.fail(f"score|classification|{name}", f"infos {case['infos']!r}: got {sorted(got[name])}, expected {sorted(want)}")
    metrics = summary.get_metrics()
    if (metrics.num_created_mutants, metrics.num_killed_mutants, metrics.num_timeout_mutants) != (n, len(killed), len(timed)):
        out.fail("score|metrics-counts", f"{metrics!r} vs n={n} killed={len(killed)} timeout={len(timed)}")
    score = metrics.get_score()
    divisor = n - len(timed)
    want_score = 1.0 if divisor == 0 else len(killed) / divisor
    cls = "divisor-0" if divisor == 0 else ("with-timeouts" if timed else "no-timeouts")
    if not (isinstance(score, float) and 0.0 <= score <= 1.0):
        out.fail(f"score|{cls}|out-of-range", f"{score!r} for {case['infos']!r}")
    elif abs(score - want_score) > 1e-12:
        out.fail(f"score|{cls}|wrong-value", f"{score!r}, expected {want_score!r} (n={n}, killed={len(killed)}, timed out={len(timed)})")
    out.nontrivial = bool(killed) and bool(timed or survived)
    out.labels.append(f"score:{cls}")


class _StubStatement:
    def __init__(self, n: int, only_exc: bool) -> None:
        self.assertions = [f"assertion-{i}" for i in range(n)]
        self._only_exc = only_exc and n == 1

    def has_only_exception_assertion(self) -> bool:
        return self._only_exc


class _StubTest:
    def __init__(self, stmts: list[dict]) -> None:
        self._stmts = [_StubStatement(s["n"], s["only_exc"]) for s in stmts]

    def statements(self) -> list[_StubStatement]:
        return self._stmts


def _eval_matrix(case: dict, out: Outcome) -> None:  # noqa: C901
    import pynguin.configuration as config
    from pynguin.assertion import assertion_trace as at
    from pynguin.assertion.assertiongenerator import MutationAnalysisAssertionGenerator as Gen
    from pynguin.testcase import execution as ex

    stmts = case["stmts"]
    rows = case["rows"]
    n_mut = len(rows[0]) if rows else 0

    def result_of(cell: list) -> Any:
        if cell[0] == "none":
            return None
        res = ex.ExecutionResult(timeout=cell[0] == "timeout")
        trace = at.AssertionVerificationTrace()
        if cell[0] == "viol":
            for s, a, is_error in cell[1]:
                (trace.error if is_error else trace.failed)[s].add(a)
        res.assertion_verification_trace = trace
        if cell[0] == "exception":
            res.report_new_thrown_exception(0, ValueError("x"))
        return res

    results = [[result_of(c) for c in row] for row in rows]
    compute = getattr(Gen, "_MutationAnalysisAssertionGenerator__compute_mutation_summary")
    summary = compute(n_mut, results)
    # --- independent model of the summary: the first test (in order) that times out on a mutant marks it timed out and
    #     stops the accounting for that mutant; unchecked (None) cells never count
    timed, killed_by = {}, {m: [] for m in range(n_mut)}
    for m in range(n_mut):
        for t, row in enumerate(rows):
            c = row[m]
            if c[0] == "none" or m in timed:
                continue
            if c[0] == "timeout":
                timed[m] = t
            elif c[0] in ("viol", "exception"):
                killed_by[m].append(t)
    want_killed = {m for m in range(n_mut) if killed_by[m] and m not in timed}
    got_killed = {i.mut_num for i in summary.get_killed()}
    got_timed = {i.mut_num for i in summary.get_timeout()}
    if got_timed != set(timed):
        out.fail("matrix|summary|timed-out-set", f"rows {rows!r}: got {sorted(got_timed)}, expected {sorted(timed)}")
    if got_killed != want_killed:
        out.fail("matrix|summary|killed-set", f"rows {rows!r}: got {sorted(got_killed)}, expected {sorted(want_killed)}")
    score = summary.get_metrics().get_score()
    div = n_mut - len(timed)
    want = 1.0 if div == 0 else len(want_killed) / div
    if not (0.0 <= score <= 1.0) or abs(score - want) > 1e-12:
        out.fail("matrix|summary|score", f"{score!r} expected {want!r}")

    # --- removal of non-relevant assertions / minimization on stub test cases
    remove = getattr(Gen, "_MutationAnalysisAssertionGenerator__remove_non_relevant_assertions")
    tests = [_StubTest(stmts) for _ in rows]
    old = config.configuration.test_case_output.assertion_minimization
    config.configuration.test_case_output.assertion_minimization = bool(case["minimize"])
    try:
        remove(tests, results, summary)
    finally:
        config.configuration.test_case_output.assertion_minimization = old
    mode = "minimize" if case["minimize"] else "filter"
    any_violation = False
    for t, (test, row) in enumerate(zip(tests, rows)):
        def kills_of(stmt_idx: int, name: str) -> set[int]:
            a = int(name.split("-")[1])
            return {m for m, c in enumerate(row) if c[0] == "viol" and m not in timed and any(s == stmt_idx and x == a for s, x, _ in c[1])}

        all_kills, kept_kills = set(), set()
        for s_idx, (spec, stmt) in enumerate(zip(stmts, test.statements())):
            original = [f"assertion-{i}" for i in range(spec["n"])]
            if not set(stmt.assertions) <= set(original) or len(set(stmt.assertions)) != len(stmt.assertions):
                out.fail(f"matrix|{mode}|assertion-list-corrupted", f"{stmt.assertions!r}")
                return
            protected = case["minimize"] and stmt.has_only_exception_assertion()
            for name in original:
                if protected:
                    continue
                all_kills |= kills_of(s_idx, name)
            for name in stmt.assertions:
                if protected:
                    if stmt.assertions != original:
                        out.fail(f"matrix|{mode}|exception-only-statement-touched", "")
                    continue
                k = kills_of(s_idx, name)
                kept_kills |= k
                if not k:
                    out.fail(f"matrix|{mode}|kept-assertion-kills-nothing", f"test {t} stmt {s_idx} {name}: row {row!r}")
        if all_kills:
            any_violation = True
        if kept_kills != all_kills:
            out.fail(f"matrix|{mode}|kills-lost", f"test {t}: kept kill {sorted(kept_kills)}, all kill {sorted(all_kills)}; row {row!r}, stmts {stmts!r}")
    out.nontrivial = any_violation
    out.labels.append(f"matrix:{mode}")
    if timed:
        out.labels.append("matrix:with-timeouts")


def evaluate(case: dict) -> Outcome:
    out = Outcome()
    kind = case["kind"]
    if kind == "select":
        _eval_select(case, out)
    elif kind == "score":
        _eval_score(case, out)
    elif kind == "matrix":
        _eval_matrix(case, out)
    elif kind == "session":
        from vf import c21_sessions

        c21_sessions.evaluate_session(case, out)
    out.labels.append(f"kind:{kind}")
    return out


def shard(ctx) -> None:
    from vf.hyp import run_cases

    per = max(1, int(ctx.params["examples"]) // ctx.nshards)
    run_cases(ctx, strategy(ctx), evaluate, per)
    n_sessions = int(ctx.params.get("sessions", 0)) // ctx.nshards
    if n_sessions > 0:
        try:
            from vf import c21_sessions
        except Exception:  # noqa: BLE001  (session part not available: parts (a)/(b) stand alone)
            ctx.note("sessions", "c21_sessions not importable")
            return
        strat = c21_sessions.strategy(ctx)
        if strat is not None:
            run_cases(ctx, strat, evaluate, n_sessions, shrink=False)
