"""C17 — search stops as soon as a configured budget is exhausted.

Each case = (algorithm, non-empty subset of small budgets, corpus module, seed) run in-process inside a
forked child with the factory-built algorithm.  One observer defined here (SearchObserver +
ExecutionObserver with its own remote observer) logs iteration boundaries and keeps *independent* counts of
test executions and executed statements; the oracle replays the log.
"""

from __future__ import annotations

from typing import Any

from hypothesis import strategies as st

from vf.core import Outcome

PROPERTY = "C17"
META = {
    "title": "Search stops as soon as a configured budget is exhausted",
    "technique": "configuration/history generation: Hypothesis-drawn (algorithm, budget subset, module, seed) runs observed through an "
                 "independent search+execution observer; event-log oracle",
    "design_ref": "DESIGN.md §3 C17",
    "rule": "case = algorithm in 7 non-LLM algorithms x (one case in four: two budgets with the same number, incl. a search time in seconds) non-empty subset of {iterations 1..10, test executions 1..200, statement executions "
            "1..500, coverage plateau 1..4, maximum coverage 30..90} x type tracing off|on x corpus module x seed; non-trivial = the run was stopped by a "
            "budget (not by full coverage) after >= 1 completed iteration; distinct by the whole case",
    "assumptions": ["boundaries are the loop head and every after_search_iteration; executions of the initial population happen before the "
                    "first boundary and are allowed",
                    "stopping earlier than necessary is not a violation of this property",
                    "coverage-based conditions are re-computed from the coverage values of the suites handed to the observers"],
    "level_text": "Generated budget configurations across all seven non-LLM algorithms on small modules; every run's event log is checked "
                  "against independent counters. Exploration, not proof.",
    "level_note": "Trusted: vf.session wiring equals generator._run; the observer API (search and execution observers) reports every "
                  "iteration boundary and execution.",
}
PLAN = {
    "quick": {"shards": 16, "examples": 64, "timeout": 2400},
    "thorough": {"shards": 16, "examples": 2400, "timeout": 5400},
}

ALGOS = ["DYNAMOSA", "MOSA", "MIO", "WHOLE_SUITE", "RANDOM", "RANDOM_TEST_SUITE_SEARCH", "RANDOM_TEST_CASE_SEARCH"]
MODS = ["vfc_numeric", "vfc_strings", "vfc_containers", "vfc_account", "vfc_queue", "vfc_raising", "vfc_defaults"]


@st.composite
def _case(draw) -> dict[str, Any]:
    budgets: dict[str, int] = {}
    kinds = draw(st.lists(st.sampled_from(["iter", "iter", "exec", "exec", "stmt", "stmt", "plateau", "maxcov"]),
                          min_size=1, max_size=3, unique=True))
    for k in kinds:
        if k == "iter":
            budgets[k] = draw(st.integers(1, 10))
        elif k == "exec":
            budgets[k] = draw(st.one_of(st.integers(1, 30), st.integers(1, 200)))
        elif k == "stmt":
            budgets[k] = draw(st.one_of(st.integers(1, 60), st.integers(1, 500)))
        elif k == "plateau":
            budgets[k] = draw(st.integers(1, 4))
        else:
            budgets[k] = draw(st.integers(30, 90))
    # two budgets with the *same* number (a typical configuration: "25 executions or 25 statements", "5 iterations or 5 s")
    if draw(st.integers(0, 3)) == 0:
        pair = draw(st.sampled_from([("stmt", "exec"), ("iter", "time"), ("iter", "exec"), ("iter", "stmt")]))
        k = draw(st.integers(2, 6)) if "time" in pair else draw(st.integers(3, 40))
        budgets = {pair[0]: k, pair[1]: k}
    return {"algo": draw(st.sampled_from(ALGOS)), "module": draw(st.sampled_from(MODS)), "seed": draw(st.integers(0, 10**6)),
            "population": draw(st.sampled_from([4, 10, 20])), "budgets": budgets,
            "type_tracing": draw(st.sampled_from([0.0, 0.0, 0.0, 1.0, 0.5]))}


def strategy(ctx):
    return _case()


def _child(case: dict[str, Any]) -> dict[str, Any]:
    import pynguin.ga.searchobserver as so
    from pynguin.testcase.execution_observers import RemoteExecutionObserver

    from vf.corpus import CORPUS_DIR
    from vf.session import Session

    events: list[list[Any]] = []

    class _Remote(RemoteExecutionObserver):
        """Counts statements that begin to execute (independently of pynguin's own counter)."""

        def __init__(self) -> None:
            super().__init__()
            self.count = 0

        def before_test_case_execution(self, test_case):
            self.count = 0

        def before_statement_execution(self, statement, node, namespace):
            self.count += 1
            return node

        def after_test_case_execution(self, executor, test_case, result):
            events.append(["stmts", self.count])

    class _Obs(so.SearchObserver):
        def before_search_start(self, start_time_ns):
            events.append(["start"])

        def before_first_search_iteration(self, initial):
            events.append(["first_iter", initial.get_coverage()])

        def after_search_iteration(self, best):
            events.append(["iter_end", best.get_coverage()])

        def after_search_finish(self):
            events.append(["finish"])

    # Executions are counted at the executor's entry point itself (not through the observer lists the stopping conditions
    # live in), statements through a remote observer of our own.
    from pynguin.testcase.execution import TestCaseExecutor

    orig_execute = TestCaseExecutor.execute

    def counting_execute(self, test_case):
        events.append(["exec"])
        return orig_execute(self, test_case)

    TestCaseExecutor.execute = counting_execute  # we are in a forked child: nothing to restore

    b = case["budgets"]
    overrides = {
        "stopping.maximum_iterations": b.get("iter", -1),
        "stopping.maximum_test_executions": b.get("exec", -1),
        "stopping.maximum_statement_executions": b.get("stmt", -1),
        "stopping.maximum_coverage_plateau": b.get("plateau", -1),
        "stopping.maximum_coverage": b.get("maxcov", 100),
        "stopping.maximum_search_time": b.get("time", 120),
        "search_algorithm.population": case["population"],
        "type_inference.type_tracing": case.get("type_tracing", 0.0),
        "stopping.maximum_test_execution_timeout": 120,
        "stopping.test_execution_time_per_statement": 30,
    }
    with Session(CORPUS_DIR, case["module"], seed=case["seed"], algorithm=case["algo"], coverage_metrics=("BRANCH",),
                 maximum_iterations=b.get("iter", -1), overrides=overrides) as s:
        s.algorithm.add_search_observer(_Obs())
        s.executor.add_remote_observer(_Remote())
        suite = s.algorithm.generate_tests()
        cov = suite.get_coverage()
        conds = [str(c) for c in s.algorithm.stopping_conditions]
    return {"events": events, "coverage": cov, "conditions": conds}


def _analyse(case: dict[str, Any], res: dict[str, Any], out: Outcome) -> None:
    b = case["budgets"]
    events = res["events"]
    n_exec = n_stmt = n_iter = 0
    prev_cov, unchanged = 0.0, 0
    exhausted: str | None = None  # reason, set at a boundary
    started = finished = False
    for ev in events:
        kind = ev[0]
        if kind == "start":
            started = True
            n_exec = n_stmt = n_iter = 0
        elif kind == "exec":
            n_exec += 1
            if exhausted and not finished:
                out.fail(f"execution-after-exhausted-budget|{exhausted}|{_bucket(case['algo'])}",
                         f"case={case} executions={n_exec} statements={n_stmt} iterations={n_iter}")
                exhausted = None  # report once per run
        elif kind == "stmts":
            n_stmt += ev[1]
        elif kind in ("first_iter", "iter_end"):
            if kind == "iter_end":
                n_iter += 1
                cov = ev[1]
                if cov > prev_cov:
                    unchanged, prev_cov = 0, cov
                elif cov == prev_cov:
                    unchanged += 1
            if exhausted is None:
                if "iter" in b and n_iter >= b["iter"]:
                    exhausted = "iterations"
                elif "exec" in b and n_exec >= b["exec"]:
                    exhausted = "test-executions"
                elif "stmt" in b and n_stmt >= b["stmt"]:
                    exhausted = "statement-executions"
                elif "plateau" in b and kind == "iter_end" and unchanged >= b["plateau"]:
                    exhausted = "coverage-plateau"
                elif "maxcov" in b and kind == "iter_end" and int(ev[1] * 100) >= b["maxcov"]:
                    exhausted = "maximum-coverage"
                if exhausted and "first" not in out.__dict__.setdefault("_tags", set()):
                    out._tags.add("first")  # type: ignore[attr-defined]
                    out.labels.append("stopped-by:" + exhausted)
        elif kind == "finish":
            finished = True
    if "iter" in b and n_iter > b["iter"]:
        out.fail(f"more-iterations-than-budget|{_bucket(case['algo'])}", f"{n_iter} completed iterations, budget {b['iter']}; case={case}")
    if not started or not finished:
        out.fail(f"search-protocol|missing-start-or-finish|{_bucket(case['algo'])}", f"events head={events[:5]}")
    stopped_by_budget = any(l.startswith("stopped-by:") for l in out.labels)
    out.nontrivial = stopped_by_budget and n_iter >= 1 and res["coverage"] < 1.0
    out.labels.append("algo:" + case["algo"])
    if res["coverage"] >= 1.0:
        out.labels.append("full-coverage")
    out.sample = {"case": case, "iterations": n_iter, "executions": n_exec, "statements": n_stmt,
                  "final_coverage": round(res["coverage"], 3), "conditions": res["conditions"]}


def _bucket(algo: str) -> str:
    return algo


def evaluate(case: dict[str, Any]) -> Outcome:
    from vf.iso import forked

    out = Outcome()
    kind, val = forked(lambda: _child(case), timeout=600)
    if kind == "ok":
        _analyse(case, val, out)
    elif kind == "timeout":
        # A search that ignores its budgets is ended by the 120 s safety search time and then shows up in the event log;
        # not returning within the cap is therefore a matter of machine load, not a verdict.
        out.inconclusive = "run exceeded the 600 s cap (machine load)"
    elif kind == "exc":
        if val.get("pynguin_frame"):
            out.fail(f"unexpected-exception|{val['sig']}", val["detail"])
        else:
            raise RuntimeError("harness error in child: " + val["detail"])
    else:
        out.fail(f"child-died|{kind}|{case['algo']}", f"{kind} {val}")
    return out
