"""C18 — generated test files pass when run against the module under test.

Each case runs the whole tool (`python -m pynguin`, fresh interpreter) on a deterministic corpus module under a drawn
configuration and then runs pytest on the written file in another fresh interpreter that has only the project on
PYTHONPATH (original, uninstrumented module).
"""

from __future__ import annotations

import os
import shutil
import tempfile
from typing import Any

from hypothesis import strategies as st

from vf.core import Outcome

PROPERTY = "C18"
META = {
    "title": "Generated test files pass when run against the module under test",
    "technique": "whole-tool differential over generated configurations: Hypothesis-drawn (module, seed, algorithm, budget, assertion mode, "
                 "export options) -> pynguin CLI run -> pytest verdicts of the exported file in a fresh interpreter",
    "design_ref": "DESIGN.md §3 C18",
    "rule": "case = corpus module x seed x algorithm x iterations 2..10 x assertion mode x no_xfail x minimisation flag; oracle: file compiles, "
            "pytest collects it, every test passed or xfailed. Non-trivial = the file has >= 1 test with an assert statement or a "
            "pytest.raises/xfail marker; distinct by the whole case",
    "assumptions": ["corpus modules are deterministic and obey the corpus rule (DESIGN §2.7)",
                    "pytest's verdict in a fresh interpreter is the reference"],
    "level_text": "Generated configurations over a corpus of deterministic modules; each exported file is executed by pytest against the "
                  "original module. Exploration, not proof.",
    "level_note": "Trusted: pytest, the corpus modules' determinism.",
}
PLAN = {
    "quick": {"shards": 16, "examples": 32, "timeout": 1500},
    "thorough": {"shards": 16, "examples": 640, "timeout": 7200},
}

ALGOS = ["DYNAMOSA", "MOSA", "MIO", "WHOLE_SUITE", "RANDOM"]
ASSERT = ["SIMPLE", "MUTATION_ANALYSIS", "MUTATION_ANALYSIS", "CHECKED_MINIMIZING", "NONE"]


def strategy(ctx):
    from vf.corpus import EXTRA_MODULES, MODULES

    return st.fixed_dictionaries({
        "module": st.sampled_from(MODULES + EXTRA_MODULES + EXTRA_MODULES),
        "in_package": st.booleans(),
        "seed": st.integers(0, 10**6),
        "strip_annotations": st.booleans(),
        "algo": st.sampled_from(ALGOS),
        "iterations": st.integers(2, 10),
        "assertion": st.sampled_from(ASSERT),
        "no_xfail": st.booleans(),
        "minimize": st.booleans(),
    })


def evaluate(case: dict[str, Any]) -> Outcome:
    from vf import cli
    from vf.corpus import materialise_package, materialise_variant

    out = Outcome()
    base = tempfile.mkdtemp(prefix="vf_c18_", dir=os.environ.get("VF_SCRATCH_DIR") or os.environ.get("VERIF_SCRATCH") or None)
    try:
        proj, outd = os.path.join(base, "proj"), os.path.join(base, "out")
        if case.get("in_package"):
            module = materialise_package(case["module"], proj, strip_annotations=case.get("strip_annotations", False))
        else:
            module = materialise_variant(case["module"], proj, case.get("strip_annotations", False))
        extra = ["--no-xfail", str(case["no_xfail"]), "--post-process", str(case["minimize"])]
        run = cli.run_pynguin(proj, module, outd, seed=case["seed"], algorithm=case["algo"], iterations=case["iterations"],
                              assertion_generation=case["assertion"], extra=extra)
        out.labels += [f"algo:{case['algo']}", f"assert:{case['assertion']}", f"annotations:{'stripped' if case.get('strip_annotations') else 'kept'}"]
        if run.timed_out:
            out.inconclusive = "pynguin run exceeded 600 s"
            return out
        if run.test_file is None:
            if run.rc not in (0, 1, 2, 3):
                out.fail(f"pynguin-crashed|rc={run.rc}", run.log[-1500:])
            else:
                out.labels.append("no-test-file")
            if "Traceback (most recent call last)" in run.log and "Export to PyTest failed" in run.log:
                out.fail("export-failed|" + _last_exc(run.log), run.log[-1500:])
            return out
        src = open(run.test_file).read()
        try:
            compile(src, run.test_file, "exec")
        except SyntaxError as exc:
            out.fail("generated-file-does-not-compile|SyntaxError", f"{exc}\n{src[:1500]}")
            return out
        pt = cli.run_pytest(run.test_file, proj)
        if not pt["tests"]:
            out.fail("pytest-collected-nothing|" + cli.message_class(pt["stdout"]), pt["stdout"][-1500:])
            return out
        for name, verdict in sorted(pt["tests"].items()):
            out.labels.append("verdict:" + verdict)
            if verdict in ("passed", "xfailed"):
                continue
            detail = pt["details"].get(name, "")
            out.fail(f"test-{verdict}|{cli.message_class(detail)}",
                     f"case={case}\n{name}: {detail[:900]}\n--- file ---\n{_func_src(src, name)[:900]}")
        has_assert = "\n    assert " in src or "pytest.raises" in src or "xfail" in src
        if "pytest.approx" in src:
            out.labels.append("class:pytest.approx")
        if "xfail" in src:
            out.labels.append("class:xfail")
        if "pytest.raises" in src:
            out.labels.append("class:pytest.raises")
        if "\n    assert " in src:
            out.labels.append("class:assert")
        out.nontrivial = has_assert
        out.sample = {"case": case, "tests": pt["tests"], "file_head": src[src.find("def test_"):][:400]}
    finally:
        shutil.rmtree(base, ignore_errors=True)
    return out


def _last_exc(log: str) -> str:
    import re

    m = re.findall(r"^([A-Za-z_][\w\.]*(?:Error|Exception)):", log, flags=re.M)
    return m[-1] if m else "unknown"


def _func_src(src: str, name: str) -> str:
    i = src.find(f"def {name}(")
    if i < 0:
        return src[:600]
    j = src.find("\ndef test_", i + 5)
    k = src.rfind("\n\n", 0, i)
    return src[max(k, 0): j if j > 0 else len(src)]


#: saved inputs that are always replayed (one per shard 0..n-1): shapes a drawn campaign of 32 cases reaches rarely
ANCHORS = [
    {"module": "vfx_ledger", "in_package": False, "strip_annotations": False, "seed": 1, "algo": "DYNAMOSA", "iterations": 10,
     "assertion": "SIMPLE", "no_xfail": True, "minimize": True},
    {"module": "vfx_cli", "in_package": False, "strip_annotations": False, "seed": 3, "algo": "DYNAMOSA", "iterations": 10,
     "assertion": "SIMPLE", "no_xfail": False, "minimize": True},
    {"module": "vfx_cli", "in_package": False, "strip_annotations": False, "seed": 8, "algo": "MOSA", "iterations": 8,
     "assertion": "NONE", "no_xfail": True, "minimize": False},
    {"module": "vfc_floats", "in_package": True, "strip_annotations": False, "seed": 2, "algo": "WHOLE_SUITE", "iterations": 6,
     "assertion": "SIMPLE", "no_xfail": False, "minimize": True},
]


def shard(ctx) -> None:
    from vf.hyp import guarded, run_cases

    os.environ["VF_SCRATCH_DIR"] = ctx.scratch
    if ctx.shard < len(ANCHORS):
        anchor = dict(ANCHORS[ctx.shard])
        res = guarded(evaluate)(anchor)
        res.labels.append("anchor-case")
        ctx.record(anchor, res)
    run_cases(ctx, strategy(ctx), evaluate, max(1, ctx.params["examples"] // ctx.nshards), shrink=False)
