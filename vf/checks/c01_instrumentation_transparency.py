"""C01 -- instrumentation does not change the behaviour of the module under test.

Differential property-based testing.  One *case* is a program plus a list of calls with argument recipes; it is
executed uninstrumented (twice: observables that are not stable between the two plain runs are not compared) and
then once for each of the 8 subsets of {BRANCH, LINE, CHECKED}, instrumented by pynguin's real machinery
(``build_transformer`` -> version adapters -> ``InstrumentationTransformer.instrument_code``, always with a
``DynamicConstantProvider`` as ``install_import_hook`` passes one) and run under ``with tracer:``.

Program families
  * ``pygen``  -- grammar-generated modules (``vf.gen.pygen``), two calls per callable, ``values="wild"`` arguments of
                  which a share is replaced by adversarial recipes of ``vf.gen.values`` (NaN, huge ints, Decimal,
                  Fraction, logged user objects with partial/raising protocols, one-shot iterators, tuples of strings);
  * ``tmpl``   -- a fixed module of small "hazard" functions (``C01_TEMPLATE_SOURCE``: every comparison operator,
                  truthiness, membership, subscripts, iteration, ``startswith``/``endswith``, attribute access through
                  side-effecting properties, ``with``, ``match``, exception matching) called with adversarial recipes;
  * ``stdlib`` -- function code objects of small pure-Python stdlib modules (source re-compiled under a synthetic file
                  name, C accelerators blocked, only the listed functions instrumented) called with shaped arguments.

Oracle (original run vs. instrumented run, both on freshly materialised arguments): outcome kind and value
(structural ``snapshot`` equality: NaN == NaN, -0.0 != 0.0, exact types), exception *type*, captured stdout, post-state
of the arguments / the receiver / the module globals, remaining items of iterator arguments, and the operation log of
logged user objects (a pair logged by the instrumented run that the original run never logs = a new operator; order of
first occurrence must agree; repetitions are only counted).  Instrumenting itself raising, hanging or killing the
interpreter is a failure.  See DESIGN.md section 3 C01.
"""

from __future__ import annotations

import contextlib
import os
import tempfile
import time
from typing import Any

from hypothesis import strategies as st

from vf import c01_harness as H
from vf.core import Outcome, load_known
from vf.gen import pygen
from vf.gen import values as V
from vf.iso import forked

PROPERTY = "C01"
META = {
    "title": "Instrumentation does not change the behaviour of the module under test",
    "technique": "differential property-based testing: grammar-generated modules, a hazard-template module and stdlib function "
                 "code objects x adversarial argument recipes x all 8 metric subsets (+ dynamic seeding), original vs. "
                 "instrumented execution in a forked child per case",
    "design_ref": "DESIGN.md §3 C01",
    "rule": "case = program (pygen module model | fixed hazard-template module | stdlib function) + calls with argument recipes "
            "(pygen values='wild'; 30% replaced by vf.gen.values recipes: numeric edges, Decimal/Fraction/complex, logged user "
            "objects with partial/raising comparison, truth and container protocols, one-shot iterators, tuples of strings); "
            "every case is run uninstrumented twice and instrumented under each of the 8 subsets of {BRANCH, LINE, CHECKED} with a "
            "DynamicConstantProvider; one evaluation = one (call, subset) comparison; non-trivial = the original run of some "
            "call executed >= 1 conditional branch (sys.monitoring BRANCH event) and the instrumented code of some subset "
            "registered >= 1 predicate or line; distinct by (program, calls)",
    "assumptions": [
        "an observable is compared only if two uninstrumented runs of the same case agree on it (address- or hash-order "
        "dependent behaviour of the generated program is not blamed on the instrumentation)",
        "exception messages and tracebacks are not compared, only exception types",
        "repetitions of a user operator that the original run itself invokes with the same operands are counted, not failed "
        "(observing by re-evaluation is inherent to the tracer); any *other* (operator, operand) pair is a failure",
        "shapes matching an active known finding (known_findings.d/C01.json) are not built / not compared; they are counted in "
        "excluded_by_known_findings",
    ],
    "level_text": "Generated programs x adversarial inputs x all metric subsets against the uninstrumented interpreter; "
                  "exploration, not proof.",
    "level_note": "Trusted: CPython executing the uninstrumented code; vf.gen.pygen's renderer; the recipe materialiser, "
                  "snapshot and operation log of vf/gen/values.py.",
}
PLAN = {
    "quick": {"shards": 16, "examples": 128, "max_stmts": 12, "max_funcs": 2, "shrink_sigs": 2, "shrink_seconds": 20,
              "shrink_calls": 60, "timeout": 3000},  # hard limit only; ~1 min on an idle 16-core machine
    "thorough": {"shards": 16, "examples": 12000, "timeout": 3300, "max_stmts": 25, "max_funcs": 3, "shrink_sigs": 4,
                 "shrink_seconds": 120, "shrink_calls": 600},
}


# ------------------------------------------------------------------------------------------ known shapes
def _active_known() -> set[str]:
    """Keys of the C01 known-finding entries with status "known": their shapes are excluded by construction."""
    keys = getattr(_active_known, "_cache", None)
    if keys is None:
        keys = {e["key"] for e in load_known(PROPERTY) if e.get("status") == "known"}
        if os.environ.get("VF_C01_NO_EXCLUSIONS"):  # development aid: see what the known shapes hide
            keys = set()
        keys |= {k for k in os.environ.get("VF_C01_ASSUME_KNOWN", "").split(",") if k}
        _active_known._cache = keys  # type: ignore[attr-defined]
    return keys


# ------------------------------------------------------------------------------------------ argument recipes
def _num_edges() -> st.SearchStrategy:
    # the float and int edges (NaN, +-inf, -0.0, 2**53 +- 1, 10**400) get their own branches: they are the values the
    # property statement names explicitly
    return V.choice(V.edge_numbers(), V.edge_numbers_of("float"), V.edge_numbers_of("int"), V.ints(), V.floats(), V.decimals(),
                    V.fractions_())


def _cmp_objs() -> st.SearchStrategy:
    return V.objects("cmp")


def _adversarial(t: str) -> st.SearchStrategy:
    """Adversarial replacement for a pygen argument of coarse type ``t``."""
    strs_tuple = st.lists(V.strs(3), max_size=3).map(lambda xs: {"k": "tuple", "items": xs})
    elem = V.choice(V.ints(), V.floats(), V.strs(2), _cmp_objs())
    if t in ("int", "float", "opt"):
        return V.choice(_num_edges(), _num_edges(), _cmp_objs(), V.objects("any"), V.complexes())
    if t == "bool":
        return V.choice(V.objects("truth"), V.objects("any"), _num_edges(), st.just({"k": "list", "items": []}))
    if t == "str":
        mixed = st.tuples(V.strs(1), V.choice(V.nones(), V.ints(), V.bytess(2))).map(
            lambda t: {"k": "tuple", "items": [{"k": "str", "v": ""}, t[0], t[1]]})  # "" matches every string
        return V.choice(V.strs(), strs_tuple, strs_tuple, mixed, V.bytess(), V.objects("container", payload=V.strs(2)))
    if t == "list":
        return V.choice(V.iterators(elem), V.iterators(elem), V.containers(elem, depth=1), V.objects("container", payload=elem),
                        V.ranges(), st.lists(_num_edges(), max_size=4).map(lambda xs: {"k": "list", "items": xs}))
    if t == "dict":
        return V.choice(V.containers(elem, depth=1), V.objects("container", payload=V.strs(2)))
    return V.values(1)


def _pygen_cases(p: dict[str, Any]) -> st.SearchStrategy:
    feats = set(pygen.FEATURES)

    @st.composite
    def cases(draw: Any) -> dict[str, Any]:
        # while the known CHECKED findings are active (no `with`, no inlined comprehension under CHECKED), 40% of the
        # programs are drawn without these constructs so that CHECKED keeps being explored behind them
        use = feats
        if draw(st.integers(0, 9)) < 4:
            if "checked-with-statement" in _active_known():
                use = use - {"with"}
            if "checked-unbound-local" in _active_known():
                use = use - {"comp"}
        model = draw(pygen.module_strategy(use, max_funcs=p.get("max_funcs", 2), max_stmts=p.get("max_stmts", 12)))
        calls = draw(pygen.calls_strategy(model, per_target=2, values="wild", mismatch=6))
        types = {tg["target"]: ([q["t"] for q in tg["params"]], [f["t"] for f in tg["cls"]["fields"]] if tg["cls"] else [])
                 for tg in pygen.targets_of(model)}
        for call in calls:
            ptypes, ftypes = types[call["target"]]
            for key, ts in (("args", ptypes), ("init", ftypes)):
                for i, t in enumerate(ts):
                    if draw(st.integers(0, 9)) < 3:
                        call[key][i] = draw(_adversarial(t if not t.startswith("obj:") else "any"))
        return {"kind": "pygen", "module": model, "calls": calls}

    return cases()


def _tmpl_cases() -> st.SearchStrategy:
    anyv = V.values(1)
    num = _num_edges()
    cmpo = _cmp_objs()
    same_cls = st.tuples(V.class_recipes("cmp"), st.integers(0, 2), st.integers(0, 2)).map(
        lambda t: [{"k": "obj", "cls": t[0], "tag": t[1], "items": []}, {"k": "obj", "cls": t[0], "tag": t[2], "items": []}])
    pair = V.choice(st.tuples(num, num).map(list), st.tuples(num, num).map(list), same_cls, same_cls,
                    st.tuples(cmpo, V.choice(V.ints(), V.floats(), cmpo)).map(list),
                    st.tuples(V.choice(V.ints(), V.floats()), cmpo).map(list),
                    st.tuples(V.strs(), V.strs()).map(list), st.tuples(anyv, anyv).map(list))
    elem = V.choice(st.integers(0, 3).map(lambda v: {"k": "int", "v": v}), V.floats(), V.strs(2), cmpo, V.hashable_objects())
    hay = V.choice(V.iterators(elem), V.containers(elem, depth=1), V.containers(elem, depth=1),
                   V.objects("container", payload=elem), V.objects("container", payload=elem), V.strs(), V.ranges(), anyv)
    strs_tuple = st.lists(V.strs(3), max_size=3).map(lambda xs: {"k": "tuple", "items": xs})
    prefix = V.choice(V.strs(3), strs_tuple, strs_tuple, st.just({"k": "tuple", "items": []}), V.ints(), V.bytess(),
                      st.just({"k": "tuple", "items": [{"k": "str", "v": "a"}, {"k": "int", "v": 1}]}))
    # a tuple of affixes in which a non-str element sits BEHIND an element that matches: the original short-circuits and
    # returns True, so anything that touches the later elements (the seeding hook) must not raise
    junk = V.choice(V.nones(), V.ints(), V.bytess(2), V.floats(), st.just({"k": "tuple", "items": [{"k": "str", "v": "a"}]}),
                    st.just({"k": "list", "items": []}))

    def affix_pair(at_end: bool) -> st.SearchStrategy:
        def build(t: tuple) -> list:
            text, cut, before, bad, after = t
            word = text["v"]
            cut = min(cut, len(word))
            match = {"k": "str", "v": (word[len(word) - cut:] if at_end else word[:cut]) if cut else ""}
            return [text, {"k": "tuple", "items": [*before, match, *bad, *after]}]

        return st.tuples(V.strs(), st.integers(0, 3), st.lists(V.strs(2), max_size=1), st.lists(junk, min_size=1, max_size=2),
                         st.lists(V.choice(V.strs(2), junk), max_size=1)).map(build)

    truth = V.choice(V.objects("truth"), V.objects("truth"), V.objects("any"), num, V.containers(elem, depth=1), V.strs(),
                     V.iterators(elem))
    key = V.choice(st.integers(-2, 4).map(lambda v: {"k": "int", "v": v}), V.strs(2), V.slices(), num, cmpo, V.hashable_objects())
    box = st.tuples(st.sampled_from(["ok", "ok", "raise", "none", "falsy"]), st.integers(0, 3)).map(
        lambda t: {"t": "obj", "cls": "Box", "args": [{"t": "str", "v": t[0]}, {"t": "int", "v": t[1]}]})
    excs = V.exception_instances()

    def call(target: str, *args: st.SearchStrategy) -> st.SearchStrategy:
        return st.tuples(*args).map(lambda a: {"target": target, "kind": "func", "args": list(a)})

    def call2(target: str, two: st.SearchStrategy, *more: st.SearchStrategy) -> st.SearchStrategy:
        return st.tuples(two, *more).map(lambda a: {"target": target, "kind": "func", "args": [*a[0], *a[1:]]})

    ops = st.integers(0, 5).map(lambda v: {"t": "int", "v": v})
    one = V.choice(
        call2("t_cmp", pair, ops), call2("t_cmp", pair, ops), call2("t_cmp_while", pair, ops), call2("t_chain", pair, num),
        call2("t_cmp_expr", pair, ops),
        call("t_truth", truth), call("t_truth", truth), call("t_boolop", truth, truth), call("t_not", truth),
        call("t_in", V.choice(elem, num), hay), call("t_in", V.choice(elem, num), hay), call("t_not_in", elem, hay),
        call("t_iter", hay), call("t_iter", V.iterators(V.choice(num, cmpo))),
        call("t_subscr", V.choice(V.containers(elem, depth=1), V.objects("container", payload=elem), V.strs(), V.bytess()), key),
        call("t_subscr", V.containers(elem, depth=1), key),
        call("t_startswith", V.strs(), prefix), call("t_startswith", V.strs(), prefix), call("t_endswith", V.strs(), prefix),
        call2("t_startswith", affix_pair(False)), call2("t_startswith", affix_pair(False)),
        call2("t_endswith", affix_pair(True)), call2("t_endswith", affix_pair(True)),
        call("t_strpred", V.choice(V.strs(), V.strs(), V.bytess(), V.ints())),
        call("t_attr", box), call("t_attr", box), call("t_attr_store", box, num),
        call("t_match", anyv), call("t_match", V.containers(elem, depth=1)),
        call("t_exc", excs, st.integers(0, 3).map(lambda v: {"k": "int", "v": v})),
        call("t_none", V.choice(V.nones(), num, cmpo)), call("t_global", num), call("t_gen", hay), call("t_print", truth),
        call("t_minmax", V.containers(V.choice(num, cmpo), depth=1)), call("t_sorted", V.containers(V.choice(num, cmpo), depth=1)),
        call("t_unpack", hay), call("t_ternary", truth, num), call("t_assert", truth), call("t_lambda", pair.map(lambda p: p[0]), num),
        call("t_closure", num, truth), call("t_tryfinally", pair.map(lambda p: p[0]), num),
    )
    hazards = V.choice(call("t_with", st.booleans().map(lambda b: {"k": "bool", "v": b}), truth), call("t_comp", hay),
                       call("t_del", truth))
    full = st.tuples(st.lists(one, min_size=3, max_size=8), st.lists(hazards, min_size=1, max_size=3)).map(
        lambda t: {"kind": "tmpl", "variant": "full", "calls": t[0] + t[1]})
    lite = st.lists(one, min_size=4, max_size=10).map(lambda cs: {"kind": "tmpl", "variant": "lite", "calls": cs})
    return V.choice(full, lite, lite)


def _stdlib_cases(heavy: bool) -> st.SearchStrategy:
    names = sorted(n for n in H.STDLIB if H.STDLIB[n].get("known") not in _active_known() and (heavy or not H.STDLIB[n]["heavy"]))

    @st.composite
    def cases(draw: Any) -> dict[str, Any]:
        name = names[draw(st.integers(0, len(names) - 1))]
        spec = H.STDLIB[name]
        calls = [{"args": draw(H.shape_strategy(spec["shape"]))} for _ in range(draw(st.integers(2, 4)))]
        return {"kind": "stdlib", "func": name, "calls": calls}

    return cases()


def _stable_member(r: Any) -> Any:
    """A member of a set / key of a dict must not be hashed by address: the iteration order of the container would differ
    between any two runs (NaN floats and Decimals hash by id() since Python 3.10, as do objects without ``__hash__``)."""
    if not isinstance(r, dict):
        return r
    k = r.get("k")
    if k == "float" and r["x"] == "nan":
        return {"k": "float", "x": (0.5).hex()}
    if k == "decimal" and "nan" in r["v"].lower():
        return {"k": "decimal", "v": "0.5"}
    if k == "complex" and "nan" in (r["re"], r["im"]):
        return {"k": "complex", "re": (0.5).hex(), "im": (0.0).hex()}
    if k == "obj" and "__hash__" not in V._all_methods(r["cls"]):
        return dict(r, cls=dict(r["cls"], m=dict(r["cls"].get("m", {}), __hash__="tag")))
    if k in ("tuple", "frozenset"):
        return dict(r, items=[_stable_member(x) for x in r["items"]])
    return r


def _stabilise(r: Any) -> Any:
    """Rewrite a recipe (recursively) so that no set member / dict key is hashed by address."""
    if isinstance(r, list):
        return [_stabilise(x) for x in r]
    if not isinstance(r, dict):
        return r
    k = r.get("k")
    if k in ("set", "frozenset"):
        return dict(r, items=[_stable_member(_stabilise(x)) for x in r["items"]])
    if k == "dict":
        return dict(r, items=[[_stable_member(_stabilise(a)), _stabilise(b)] for a, b in r["items"]])
    return {key: _stabilise(val) for key, val in r.items()}


def _stabilise_case(case: dict[str, Any]) -> dict[str, Any]:
    for call in case["calls"]:
        for key in ("args", "init"):
            if key in call:
                call[key] = [_stabilise(a) for a in call[key]]
    return case


def strategy(ctx) -> st.SearchStrategy:
    pg = _pygen_cases(ctx.params)
    sl = _stdlib_cases(heavy=ctx.tier != "quick")
    return V.choice(pg, pg, pg, pg, pg, _tmpl_cases(), _tmpl_cases(), _tmpl_cases(), sl, sl).map(_stabilise_case)


# ------------------------------------------------------------------------------------------ evaluation
def _scratch() -> str:
    base = os.environ.get("VF_SCRATCH_DIR") or os.environ.get("VERIF_SCRATCH") or tempfile.gettempdir()
    os.makedirs(base, exist_ok=True)
    return base


def evaluate(case: dict[str, Any]) -> Outcome:
    out = Outcome()
    H.preload()
    # replay files of known findings carry "no_exclusions": the excluded shape itself has to be executed there
    known = [] if case.get("no_exclusions") else sorted(_active_known())
    subsets = case.get("subsets") or H.SUBSETS
    scratch = _scratch()
    progress = os.path.join(scratch, f"c01_progress_{os.getpid()}")
    limit = _time_limit()
    started = time.time()
    kind, val = forked(lambda: H.run_case(case, subsets, scratch, known, progress), limit)
    if kind == "ok":
        _CASE_TIMES.append(time.time() - started)
    results: list[dict[str, Any]] = []
    crashes: list[list[Any]] = []
    if kind == "ok":
        results.append(val)
    elif kind in ("signal", "timeout", "exit"):
        # attribute the crash / hang: one forked child per metric subset ("re-run solo", DESIGN section 2.5)
        for subset in subsets:
            k2, v2 = forked(lambda s=subset: H.run_case(case, [s], scratch, known, progress), limit)
            name = H.subset_name(subset)
            step = _read_progress(progress)
            if k2 == "ok":
                results.append(v2)
            elif k2 == "signal":
                crashes.append([subset, "interpreter-crash", H.crash_where(case, step),
                                f"child killed by signal {v2} under metrics {name} during step {step!r}\n{H.describe_case(case)}"])
            elif k2 == "timeout":
                crashes.append([subset, "nontermination-suspected", H.crash_where(case, step),
                                f"step {step!r} under metrics {name} exceeded {limit:.0f} s twice (limit = max(180 s, 200 x median case time))\n{H.describe_case(case)}"])
            elif k2 == "exit":
                out.inconclusive = f"child-exit-{v2}"
            else:
                _child_exception(out, v2)
        if kind == "timeout" and not out.failures and not out.inconclusive:
            out.inconclusive = "child-timeout-not-reproduced-solo"
    else:
        _child_exception(out, val)
    with contextlib.suppress(OSError):
        os.remove(progress)
    merged = H.merge_results(results, crashes)
    for sig, detail in merged["failures"]:
        out.fail(sig, detail)
    out.labels.extend(merged["labels"])
    out.labels.append("family:" + case["kind"])
    if case["kind"] == "pygen":
        out.labels.extend("has:" + f for f in pygen.features_of(case["module"]))
    elif case["kind"] == "tmpl":
        out.labels.extend(sorted({"tmpl:" + c["target"] for c in case["calls"]}))
    else:
        out.labels.append("stdlib:" + case["func"])
    arg_classes = set()
    for call in case["calls"]:
        for recipe in [*call.get("args", []), *call.get("init", [])]:
            if "k" in recipe and "t" not in recipe:
                arg_classes.add("arg:" + V.category(recipe))
                arg_classes.update("arg:obj/" + f for f in V.features(recipe))
            else:
                arg_classes.add("arg:plain-" + str(recipe.get("t")))
    out.labels.extend(sorted(arg_classes))
    out.excluded = merged["excluded"]
    out.nontrivial = merged["nontrivial"]
    out.evaluations = max(1, merged["evaluations"])
    if merged["inconclusive"] and not out.inconclusive:
        out.inconclusive = merged["inconclusive"]
    out.key = [case["kind"], case.get("module") or case.get("func"), case["calls"]]
    out.sample = {"program": H.describe_case(case)[:1500], "calls": case["calls"][:2]}
    return out


_CASE_TIMES: list[float] = []


def _time_limit() -> float:
    """Hang rule of DESIGN section 2.5: max(180 s, 200 x median wall time of the cases of this shard so far)."""
    if not _CASE_TIMES:
        return 900.0
    ordered = sorted(_CASE_TIMES)
    return max(180.0, 200.0 * ordered[len(ordered) // 2])


def _read_progress(path: str) -> str:
    try:
        with open(path) as fh:
            return fh.read()
    except OSError:
        return "?"


def _child_exception(out: Outcome, val: dict[str, Any]) -> None:
    if val.get("pynguin_frame"):
        out.fail("harness|unexpected-exception|" + val["sig"], val["detail"])
    else:
        raise RuntimeError("harness error in child: " + val["detail"])
