"""C13 — the archive never loses a covered goal or a better solution (parts a and b: operation-history models).

Histories are drawn as operation lists and interpreted against the real classes of
``pynguin.ga.algorithms.archive`` and against bookkeeping written here:

(a) ``CoverageArchive``: ops ``update(batch)``, ``add_goals``; synthetic objectives (table-driven coverage answers) and
    real ``TestCaseChromosome``s (n-statement test case, synthetic last execution result with timeout / exception flags).
(b) ``MIOPopulation``: ops ``add_solution(h, c)``, ``shrink_population(n)`` (non-increasing n), ``sample_solution``.
(b') ``MIOArchive``: ops ``update(batch)``, ``shrink_solutions(n)``, ``get_solution`` with table-driven fitness values.

(c) real DynaMOSA / MOSA / MIO runs (``vf.session``) on the hand-written corpus modules with a ``SearchObserver`` that inspects the
    archive after every iteration and re-executes every archived test on a second executor (few cases in the quick tier).

``reset`` is documented as destructive and not part of the histories.
"""

from __future__ import annotations

from typing import Any

from hypothesis import strategies as st

from vf.core import Outcome

PROPERTY = "C13"
META = {
    "title": "The archive never loses a covered goal or a better solution",
    "technique": "model-based property testing: Hypothesis-drawn operation histories interpreted against the real CoverageArchive / "
                 "MIOPopulation / MIOArchive and an independent bookkeeping model (legal-transition oracle after every step)",
    "design_ref": "DESIGN.md §3 C13 (a), (b), (c)",
    "rule": "case = kind (coverage | miopop | mioarchive) + pool of <= 8 chromosomes (size 1..4, timeout / exception flags) + coverage or "
            "fitness table + 3..30 operations; non-trivial = coverage: some goal's archived test was replaced at least once and a goal "
            "was added later; MIO: a target became covered after its population had been full, or a shrink removed solutions; "
            "distinct by the whole history",
    "assumptions": [
        "every offered chromosome has a last execution result (in a search the covered verdict is computed by executing it)",
        "a replacement is legal iff the old test has errors (timeout/exception) and the new one none, or the new one is strictly "
        "shorter (CoverageArchive) / not longer (MIO, its documented rule); inside one batch any chain of legal replacements is accepted",
        "MIOPopulation internals (_solutions, _capacity) are read for observation only",
        "part (c): corpus modules are deterministic (corpus rule), so a re-executed archived test must cover its goal again; "
        "re-executions that time out are inconclusive; replacement legality is not checked across a whole iteration "
        "(several updates happen in between; chains of legal replacements are not observable)",
    ],
    "level_text": "Generated operation histories against invariants and a legal-transition model after every step. Exploration, not proof.",
    "level_note": "Trusted: TestCaseChromosome/ComputationCache as carrier of the table-driven verdicts.",
}
PLAN = {
    "quick": {"shards": 12, "examples": 3000, "search_examples": 24},
    "thorough": {"shards": 16, "examples": 150000, "search_examples": 1600, "timeout": 3000},
}

NGOALS = 6
FITS = [0.0, 0.25, 0.25, 1.0, 1.0, 3.0, 1e6]  # table values for MIO targets (0.0 = covered)
HS = [0.0, 0.2, 0.35, 0.5, 0.5, 0.65, 0.8, 0.8, 0.9, 1.0]


def strategy(ctx) -> st.SearchStrategy:
    chrom = st.tuples(st.integers(1, 4), st.booleans(), st.booleans()).map(list)  # size, timeout, exception
    pool = st.lists(chrom, min_size=2, max_size=8)
    batch = st.lists(st.integers(0, 7), min_size=1, max_size=4)
    cover_row = st.lists(st.booleans(), min_size=NGOALS, max_size=NGOALS)
    fit_row = st.lists(st.integers(0, len(FITS) - 1), min_size=NGOALS, max_size=NGOALS)
    cov_op = st.one_of(st.tuples(st.just("update"), batch), st.tuples(st.just("update"), batch), st.tuples(st.just("update"), batch),
                       st.tuples(st.just("add_goals"), st.lists(st.integers(0, NGOALS - 1), min_size=1, max_size=3))).map(list)
    pop_op = st.one_of(st.tuples(st.just("add"), st.integers(0, len(HS) - 1), st.integers(0, 7)),
                       st.tuples(st.just("add"), st.integers(0, len(HS) - 1), st.integers(0, 7)),
                       st.tuples(st.just("add"), st.integers(0, len(HS) - 1), st.integers(0, 7)),
                       st.tuples(st.just("shrink"), st.integers(1, 3)), st.tuples(st.just("sample"))).map(list)
    arch_op = st.one_of(st.tuples(st.just("update"), batch), st.tuples(st.just("update"), batch),
                        st.tuples(st.just("shrink"), st.integers(1, 3)), st.tuples(st.just("get"))).map(list)
    coverage = st.fixed_dictionaries({"kind": st.just("coverage"), "pool": pool, "table": st.lists(cover_row, min_size=8, max_size=8),
                                      "initial_goals": st.integers(1, NGOALS), "ops": st.lists(cov_op, min_size=3, max_size=25)})
    miopop = st.fixed_dictionaries({"kind": st.just("miopop"), "pool": pool, "capacity": st.integers(1, 4), "seed": st.integers(0, 2**16),
                                    "ops": st.lists(pop_op, min_size=6, max_size=30)})
    mioarchive = st.fixed_dictionaries({"kind": st.just("mioarchive"), "pool": pool, "table": st.lists(fit_row, min_size=8, max_size=8),
                                        "targets": st.integers(1, 4), "capacity": st.integers(1, 4), "seed": st.integers(0, 2**16),
                                        "ops": st.lists(arch_op, min_size=4, max_size=20)})
    return st.one_of(coverage, miopop, mioarchive)


ALGORITHMS = ["DYNAMOSA", "MOSA", "MIO"]


def search_strategy() -> st.SearchStrategy:
    from vf.corpus import MODULES

    return st.fixed_dictionaries({"kind": st.just("search"), "module": st.sampled_from(MODULES), "algorithm": st.sampled_from(ALGORITHMS),
                                  "seed": st.integers(0, 2**16), "iterations": st.integers(2, 6), "population": st.sampled_from([4, 8, 20])})


def shard(ctx) -> None:
    from vf.hyp import run_cases

    run_cases(ctx, strategy(ctx), evaluate, max(1, ctx.params["examples"] // ctx.nshards))
    n = int(ctx.params.get("search_examples", 0)) // ctx.nshards
    if n:
        run_cases(ctx, search_strategy(), evaluate, n, shrink=False)


# ------------------------------------------------------------------------------------------------------------ carriers
_STMT_CACHE: dict[str, Any] = {}


def _stmt(src: str) -> Any:
    import libcst as cst
    from pynguin.testcase.testcase import Statement

    node = _STMT_CACHE.get(src)
    if node is None:
        node = _STMT_CACHE[src] = cst.parse_statement(src)
    return Statement(node=node, bound_variable=src.split(" ")[0], bound_type=int)


def _uid_of(individual: Any) -> int:
    """Identity of a (possibly cloned / chopped) chromosome: the constant of its first statement, ``var_0 = <uid>``."""
    code = individual.test_case.get_statement(0).node
    import libcst as cst

    return int(cst.Module(body=[code]).code.strip().split("=")[1])


def _make_pool(specs: list[list[Any]], goals: list[Any] | None = None) -> list[Any]:
    import pynguin.ga.testcasechromosome as tcc
    from pynguin.testcase.execution_result import ExecutionResult
    from pynguin.testcase.testcase import TestCase

    pool = []
    for uid, (size, timeout, exc) in enumerate(specs):
        tc = TestCase()
        tc.add_statement(_stmt(f"var_0 = {uid}"))
        for s in range(1, size):
            tc.add_statement(_stmt(f"var_{s} = {1000 + s}"))
        c = tcc.TestCaseChromosome(tc)
        result = ExecutionResult(timeout=bool(timeout))
        if exc:
            result.report_new_thrown_exception(size - 1, ValueError("vf"))  # at the last statement: chopping keeps the size
        c.set_last_execution_result(result)
        c.changed = False
        c.vf_uid = uid
        for g in goals or ():
            c.add_fitness_function(g)  # as the algorithms do: every chromosome knows every objective
        pool.append(c)
    return pool


def _errors(spec: list[Any]) -> bool:
    return bool(spec[1] or spec[2])


def _table_objectives(table: list[list[Any]], values: list[float] | None) -> list[Any]:
    import pynguin.ga.computations as ff

    class TableGoal(ff.FitnessFunction):
        def __init__(self, column: int) -> None:
            self.column = column

        def _cell(self, individual: Any) -> Any:
            return table[_uid_of(individual)][self.column]

        def compute_fitness(self, individual: Any) -> float:
            cell = self._cell(individual)
            return values[cell] if values is not None else (0.0 if cell else 1.0)

        def compute_is_covered(self, individual: Any) -> bool:
            return self.compute_fitness(individual) == 0.0

        def is_maximisation_function(self) -> bool:
            return False

        def __repr__(self) -> str:
            return f"goal{self.column}"

    return [TableGoal(j) for j in range(NGOALS)]


def evaluate(case: dict[str, Any]) -> Outcome:
    out = Outcome()
    out.labels.append("kind:" + case["kind"])
    if case["kind"] == "coverage":
        _coverage_archive(case, out)
    elif case["kind"] == "miopop":
        _mio_population(case, out)
    elif case["kind"] == "mioarchive":
        _mio_archive(case, out)
    else:
        _search_run(case, out)
    return out


# ---------------------------------------------------------------------------------------------------- (a) CoverageArchive
def _coverage_archive(case: dict[str, Any], out: Outcome) -> None:
    from pynguin.ga.algorithms.archive import CoverageArchive
    from pynguin.utils.orderedset import OrderedSet

    specs = case["pool"]
    table = case["table"]
    goals = _table_objectives(table, None)
    pool = _make_pool(specs, goals)
    n = len(pool)
    known = list(range(case["initial_goals"]))  # goal columns the archive knows, in insertion order
    archive = CoverageArchive(OrderedSet(goals[j] for j in known))
    fired: list[int] = []
    archive.add_on_target_covered(lambda g: fired.append(g.column))
    holder: dict[int, int] = {}  # model: goal column -> uid of the archived chromosome
    replaced = added_later = False

    def legal(old: int, new: int) -> bool:
        return (_errors(specs[old]) and not _errors(specs[new])) or specs[new][0] < specs[old][0]

    def observe(step: str) -> bool:
        covered = [g.column for g in archive.covered_goals]
        uncovered = [g.column for g in archive.uncovered_goals]
        objectives = [g.column for g in archive.objectives]
        if sorted(objectives) != sorted(known):
            out.fail(f"CoverageArchive|{step}|objectives-differ-from-model", f"{objectives} vs {known}")
            return False
        if set(covered) & set(uncovered):
            out.fail(f"CoverageArchive|{step}|covered-and-uncovered-overlap", f"{covered} / {uncovered}")
            return False
        if sorted(covered + uncovered) != sorted(objectives):
            out.fail(f"CoverageArchive|{step}|covered-plus-uncovered-is-not-objectives", f"{covered} + {uncovered} vs {objectives}")
            return False
        return True

    for op in case["ops"]:
        name = op[0]
        before = dict(holder)
        fired_before = len(fired)
        if name == "add_goals":
            new = [j for j in op[1]]
            archive.add_goals(OrderedSet(goals[j] for j in new))
            for j in new:
                if j not in known:
                    known.append(j)
                    added_later = True
            if not observe("add_goals"):
                return
            now = {g.column: c.vf_uid for g, c in archive._covered.items()}  # noqa: SLF001
            if now != before:
                out.fail("CoverageArchive|add_goals|changed-archived-solutions", f"{before} -> {now}")
                return
            if len(fired) != fired_before:
                out.fail("CoverageArchive|add_goals|fired-on_target_covered", "")
            continue
        batch = [pool[i % n] for i in op[1]]
        uids = [c.vf_uid for c in batch]
        returned = archive.update(batch)
        if not observe("update"):
            return
        now = {g.column: c.vf_uid for g, c in archive._covered.items()}  # noqa: SLF001
        if any(c is not pool[c.vf_uid] for c in archive._covered.values()):  # noqa: SLF001
            out.fail("CoverageArchive|update|archived-object-is-not-an-offered-chromosome", "")
            return
        changed = False
        for j in known:
            old = before.get(j)
            new = now.get(j)
            coverers = [u for u in uids if table[u][j]]
            if old is not None and new is None:
                out.fail("CoverageArchive|update|covered-goal-lost", f"goal {j} held by {old}")
                return
            if new is None:
                if coverers:
                    out.fail("CoverageArchive|update|covering-solution-not-archived", f"goal {j}, batch {uids}, coverers {coverers}")
                    return
                continue
            if not table[new][j]:
                out.fail("CoverageArchive|update|archived-solution-does-not-cover-its-goal", f"goal {j}, uid {new}")
                return
            # possible holders after processing the batch in order, under legal replacements only
            # (an uncovered goal must take its first coverer)
            possible: set[int] = {old} if old is not None else set()
            for u in coverers:
                if not possible:
                    possible = {u}
                elif any(legal(p, u) for p in possible):
                    possible = possible | {u}
            if new not in possible:
                kind = "equal-size" if old is not None and specs[new][0] == specs[old][0] else "longer-or-errors"
                out.fail(f"CoverageArchive|update|illegal-replacement:{kind}",
                         f"goal {j}: {old} {specs[old] if old is not None else None} -> {new} {specs[new]}; batch {uids}")
                return
            if new != old:
                changed = True
                if old is not None:
                    replaced = True
        newly = sorted(j for j in known if j in now and j not in before)
        fired_now = fired[fired_before:]
        if sorted(fired_now) != newly:
            out.fail("CoverageArchive|update|on_target_covered-differs-from-newly-covered", f"fired {fired_now}, newly covered {newly}")
        if changed and not returned:
            out.fail("CoverageArchive|update|returned-False-although-something-was-stored", f"{before} -> {now}")
        if returned and not changed and len(set(uids)) == 1:
            out.fail("CoverageArchive|update|returned-True-although-nothing-was-stored", f"{before} -> {now}; batch {uids}")
        holder = now
        try:
            sols = archive.solutions
        except AssertionError as exc:
            out.fail("CoverageArchive|solutions|assertion", str(exc))
            return
        if {id(s) for s in sols} != {id(pool[u]) for u in now.values()}:
            out.fail("CoverageArchive|solutions|differs-from-archived-set", "")
    if len(fired) != len(set(fired)):
        out.fail("CoverageArchive|history|on_target_covered-fired-twice-for-a-goal", f"{fired}")
    out.nontrivial = replaced and added_later
    if replaced:
        out.labels.append("class:replacement")
    if added_later:
        out.labels.append("class:goal-added-later")


# ------------------------------------------------------------------------------------------------------ (b) MIOPopulation
def _mio_legal(specs: list[list[Any]], old: int, new: int) -> bool:
    return (_errors(specs[old]) and not _errors(specs[new])) or specs[new][0] <= specs[old][0]


def _pairs(population: Any) -> list[tuple[float, int]]:
    return [(p.h, _uid_of(p.test_case_chromosome)) for p in population._solutions]  # noqa: SLF001


def _mio_population(case: dict[str, Any], out: Outcome) -> None:
    from pynguin.ga.algorithms.archive import MIOPopulation
    from pynguin.utils import randomness

    specs = case["pool"]
    pool = _make_pool(specs)
    n = len(pool)
    randomness.RNG.seed(case["seed"])
    population = MIOPopulation(case["capacity"])
    capacity = case["capacity"]
    covered = False
    counter = 0
    best_h = 0.0
    was_full = covered_after_full = shrunk = False
    for op in case["ops"]:
        before = _pairs(population)
        name = op[0]
        if name == "add":
            h, uid = HS[op[1]], op[2] % n
            cls = "h=0" if h == 0.0 else "h=1" if h == 1.0 else "0<h<1"
            added = population.add_solution(h, pool[uid])
            after = _pairs(population)
            if bool(added) != (after != before):
                # the same (h, uid) pair replacing itself is a store that leaves the content unchanged
                if not (added and (h, uid) in before):
                    out.fail(f"MIOPopulation|add_solution|{cls}|return-value-disagrees-with-change", f"{before} -> {after}, returned {added}")
                    return
            if h == 0.0 and after != before:
                out.fail("MIOPopulation|add_solution|h=0|stored", f"{before} -> {after}")
                return
            if covered:
                if h < 1.0 and after != before:
                    out.fail("MIOPopulation|add_solution|0<h<1|changed-a-covered-target", f"{before} -> {after}")
                    return
                if h == 1.0 and after != before and not _mio_legal(specs, before[0][1], uid):
                    out.fail("MIOPopulation|add_solution|h=1|illegal-replacement-of-covering-solution",
                             f"{specs[before[0][1]]} -> {specs[uid]}")
                    return
            elif h == 1.0:
                if after != [(1.0, uid)]:
                    out.fail("MIOPopulation|add_solution|h=1|first-cover-does-not-reduce-to-the-covering-solution", f"{before} -> {after}")
                    return
                covered = True
                capacity = 1
                covered_after_full |= was_full
            elif h > 0.0:
                if len(before) < capacity:
                    if sorted(after) != sorted([*before, (h, uid)]):
                        out.fail("MIOPopulation|add_solution|0<h<1|free-slot-not-used", f"{before} + {(h, uid)} -> {after}")
                        return
                else:
                    low = min(p[0] for p in before)
                    if after != before:
                        gone = list(before)
                        for p in after:
                            if p in gone:
                                gone.remove(p)
                        if len(gone) != 1 or gone[0][0] != low:
                            out.fail("MIOPopulation|add_solution|0<h<1|removed-other-than-one-worst", f"{before} -> {after}")
                            return
                        if h < low or (h == low and not _mio_legal(specs, gone[0][1], uid)):
                            out.fail("MIOPopulation|add_solution|0<h<1|illegal-replacement-of-worst", f"{before} + {(h, uid)} -> {after}")
                            return
                    elif h > low:
                        out.fail("MIOPopulation|add_solution|0<h<1|better-solution-discarded", f"{before} + {(h, uid)} unchanged")
                        return
            if added:
                counter = 0
        elif name == "shrink":
            k = min(op[1], capacity)  # histories use non-increasing sizes
            population.shrink_population(k)
            after = _pairs(population)
            if covered:
                if after != before:
                    out.fail("MIOPopulation|shrink_population|covered|changed", f"{before} -> {after}")
                    return
            else:
                capacity = k
                want = sorted((p[0] for p in before), reverse=True)[:k]
                if [p[0] for p in after] != want or any(p not in before for p in after):
                    out.fail("MIOPopulation|shrink_population|uncovered|not-the-best-k", f"k={k}: {before} -> {after}")
                    return
                shrunk |= len(after) < len(before)
        else:
            got = population.sample_solution()
            after = _pairs(population)
            if after != before:
                out.fail("MIOPopulation|sample_solution|-|changed-population", "")
                return
            if (got is None) != (not before) or (got is not None and _uid_of(got) not in [p[1] for p in before]):
                out.fail("MIOPopulation|sample_solution|-|wrong-result", f"{before} -> {got}")
                return
            if got is not None:
                counter += 1
        # invariants after every step
        hs = [p[0] for p in after]
        if len(after) > capacity:
            out.fail(f"MIOPopulation|{name}|-|exceeds-capacity", f"{len(after)} > {capacity}: {after}")
            return
        if hs != sorted(hs, reverse=True):
            out.fail(f"MIOPopulation|{name}|-|not-sorted-by-h-descending", f"{after}")
            return
        if covered and (len(after) != 1 or hs[0] != 1.0):
            out.fail(f"MIOPopulation|{name}|-|covered-target-without-exactly-one-covering-solution", f"{after}")
            return
        if population.is_covered != covered:
            out.fail(f"MIOPopulation|{name}|-|is_covered-differs-from-model", f"{population.is_covered} vs {covered}; {after}")
            return
        if hs and hs[0] < best_h:
            out.fail(f"MIOPopulation|{name}|-|best-h-decreased", f"{best_h} -> {hs[0]}")
            return
        best_h = max(best_h, hs[0]) if hs else best_h
        if population.counter != counter:
            out.fail(f"MIOPopulation|{name}|-|counter-differs-from-model", f"{population.counter} vs {counter}")
            return
        if (population.get_best_solution_if_any() is not None) != covered:
            out.fail(f"MIOPopulation|{name}|-|best-solution-differs-from-covered", "")
            return
        was_full |= not covered and len(after) == capacity and capacity > 1
    out.nontrivial = covered_after_full or shrunk
    if covered_after_full:
        out.labels.append("class:covered-after-full")
    if shrunk:
        out.labels.append("class:shrink-removed-solutions")


# --------------------------------------------------------------------------------------------------------- (b') MIOArchive
def _mio_archive(case: dict[str, Any], out: Outcome) -> None:
    from pynguin.ga.algorithms.archive import MIOArchive
    from pynguin.utils import randomness
    from pynguin.utils.orderedset import OrderedSet

    specs = case["pool"]
    table = case["table"]
    goals = _table_objectives(table, FITS)[: case["targets"]]
    pool = _make_pool(specs, goals)
    n = len(pool)
    randomness.RNG.seed(case["seed"])
    archive = MIOArchive(OrderedSet(goals), case["capacity"])
    fired: list[int] = []
    archive.add_on_target_covered(lambda g: fired.append(g.column))
    capacity = case["capacity"]
    covered: dict[int, int] = {}  # target column -> uid of the covering solution
    offered: set[int] = set()
    shrunk = late_cover = False
    had_partial: set[int] = set()
    for op in case["ops"]:
        name = op[0]
        if name == "update":
            uids = [i % n for i in op[1]]
            offered |= set(uids)
            archive.update([pool[u] for u in uids])
        elif name == "shrink":
            capacity = min(capacity, op[1])
            before_sizes = {g.column: archive._archive[g].num_solutions for g in goals}  # noqa: SLF001
            archive.shrink_solutions(capacity)
            shrunk |= any(archive._archive[g].num_solutions < before_sizes[g.column] for g in goals)  # noqa: SLF001
        else:
            got = archive.get_solution()
            any_solution = any(archive._archive[g].num_solutions for g in goals)  # noqa: SLF001
            if (got is None) == any_solution:
                out.fail("MIOArchive|get_solution|-|none-iff-empty-violated", f"{got}")
                return
            if got is not None and _uid_of(got) not in offered:
                out.fail("MIOArchive|get_solution|-|returned-a-solution-never-offered", "")
                return
        for g in goals:
            pop = archive._archive[g]  # noqa: SLF001
            pairs = _pairs(pop)
            j = g.column
            cap = 1 if pop.is_covered else capacity
            if len(pairs) > cap:
                out.fail(f"MIOArchive|{name}|-|population-exceeds-capacity", f"target {j}: {pairs}, capacity {cap}")
                return
            if [p[0] for p in pairs] != sorted((p[0] for p in pairs), reverse=True):
                out.fail(f"MIOArchive|{name}|-|population-not-sorted", f"{pairs}")
                return
            for h, u in pairs:
                want = 1.0 - (lambda v: 1.0 if v == float("inf") else v / (1.0 + v))(FITS[table[u][j]])
                if h != want:
                    out.fail(f"MIOArchive|{name}|-|h-value-differs-from-fitness-of-the-stored-test", f"target {j} uid {u}: {h} vs {want}")
                    return
            if j in covered:
                if not pop.is_covered or len(pairs) != 1 or pairs[0][0] != 1.0:
                    out.fail(f"MIOArchive|{name}|-|covered-target-lost-or-not-single", f"target {j}: {pairs}")
                    return
                new = pairs[0][1]
                if new != covered[j]:
                    if name != "update":
                        out.fail(f"MIOArchive|{name}|-|covering-solution-changed-outside-update", f"target {j}")
                        return
                    if FITS[table[new][j]] != 0.0 or new not in offered:
                        out.fail("MIOArchive|update|-|covering-solution-replaced-by-non-covering-test", f"target {j}: {covered[j]} -> {new}")
                        return
                covered[j] = new
            elif pop.is_covered:
                covered[j] = pairs[0][1]
                late_cover |= j in had_partial
                if FITS[table[covered[j]][j]] != 0.0:
                    out.fail(f"MIOArchive|{name}|-|covering-solution-does-not-cover", f"target {j} uid {covered[j]}")
                    return
            elif pairs:
                had_partial.add(j)
            # a test offered so far that covers the target => the target must be covered
            if j not in covered and any(FITS[table[u][j]] == 0.0 for u in offered):
                out.fail(f"MIOArchive|{name}|-|offered-covering-test-not-archived", f"target {j}")
                return
        if sorted(set(fired)) != sorted(covered) or len(fired) != len(set(fired)):
            out.fail(f"MIOArchive|{name}|-|on_target_covered-differs-from-covered-targets", f"fired {fired}, covered {sorted(covered)}")
            return
        if archive.num_covered_targets != len(covered):
            out.fail(f"MIOArchive|{name}|-|num_covered_targets-differs-from-model", f"{archive.num_covered_targets} vs {len(covered)}")
            return
        if sorted({_uid_of(s) for s in archive.solutions}) != sorted(set(covered.values())):
            out.fail(f"MIOArchive|{name}|-|solutions-differ-from-covering-tests", "")
            return
    out.nontrivial = late_cover or shrunk
    if late_cover:
        out.labels.append("class:covered-after-partial-solutions")
    if shrunk:
        out.labels.append("class:shrink-removed-solutions")


# ------------------------------------------------------------------------------------------------- (c) real search runs
def _search_run(case: dict[str, Any], out: Outcome) -> None:
    import pynguin.ga.searchobserver as so
    from pynguin.ga.algorithms.archive import CoverageArchive, MIOArchive
    from vf.corpus import CORPUS_DIR
    from vf.session import Session

    alg_name = case["algorithm"]
    out.labels.append("algorithm:" + alg_name)
    iterations = case["iterations"] * (15 if alg_name == "MIO" else 1)  # a MIO iteration is a single test evaluation
    state: dict[str, Any] = {"covered": {}, "fired": [], "snaps": 0, "timeouts": 0, "replaced": 0, "stop": False}

    with Session(CORPUS_DIR, case["module"], seed=case["seed"], algorithm=alg_name, maximum_iterations=iterations,
                 search_algorithm__population=case["population"]) as s:
        algorithm = s.algorithm
        archive = algorithm.archive
        second = s.plain_executor()
        archive.add_on_target_covered(lambda g: state["fired"].append(g))

        def covers(goal: Any, chromosome: Any) -> bool | None:
            """Re-execute the archived test on the second executor and ask the goal itself (no caches involved)."""
            result = second.execute(chromosome.test_case.clone())
            if result.timeout:
                state["timeouts"] += 1
                return None
            return bool(goal.goal.is_covered(result)) if hasattr(goal, "goal") else bool(goal._goal.is_covered(result))  # noqa: SLF001

        def snapshot(where: str) -> None:
            if state["stop"]:
                return
            state["snaps"] += 1
            if isinstance(archive, CoverageArchive):
                covered = list(archive.covered_goals)
                uncovered = list(archive.uncovered_goals)
                objectives = list(archive.objectives)
                if set(covered) & set(uncovered) or set(covered) | set(uncovered) != set(objectives):
                    out.fail(f"search|{alg_name}|covered-uncovered-do-not-partition-objectives", where)
                    state["stop"] = True
                    return
                now = dict(archive._covered)  # noqa: SLF001
            elif isinstance(archive, MIOArchive):
                now = {}
                for target, population in archive._archive.items():  # noqa: SLF001
                    hs = [p.h for p in population._solutions]  # noqa: SLF001
                    if len(hs) > population._capacity or hs != sorted(hs, reverse=True):  # noqa: SLF001
                        out.fail(f"search|{alg_name}|population-exceeds-capacity-or-unsorted", f"{where}: {hs}, capacity {population._capacity}")  # noqa: SLF001
                        state["stop"] = True
                        return
                    if population.is_covered:
                        if len(hs) != 1 or hs[0] != 1.0:
                            out.fail(f"search|{alg_name}|covered-target-without-single-covering-solution", f"{where}: {hs}")
                            state["stop"] = True
                            return
                        now[target] = population._solutions[0].test_case_chromosome  # noqa: SLF001
            else:
                out.inconclusive = "unknown archive type " + type(archive).__name__
                state["stop"] = True
                return
            for goal in state["covered"]:
                if goal not in now:
                    out.fail(f"search|{alg_name}|covered-goal-lost", f"{where}: {goal}")
                    state["stop"] = True
                    return
            for goal, chromosome in now.items():
                old = state["covered"].get(goal)
                if old is chromosome:
                    continue  # already re-executed when it was archived
                if old is not None:
                    state["replaced"] += 1
                verdict = covers(goal, chromosome)
                if verdict is False:
                    out.fail(f"search|{alg_name}|archived-test-does-not-cover-its-goal-when-re-executed",
                             f"{where}: {goal}: {chromosome.test_case.to_code()!r}")
                    state["stop"] = True
                    return
            state["covered"] = now
            fired = state["fired"]
            if len(fired) != len(set(fired)) or set(fired) != set(now):
                out.fail(f"search|{alg_name}|on_target_covered-differs-from-covered-goals", f"{where}: fired {len(fired)}, covered {len(now)}")
                state["stop"] = True

        class Observer(so.SearchObserver):
            def before_search_start(self, start_time_ns: int) -> None:
                pass

            def before_first_search_iteration(self, initial: Any) -> None:
                snapshot("before-first-iteration")

            def after_search_iteration(self, best: Any) -> None:
                snapshot("after-iteration")

            def after_search_finish(self) -> None:
                snapshot("after-finish")

        algorithm.add_search_observer(Observer())
        algorithm.generate_tests()
        ncovered = len(state["covered"])
    if state["timeouts"]:
        out.inconclusive = "re-execution timed out"
    out.nontrivial = state["snaps"] >= 3 and ncovered >= 2
    out.evaluations = max(1, state["snaps"])
    if state["replaced"]:
        out.labels.append("class:search-archived-test-replaced")
