"""C08 -- coverage exclusions remove exactly the excluded code from the goals (DESIGN.md section 3 C08).

A case is a ``vf.gen.pygen`` module model plus an *exclusion plan* drawn by this module's generator:

* inline markers (``# pragma: no cover`` / ``# pynguin: no cover`` in a few spellings, and decoy comments that are
  NOT markers) on lines where docs/user/coverage.rst + the Coverage.py convention it refers to are unambiguous:
  a ``def``/``class`` header (whole scope), a simple statement (that line), an ``if``/``elif``/``for``/``while`` header
  (header + clause body), ``else:`` / ``except ...:`` (header + that clause body);
* an ``if TYPE_CHECKING:`` / ``if typing.TYPE_CHECKING:`` block at the top and an ``if __name__ == "__main__":`` block
  at the end of the module (always excluded, independent of the inline flags);
* ``no_cover`` / ``only_cover`` lists of qualified scope names taken from the model, ``ignore_methods`` (module-prefixed
  names that ``install_import_hook`` turns into ``no_cover`` names), the two ``enable_inline_*`` flags.

The module is written to a scratch directory and imported through the real machinery (``SubjectProperties`` ->
``install_import_hook(..., to_cover_config=ToCoverConfiguration(...))`` -> ``importlib.import_module`` under the
instrumentation tracer, BRANCH+LINE adapters), in a forked child.

Oracle (independent of ``AstInfo``/``ast``): the source is laid out by this module (one statement per line, four-space
indentation), so block extents and scope nesting follow from indentation and the first keyword of a line alone.  From
the plan it computes the excluded line set **E** (line -> reason) and a small set **U** of unconstrained lines
(decorator lines of an excluded definition).  "Executable" lines come from CPython: ``dis`` over the code objects of
``compile(source)`` -- lines of instructions other than ``RESUME``/``END_FOR``/generator prologue that have a location.

  (1) no registered line goal, no predicate ``line_no`` and no registered code object's definition line lies in E;
  (2) with ``only_cover``: no registered code object whose scope neither contains nor is contained in a selected scope;
  (3) every executable (code object, line) outside E and U -- restricted to code objects inside selected scopes when
      ``only_cover`` is given -- is a registered line goal of that code object;
  (4) a name listed in both ``only_cover`` and ``no_cover`` (or ``ignore_methods``) raises ``ValueError``; nothing else
      raises.

The layout/E machinery is reused by C07 (``build``, ``exclusion_plan``, ``plan_strategy``).
"""

from __future__ import annotations

import os
import re
import shutil
import tempfile
from typing import Any

from hypothesis import strategies as st

from vf.core import Outcome, exc_detail, exc_sig, h12, has_pynguin_frame
from vf.gen import pygen
from vf.iso import forked

PROPERTY = "C08"
META = {
    "title": "Coverage exclusions remove exactly the excluded code from the goals",
    "technique": "property-based testing: grammar-generated modules annotated by the generator with exclusion markers, "
                 "scope-name lists and main/TYPE_CHECKING blocks, instrumented through the real import hook; model-level "
                 "excluded-line set + CPython's own line tables (dis) as oracle",
    "design_ref": "DESIGN.md §3 C08",
    "rule": "case = pygen module model x 0..4 inline markers ('# pragma: no cover' / '# pynguin: no cover' in 2-3 spellings, "
            "decoy comments) on def/class headers, simple statements, if/elif/for/while headers, else:/except: lines x optional "
            "TYPE_CHECKING block (top) and __main__ block (end) x no_cover / only_cover / ignore_methods names of module-level "
            "functions, classes, methods, properties and directly nested functions x the two enable_inline_* flags; ~25% of the "
            "cases get an extra directed function (lambda default on the def line + marker on a loop/if/else inside; "
            "try/except/else/finally with a marker on/in the else clause; marked if with an early exit right after a try); "
            "non-trivial = an active exclusion (marker nested inside a compound statement or scope, a scope name, or a block) "
            "removes at least one executable line AND at least one line goal survives; distinct by the whole case",
    "assumptions": [
        "markers are only placed where the documented semantics are unambiguous (not on try:/with/match/case/finally:/"
        "decorator lines, not as '#pragma' without a space)",
        "decorator lines of an excluded definition and lines of ancestors of an only_cover scope are unconstrained",
        "scope names are offered only for definitions that are direct children of their parent scope (pynguin's "
        "'outer.inner' convention); names of definitions nested under compound statements are not used",
        "a marker on the def line of a scope that is also named in only_cover may raise ValueError (line in both sets)",
        "executable lines = lines of located instructions of compile(source) except RESUME/END_FOR/RETURN_GENERATOR/"
        "MAKE_CELL/COPY_FREE_VARS-only lines (pynguin documents that those carry no line goal)",
    ],
    "level_text": "Generated programs x exclusion configurations against a model-level oracle; exploration, not proof.",
    "level_note": "Trusted: CPython's compile()/dis line tables, vf.gen.pygen's renderer (one statement per line), the "
                  "indentation-based layout parser of this module (cross-checked against pygen.line_map on every case).",
}
PLAN = {
    "quick": {"shards": 16, "examples": 256, "max_stmts": 12, "max_funcs": 2, "timeout": 2400, "shrink_sigs": 2, "shrink_seconds": 30},
    "thorough": {"shards": 16, "examples": 24000, "timeout": 3000, "max_stmts": 22, "max_funcs": 3},
}
FEATURES = set(pygen.FEATURES) - {"strtuple"}
CHILD_TIMEOUT = 120.0

MARK_TEXTS = {
    "pragma": ["# pragma: no cover", "# pragma: no cover - defensive", "#  pragma:  no  cover"],
    "pynguin": ["# pynguin: no cover", "#  pynguin:  no cover", "# pynguin: no cover (unreachable)"],
    "decoy": ["# pragma: no branch", "# no cover", "# pynguin: cover"],
}
MARK_CLASSES = ("def", "simple", "cond", "clause")  # clause = else:/except
_KEYWORDS = (("def ", "def"), ("class ", "class"), ("if ", "if"), ("elif ", "elif"), ("else:", "else"), ("for ", "for"),
             ("while ", "while"), ("try:", "try"), ("except", "except"), ("finally:", "finally"), ("with ", "with"),
             ("match ", "match"), ("case ", "case"), ("@", "decorator"))
_LINE_MAP_KINDS = {"if": "if", "fuel-guard": "if", "elif": "elif", "else": "else", "while": "while", "for": "for",
                   "try": "try", "except": "except", "finally": "finally", "with": "with", "match": "match", "case": "case",
                   "def": "def", "class": "class", "decorator": "decorator"}
_NO_CODE_KINDS = ("global", "nonlocal")
# bodies of the TYPE_CHECKING / __main__ blocks: (relative indent, text); ``$`` is replaced by a block-specific prefix
BLOCK_BODIES = [
    [(0, "_$a = 1")],
    [(0, "import os as _$os")],
    [(0, "_$a = 1"), (0, "_$b = [_$a, 2]")],
    [(0, "def _$f(q):"), (1, "if q:"), (2, "return 1"), (1, "return (lambda r: r)(q)"), (0, "_$c = 3")],
    [(0, "for _$i in range(2):"), (1, "_$d = _$i")],
    [(0, "if _$e:"), (1, "_$g = 1"), (0, "else:"), (1, "_$g = 2")],
    [(0, "_$h = [x for x in range(3) if x]"), (0, "_$k = sum(y for y in _$h)")],
]
TC_FORMS = ["TYPE_CHECKING", "typing.TYPE_CHECKING"]


# ------------------------------------------------------------------------------------------ layout
def _kind_of(text: str) -> str:
    for prefix, kind in _KEYWORDS:
        if text.startswith(prefix):
            return kind
    first = text.split(" ", 1)[0]
    return first if first in _NO_CODE_KINDS else "simple"


class Layout:
    """Final source lines of a case + indentation-based structure (no ``ast``)."""

    def __init__(self) -> None:
        self.ind: list[int] = [0]      # 1-based: index 0 is a dummy
        self.text: list[str] = [""]
        self.kind: list[str] = [""]
        self.mark: list[tuple[str, str] | None] = [None]
        self.origin: list[str] = [""]
        self.py_offset = 0             # final line = pygen line + py_offset
        self._ends: dict[int, int] = {}
        self._headers: list[int] | None = None

    def add(self, ind: int, text: str, origin: str) -> int:
        self.ind.append(ind)
        self.text.append(text)
        self.kind.append(_kind_of(text))
        self.mark.append(None)
        self.origin.append(origin)
        self._ends.clear()
        self._headers = None
        return len(self.text) - 1

    @property
    def n(self) -> int:
        return len(self.text) - 1

    def source(self) -> str:
        out = []
        for i in range(1, self.n + 1):
            line = "    " * self.ind[i] + self.text[i]
            if self.mark[i] is not None:
                line += "  " + self.mark[i][1]
            out.append(line)
        return "\n".join(out) + "\n"

    def block_end(self, i: int) -> int:
        """Last line of the indented block that follows header line ``i`` (``i`` itself if there is none)."""
        j = self._ends.get(i)
        if j is None:
            j = i
            while j + 1 <= self.n and self.ind[j + 1] > self.ind[i]:
                j += 1
            self._ends[i] = j
        return j

    def is_header(self, i: int) -> bool:
        return i + 1 <= self.n and self.ind[i + 1] > self.ind[i]

    def scope_headers(self) -> list[int]:
        if self._headers is None:
            self._headers = [i for i in range(1, self.n + 1) if self.kind[i] in ("def", "class")]
        return self._headers

    def chain(self, i: int) -> list[int]:
        """def/class header lines whose scope contains line ``i`` (a header line belongs to its own scope)."""
        out = []
        for h in self.scope_headers():
            if h <= i <= self.block_end(h):
                out.append(h)
        return out

    def def_name(self, h: int) -> str:
        m = re.match(r"(?:def|class)\s+(\w+)", self.text[h])
        assert m is not None, self.text[h]
        return m.group(1)

    def qualname(self, h: int) -> str:
        return ".".join(self.def_name(x) for x in self.chain(h))

    def resolvable(self, h: int) -> bool:
        """Is every scope on the chain of ``h`` a direct child of its parent scope (module for the first)?"""
        chain = self.chain(h)
        expected = 0
        for x in chain:
            if self.ind[x] != expected:
                return False
            expected = self.ind[x] + 1
        return True

    def decorators_of(self, h: int) -> list[int]:
        out = []
        j = h - 1
        while j >= 1 and self.kind[j] == "decorator" and self.ind[j] == self.ind[h]:
            out.append(j)
            j -= 1
        return out

    def names(self) -> dict[str, int]:
        return {self.qualname(h): h for h in self.scope_headers() if self.resolvable(h)}


def _add_block(lay: Layout, header: str, body_id: int, prefix: str, origin: str) -> None:
    lay.add(0, header, origin)
    for rel, text in BLOCK_BODIES[body_id % len(BLOCK_BODIES)]:
        lay.add(1 + rel, text.replace("$", prefix), origin)


def build(model: dict[str, Any], plan: dict[str, Any] | None) -> Layout:
    """Lay out the module of a case: [TYPE_CHECKING block] + pygen lines (+ markers) + [__main__ block]."""
    plan = plan or {}
    lay = Layout()
    tc = plan.get("tc")
    if tc is not None:
        form = TC_FORMS[tc["form"] % len(TC_FORMS)]
        lay.add(0, "import typing" if "." in form else "from typing import TYPE_CHECKING", "import")
        _add_block(lay, f"if {form}:", tc["body"], "tc", "tc")
    lay.py_offset = lay.n
    src_lines = pygen.render(model).splitlines()
    info = pygen.line_map(model)
    for no, raw in enumerate(src_lines, start=1):
        stripped = raw.lstrip(" ")
        ind, rem = divmod(len(raw) - len(stripped), 4)
        if rem or not stripped:
            raise RuntimeError(f"pygen line {no} is not indented by multiples of four: {raw!r}")
        i = lay.add(ind, stripped, "pygen")
        want = info[no]["kind"]
        if want != "prelude":  # self-check of the text classification against the generator's own line map
            expect = _LINE_MAP_KINDS.get(want, "simple")
            got = lay.kind[i] if lay.kind[i] not in _NO_CODE_KINDS else "simple"
            if expect != got:
                raise RuntimeError(f"layout kind mismatch on pygen line {no}: {raw!r}: {got} != {expect} ({want})")
    main = plan.get("main")
    if main is not None:
        _add_block(lay, 'if __name__ == "__main__":', main["body"], "mn", "main")
    for no in range(1, len(src_lines) + 1):  # scope self-check (prelude lines all carry the scope "_Ctx")
        if info[no]["kind"] in ("prelude", "decorator"):
            continue
        i = no + lay.py_offset
        chain = lay.chain(i)
        mine = lay.qualname(chain[-1]) if chain else "<module>"
        if mine != info[no]["scope"]:
            raise RuntimeError(f"layout scope mismatch on pygen line {no}: {mine} != {info[no]['scope']}")
    for mk in plan.get("marks", []):
        i = mk["line"] + lay.py_offset
        texts = MARK_TEXTS[mk["fam"]]
        if 1 <= i <= lay.n and lay.mark[i] is None:
            lay.mark[i] = (mk["fam"], texts[mk["v"] % len(texts)])
    return lay


def mark_class(lay: Layout, i: int) -> str | None:
    """Which documented marker position line ``i`` is (None: the generator does not mark such lines)."""
    k = lay.kind[i]
    if k in ("def", "class"):
        return "def"
    if k == "simple":
        return "simple"
    if k in ("if", "elif", "for", "while"):
        return "cond"
    if k in ("else", "except"):
        return "clause"
    return None


def exclusion_plan(lay: Layout, plan: dict[str, Any] | None, module_name: str) -> dict[str, Any]:
    """Model-level semantics of a plan: E (line -> reason), U, selected scope headers, expected ValueError."""
    plan = plan or {}
    flags = plan.get("flags", [True, True])
    active = {"pragma": bool(flags[0]), "pynguin": bool(flags[1]), "decoy": False}
    excl: dict[int, str] = {}
    unconstrained: set[int] = set()
    names = lay.names()

    def put(lines: Any, reason: str) -> None:
        for ln in lines:
            excl.setdefault(ln, reason)

    def scope(h: int, reason: str) -> None:
        put(range(h, lay.block_end(h) + 1), reason)
        unconstrained.update(lay.decorators_of(h))

    for i in range(1, lay.n + 1):
        if lay.origin[i] in ("tc", "main") and lay.ind[i] == 0:
            put(range(i, lay.block_end(i) + 1), "block:" + lay.origin[i])
    marked_defs: set[int] = set()
    for i in range(1, lay.n + 1):
        mk = lay.mark[i]
        if mk is None or not active[mk[0]]:
            continue
        cls = mark_class(lay, i)
        if cls == "def":
            marked_defs.add(i)
            scope(i, "mark:scope")
        elif cls == "simple":
            put([i], "mark:simple")
        elif cls in ("cond", "clause"):
            put([i], f"mark:{lay.kind[i]}-header")
            put(range(i + 1, lay.block_end(i) + 1), f"mark:{lay.kind[i]}-body")
        else:
            raise RuntimeError(f"marker on an unsupported line kind {lay.kind[i]!r}")
    no_names = list(plan.get("no", []))
    prefix = module_name + "."
    ignored = [m.replace("$M", module_name) for m in plan.get("ignore", [])]
    from_ignore = [m[len(prefix):] for m in ignored if m.startswith(prefix)]
    for nm in no_names:
        if nm in names:
            scope(names[nm], "name:no_cover")
    for nm in from_ignore:
        if nm in names:
            scope(names[nm], "name:ignore_methods")
    only = [nm for nm in plan.get("only", []) if nm in names]
    selected = {names[nm] for nm in only}
    must_raise = bool(set(only) & (set(no_names) | set(from_ignore)))
    may_raise = must_raise or bool(selected & marked_defs)
    unconstrained -= set(excl)
    return {"E": excl, "U": unconstrained, "selected": selected, "must_raise": must_raise, "may_raise": may_raise,
            "ignored": ignored, "flags": [bool(flags[0]), bool(flags[1])], "no": no_names, "only": list(plan.get("only", []))}


# ------------------------------------------------------------------------------------------ generator
def plan_strategy(model: dict[str, Any], always: bool = False, weights: dict[str, int] | None = None) -> st.SearchStrategy:
    """Strategy drawing an exclusion plan for ``model``.

    ``always``: at least one active marker (if the module has a line that can carry one) or block is used;
    ``weights``: relative frequency of the marker classes of ``MARK_CLASSES``.
    """
    lay = build(model, None)
    cands: dict[str, list[int]] = {c: [] for c in MARK_CLASSES}
    nested: dict[str, list[int]] = {c: [] for c in MARK_CLASSES}
    for i in range(1, lay.n + 1):
        cls = mark_class(lay, i)
        if cls is None or lay.kind[i] in _NO_CODE_KINDS:
            continue
        cands[cls].append(i)
        if lay.ind[i] >= 2:
            nested[cls].append(i)
    names = sorted(lay.names())
    classes = [c for c in MARK_CLASSES if cands[c]]
    weights = weights or {"def": 2, "simple": 3, "cond": 4, "clause": 4}
    pool = [c for c in classes for _ in range(weights[c])]
    heaviest = max(classes, key=lambda c: weights[c]) if classes else None

    @st.composite
    def plans(draw: Any) -> dict[str, Any]:
        ints = st.integers
        n_marks = draw(st.sampled_from([0, 1, 1, 2, 2, 3, 4])) if pool else 0
        marks, used = [], set()
        for _ in range(n_marks):
            cls = draw(st.sampled_from(pool))
            src = nested[cls] if nested[cls] and draw(ints(0, 9)) < 6 else cands[cls]
            line = draw(st.sampled_from(src))
            if line in used:
                continue
            used.add(line)
            fam = draw(st.sampled_from(["pragma", "pragma", "pragma", "pynguin", "pynguin", "decoy"]))
            marks.append({"line": line, "fam": fam, "v": draw(ints(0, 2))})
        flags = [draw(ints(0, 9)) < 8, draw(ints(0, 9)) < 8]
        no = draw(st.lists(st.sampled_from(names), max_size=2, unique=True)) if names and draw(ints(0, 9)) < 4 else []
        ignore = []
        if names and draw(ints(0, 9)) < 3:
            ignore.append("$M." + draw(st.sampled_from(names)))
            if draw(ints(0, 3)) == 0:
                ignore.append("other_module." + draw(st.sampled_from(names)))
        free = [nm for nm in names if nm not in no and "$M." + nm not in ignore]
        only = draw(st.lists(st.sampled_from(free), min_size=1, max_size=2, unique=True)) if free and draw(ints(0, 9)) < 4 else []
        if only and (no or ignore) and draw(ints(0, 9)) >= 7:  # deliberate overlap -> documented ValueError
            clash = (no + [m[3:] for m in ignore if m.startswith("$M.")])[0]
            if clash not in only:
                only.append(clash)
        tc = {"form": draw(ints(0, 1)), "body": draw(ints(0, len(BLOCK_BODIES) - 1))} if draw(ints(0, 9)) < 3 else None
        main = {"body": draw(ints(0, len(BLOCK_BODIES) - 1))} if draw(ints(0, 9)) < 3 else None
        if always and not any(mk["fam"] != "decoy" and flags[0 if mk["fam"] == "pragma" else 1] for mk in marks):
            if heaviest is not None:
                src = nested[heaviest] or cands[heaviest]
                line = draw(st.sampled_from(src))
                marks = [mk for mk in marks if mk["line"] != line]
                marks.append({"line": line, "fam": "pragma", "v": 0})
                flags[0] = True
            elif not (tc or main):
                main = {"body": 0}
        return {"marks": marks, "flags": flags, "no": no, "only": only, "ignore": ignore, "tc": tc, "main": main}

    return plans()


# ---- directed statement shapes (a small template family on top of pygen; mixed into ~25% of the cases)
DIRECTED_NAME = "d0"
_LAMBDA_DEFAULT = "k0=lambda v: v"  # a nested scope that starts on the ``def`` line of its enclosing function


def _directed_function(shape: int, opts: list[int]) -> dict[str, Any]:
    """Function model ``d0`` of one of three shapes (pygen statement models, rendered by ``pygen.render``).

    0: loop + ``if``/``else`` with a nested ``if``;  1: ``try``/``except``/``else``/``finally`` with code in every clause;
    2: ``try`` whose handler leaves the function, directly followed by an ``if`` with an early exit and further ``if``s.
    """
    nm, cst, call, meth = pygen.N, pygen.C, pygen.CALL, pygen.METH

    def cmp(op: str, left: Any, right: Any) -> dict[str, Any]:
        return {"k": "cmp", "ops": [op], "es": [left, right]}

    def assign(name: str, value: Any) -> dict[str, Any]:
        return {"k": "assign", "t": nm(name), "v": value}

    def if_(cond: Any, body: list, orelse: list | None = None) -> dict[str, Any]:
        return {"k": "if", "c": cond, "body": body, "elifs": [], "else": orelse}

    leave = {"k": "raise", "exc": "ValueError", "msg": "m"} if opts[1] % 2 else {"k": "ret", "v": cst(-1)}
    params = [{"name": "a0", "t": "int"}, {"name": "a1", "t": "int"}]
    if opts[0] % 2:
        params.append({"name": _LAMBDA_DEFAULT, "t": "int"})
    if shape == 0:
        item = call("k0", nm("i0")) if opts[0] % 2 else {"k": "bin", "op": "+", "l": nm("i0"), "r": cst(1)}
        body = [assign("v0", {"k": "list", "es": []}),
                {"k": "for", "var": "i0", "it": call("range", call("min", nm("a0"), cst(4))), "src": "range",
                 "body": [{"k": "expr", "v": meth(nm("v0"), "append", item)}], "else": None},
                if_({"k": "un", "op": "not", "e": nm("v0")},
                    [{"k": "expr", "v": meth(nm("v0"), "append", cst(0))},
                     if_(nm("a1"), [{"k": "expr", "v": meth(nm("v0"), "append", cst(1))}])],
                    [assign("a1", call("len", nm("v0")))] if opts[2] % 2 else None),
                {"k": "ret", "v": call("len", nm("v0"))}]
    elif shape == 1:
        body = [assign("v0", cst(0)),
                {"k": "try", "body": [assign("v0", {"k": "bin", "op": "//", "l": nm("a0"), "r": nm("a1")})],
                 "handlers": [{"exc": ["ZeroDivisionError"], "as": None, "body": [assign("v0", cst(1))]}]
                 + ([{"exc": ["TypeError"], "as": "e0", "body": [assign("v0", cst(2))]}] if opts[2] % 2 else []),
                 "else": [assign("v0", {"k": "bin", "op": "+", "l": nm("v0"), "r": cst(1)}),
                          if_(cmp(">", nm("v0"), cst(3)), [assign("v0", cst(3))])],
                 "final": [assign("a0", {"k": "bin", "op": "*", "l": nm("v0"), "r": cst(2)}),
                           if_(nm("a1"), [assign("a0", {"k": "bin", "op": "-", "l": nm("a0"), "r": cst(1)})])]},
                {"k": "ret", "v": nm("v0")}]
    else:
        body = [{"k": "try", "body": [assign("a0", call("int", nm("a1")))],
                 "handlers": [{"exc": ["ValueError"], "as": None, "body": [{"k": "ret", "v": cst(-1)}]}], "else": None, "final": None},
                if_(cmp(">", nm("a0"), cst(4)), [leave]),
                if_(cmp(">", nm("a1"), cst(3)), [{"k": "ret", "v": cst(1)}]),
                if_(nm("a0"), [assign("a0", cst(2)), if_(cmp("<", nm("a1"), cst(0)), [assign("a0", cst(3))])]),
                {"k": "ret", "v": nm("a0")}]
    return {"name": DIRECTED_NAME, "kind": "func", "params": params, "ret": "int", "gw": [], "body": body}


def add_directed(draw: Any, model: dict[str, Any], shapes: tuple[int, ...] = (0, 1, 2)) -> tuple[dict[str, Any], list[dict[str, Any]]]:
    """Append a directed function to ``model``; returns (new model, markers that belong to the shape)."""
    shape = draw(st.sampled_from(shapes))
    opts = [draw(st.integers(0, 5)) for _ in range(4)]
    model = dict(model, funcs=[*model.get("funcs", []), _directed_function(shape, opts)])
    lay = build(model, None)
    head = lay.names()[DIRECTED_NAME]
    inside = range(head + 1, lay.block_end(head) + 1)
    top = [i for i in inside if lay.ind[i] == 1]
    if shape == 0:  # a cond/clause marker inside the function whose def line also starts a lambda
        spots = [i for i in top if lay.kind[i] in ("for", "if", "else")]
    elif shape == 1:  # the else clause of try/except/else/finally: its header or a statement of its body
        els = next(i for i in top if lay.kind[i] == "else")
        spots = [els, els + 1]
    else:  # the ``if`` with the early exit that directly follows the try statement
        spots = [next(i for i in top if lay.kind[i] == "if")]
    line = spots[opts[3] % len(spots)]
    fam = "pragma" if draw(st.integers(0, 2)) else "pynguin"
    return model, [{"line": line - lay.py_offset, "fam": fam, "v": draw(st.integers(0, 2))}]


def directed_plan(draw: Any, model: dict[str, Any], forced: list[dict[str, Any]], **kwargs: Any) -> dict[str, Any]:
    """A plan of ``plan_strategy`` in which the forced markers are active and the directed function stays in cover."""
    plan = draw(plan_strategy(model, **kwargs))
    lines = {mk["line"] for mk in forced}
    plan["marks"] = [mk for mk in plan["marks"] if mk["line"] not in lines] + forced
    for mk in forced:
        plan["flags"][0 if mk["fam"] == "pragma" else 1] = True
    plan["no"] = [n for n in plan["no"] if n != DIRECTED_NAME]
    plan["ignore"] = [n for n in plan["ignore"] if not n.endswith("." + DIRECTED_NAME)]
    if plan["only"] and DIRECTED_NAME not in plan["only"]:
        plan["only"] = [*plan["only"][:1], DIRECTED_NAME]
    return plan


def strategy(ctx) -> st.SearchStrategy:
    p = ctx.params
    modules = pygen.module_strategy(FEATURES, max_funcs=p.get("max_funcs", 2), max_stmts=p.get("max_stmts", 12))

    @st.composite
    def cases(draw: Any) -> dict[str, Any]:
        model = draw(modules)
        if draw(st.integers(0, 7)) >= 6:  # ~25%: directed shapes (lambda on a def line, try/except/else/finally, if after try)
            model, forced = add_directed(draw, model, shapes=(0, 0, 1, 1, 2))
            return {"module": model, "plan": directed_plan(draw, model, forced)}
        return {"module": model, "plan": draw(plan_strategy(model))}

    return cases()


# ------------------------------------------------------------------------------------------ child side
_SKIP_OPS = {"RESUME", "END_FOR", "RETURN_GENERATOR", "MAKE_CELL", "COPY_FREE_VARS"}


def code_key(code: Any) -> str:
    return f"{code.co_name}@{code.co_firstlineno}"


_UNCONDITIONAL = {"JUMP_FORWARD", "JUMP_BACKWARD", "JUMP_BACKWARD_NO_INTERRUPT", "JUMP"}
_TERMINAL = {"RETURN_VALUE", "RETURN_CONST", "RAISE_VARARGS", "RERAISE"}


def reachable_offsets(code: Any) -> set[int]:
    """Offsets of the instructions of one code object that control flow can reach (own fix-point; no pynguin code).

    Successors: fall-through (not after an unconditional jump / return / raise), jump targets, and the handler of every
    exception-table entry whose protected range contains a reachable instruction.  The compiler leaves unreachable
    handlers behind (``try: assert True`` has an ``except`` block that no exception-table entry leads to).
    """
    import dis

    bc = dis.Bytecode(code)
    instrs = list(bc)
    index = {ins.offset: k for k, ins in enumerate(instrs)}
    entries = list(bc.exception_entries)
    seen: set[int] = set()
    work = [0] if instrs else []
    handlers_done: set[int] = set()
    while work:
        k = work.pop()
        if k in seen or k >= len(instrs):
            continue
        seen.add(k)
        ins = instrs[k]
        if ins.opcode in dis.hasjrel or ins.opcode in dis.hasjabs:
            work.append(index[ins.argval])
        if ins.opname not in _UNCONDITIONAL and ins.opname not in _TERMINAL:
            work.append(k + 1)
        for n, entry in enumerate(entries):
            if n not in handlers_done and entry.start <= ins.offset < entry.end:
                handlers_done.add(n)
                work.append(index[entry.target])
    return {instrs[k].offset for k in seen}


def executable_lines(code: Any) -> dict[str, set[int]]:
    """{code object key: lines carrying a reachable, located instruction other than RESUME/END_FOR/prologue}."""
    import dis

    out: dict[str, set[int]] = {}
    for c in pygen.all_code_objects(code):
        lines = out.setdefault(code_key(c), set())
        live = reachable_offsets(c)
        for ins in dis.get_instructions(c):
            ln = ins.positions.lineno if ins.positions is not None else None
            if isinstance(ln, int) and ins.opname not in _SKIP_OPS and ins.offset in live:
                lines.add(ln)
    return out


def instrument(path: str, name: str, workdir: str, ex: dict[str, Any], metrics: list[str]) -> tuple[Any, BaseException | None]:
    """Import ``name`` from ``workdir`` through pynguin's import hook; returns (SubjectProperties, exception or None)."""
    import importlib
    import sys

    import pynguin.configuration as config
    from pynguin.instrumentation.machinery import install_import_hook
    from pynguin.instrumentation.tracer import SubjectProperties

    config.configuration.ignore_methods = list(ex["ignored"])
    to_cover = config.ToCoverConfiguration(only_cover=list(ex["only"]), no_cover=list(ex["no"]),
                                           enable_inline_pynguin_no_cover=ex["flags"][1],
                                           enable_inline_pragma_no_cover=ex["flags"][0])
    sp = SubjectProperties()
    sys.path.insert(0, workdir)
    hook = install_import_hook(name, sp, coverage_metrics={config.CoverageMetric[m] for m in metrics}, to_cover_config=to_cover)
    error: BaseException | None = None
    try:
        with sp.instrumentation_tracer:
            importlib.import_module(name)
    except Exception as exc:  # noqa: BLE001
        error = exc
    finally:
        hook.uninstall()
        sys.modules.pop(name, None)
        if workdir in sys.path:
            sys.path.remove(workdir)
        config.configuration.ignore_methods = []
    return sp, error


def _numbered(lay: Layout, focus: int, before: int = 30, after: int = 8) -> str:
    lines = lay.source().splitlines()
    lo, hi = max(1, focus - before), min(len(lines), focus + after)
    return "\n".join(f"{'>>' if i == focus else '  '}{i:4d} {lines[i - 1]}" for i in range(lo, hi + 1))


def _co_kind(name: str) -> str:
    if name == "<module>":
        return "module"
    if name.startswith("<"):
        return name.strip("<>")
    return "definition"


def _child(case: dict[str, Any], workdir: str) -> dict[str, Any]:  # noqa: C901, PLR0912, PLR0915
    import warnings

    warnings.simplefilter("ignore")  # SyntaxWarnings of deliberately ill-typed generated expressions
    res: dict[str, Any] = {"failures": [], "labels": [], "nontrivial": False, "inconclusive": None, "stats": {}, "excluded": 0}
    seen: set[str] = set()

    def fail(sig: str, detail: str) -> None:
        if sig not in seen:
            seen.add(sig)
            res["failures"].append([sig, detail])

    plan = case.get("plan") or {}
    lay = build(case["module"], plan)
    name = "vfsut_c08_" + h12(case)
    ex = exclusion_plan(lay, plan, name)
    excl, unconstrained, selected = ex["E"], ex["U"], ex["selected"]
    src = lay.source()
    path = os.path.join(workdir, name + ".py")
    with open(path, "w") as fh:
        fh.write(src)
    code = compile(src, path, "exec")
    truth = executable_lines(code)
    cfg_txt = (f"only_cover={ex['only']} no_cover={ex['no']} ignore_methods={ex['ignored']} "
               f"inline_pragma={ex['flags'][0]} inline_pynguin={ex['flags'][1]}")

    sp, error = instrument(path, name, workdir, ex, ["BRANCH", "LINE"])
    if error is not None and isinstance(error, ValueError) and ex["may_raise"] and has_pynguin_frame(error):
        res["labels"].append("overlap:valueerror" if ex["must_raise"] else "overlap:marker-on-only-scope:valueerror")
        return res
    if error is not None and not has_pynguin_frame(error):
        res["inconclusive"] = "sut-import-raised:" + type(error).__name__
        return res
    if error is not None:
        # Does instrumenting this module fail even without any exclusion configured?  Then the failure is not C08's
        # (known: bytecode's "negative stacksize", C01/C03; CFG construction errors, C06) -- it would only hide what is
        # checked here, so the case falls back to the LINE adapter alone or is counted as excluded.
        neutral = {"ignored": [], "only": [], "no": [], "flags": [False, False]}
        _, base_error = instrument(path, name, workdir, neutral, ["BRANCH", "LINE"])
        if base_error is None or exc_sig(base_error) != exc_sig(error):
            fail("raises|" + exc_sig(error), f"{cfg_txt} (no exception without the exclusion configuration)\n"
                                            f"{exc_detail(error)}\n{src[:1200]}")
            return res
        sp, line_error = instrument(path, name, workdir, ex, ["LINE"])
        if line_error is not None:
            res["excluded"] = 1
            res["labels"].append("excluded:instrumentation-fails-without-exclusions:" + exc_sig(error))
            return res
        res["labels"].append("fallback:line-adapter-only:" + exc_sig(error))
    if ex["must_raise"]:
        fail("overlap|no-valueerror", f"{cfg_txt}: a name is listed for only_cover and for no_cover/ignore_methods, but "
                                      f"instrumenting raised nothing\n{src[:1200]}")
        return res

    # ---- what is registered
    def def_line_of(co_name: str, first: int) -> int:
        """Definition line of a code object: the def/class line below its decorators; the line itself for lambdas etc."""
        ln = first
        if not co_name.startswith("<"):
            while ln <= lay.n and lay.kind[ln] == "decorator":
                ln += 1
        return ln

    def scope_chain_of(co_name: str, first: int) -> list[int]:
        return [] if co_name == "<module>" else lay.chain(def_line_of(co_name, first))

    def decorated(chain: list[int]) -> str:
        return "decorated-scope" if any(lay.decorators_of(h) for h in chain) else "plain-scope"

    reg_codes: dict[int, tuple[str, int]] = {}
    for cid, meta in sp.existing_code_objects.items():
        co = meta.code_object
        reg_codes[cid] = (co.co_name, co.co_firstlineno)
    reg_lines: dict[str, set[int]] = {}
    for meta in sp.existing_lines.values():
        cname, first = reg_codes.get(meta.code_object_id, ("?", -1))
        ln = meta.line_number
        if not isinstance(ln, int) or isinstance(ln, bool):
            fail("line-goal-without-line-number", f"line goal {meta!r} of code object {cname}")
            continue
        if meta.file_name != path:
            fail("line-goal-foreign-file", f"{meta.file_name!r} != {path!r}")
            continue
        reg_lines.setdefault(f"{cname}@{first}", set()).add(ln)

    all_goal_lines = {ln for lines in reg_lines.values() for ln in lines}

    # ---- (1) nothing registered inside E
    for key, lines in sorted(reg_lines.items()):
        cname, first = key.rsplit("@", 1)
        chain = scope_chain_of(cname, int(first))
        for ln in sorted(lines):
            if ln in excl:
                fail(f"excluded-line-is-line-goal|{excl[ln]}|{lay.kind[ln]}|{decorated(chain)}",
                     f"{cfg_txt}: line {ln} is excluded ({excl[ln]}) but is a line goal of code object {key}\n{_numbered(lay, ln)}")
    for pid, meta in sorted(sp.existing_predicates.items()):
        ln = meta.line_no
        if isinstance(ln, int) and ln in excl:
            cname, first = reg_codes.get(meta.code_object_id, ("?", -1))
            fail(f"excluded-line-has-predicate|{excl[ln]}|{lay.kind[ln]}|{decorated(scope_chain_of(cname, first))}",
                 f"{cfg_txt}: predicate {pid} is registered on line {ln}, which is excluded ({excl[ln]}); code object "
                 f"{cname}@{first}\n{_numbered(lay, ln)}")
    for cid, (cname, first) in sorted(reg_codes.items()):
        if cname == "<module>":
            continue
        dl = def_line_of(cname, first)
        if dl in excl:
            fail(f"excluded-scope-is-code-object|{excl[dl]}|{_co_kind(cname)}|{decorated(scope_chain_of(cname, first))}",
                 f"{cfg_txt}: code object {cname}@{first} is registered (a goal when branch-less: "
                 f"{cid in sp.branch_less_code_objects}) although its definition line {dl} is excluded ({excl[dl]})\n"
                 f"{_numbered(lay, dl)}")

    # ---- relation of a code object to the only_cover selection
    def relation(chain: list[int]) -> str:
        if not selected:
            return "inside"
        if any(h in selected for h in chain):
            return "inside"
        own = chain[-1] if chain else None
        for s in selected:
            if own is None or own in lay.chain(s):
                return "ancestor"
        return "unrelated"

    # ---- (2) only_cover: no code object outside the selection
    if selected:
        for cid, (cname, first) in sorted(reg_codes.items()):
            chain = scope_chain_of(cname, first)
            if relation(chain) == "unrelated" and def_line_of(cname, first) not in excl:
                fail(f"only-cover|code-object-outside-selection|{_co_kind(cname)}|{decorated(chain)}",
                     f"{cfg_txt}: code object {cname}@{first} is registered with line goals "
                     f"{sorted(reg_lines.get(f'{cname}@{first}', ()))[:8]} but lies neither inside nor around a selected scope\n"
                     f"{_numbered(lay, def_line_of(cname, first), 10, 8)}")

    # ---- (3) completeness
    registered_keys = {f"{n}@{f}" for n, f in reg_codes.values()}
    removed_exec = 0
    required = 0
    any_config = bool(excl or selected)
    for key, lines in sorted(truth.items()):
        cname, first_s = key.rsplit("@", 1)
        first = int(first_s)
        dl = def_line_of(cname, first)
        removed_exec += len([ln for ln in lines if ln in excl])
        if cname != "<module>" and dl in excl:
            continue
        chain = scope_chain_of(cname, first)
        rel = relation(chain)
        if rel != "inside":
            continue
        if selected:
            own = chain[-1] if chain else None
            nested_co = cname.startswith("<") or own not in selected
            why = "only-cover:nested-in-selected-scope" if nested_co else "only-cover:selected-scope"
        else:
            why = "outside-exclusions" if any_config else "no-exclusions-configured"
        want = sorted(ln for ln in lines if ln not in excl and ln not in unconstrained)
        if not want:
            continue
        required += len(want)
        if key not in registered_keys:
            fail(f"missing-code-object|{why}|{_co_kind(cname)}|{decorated(chain)}",
                 f"{cfg_txt}: code object {key} has executable lines {want[:8]} outside every exclusion but was not "
                 f"instrumented at all\n{_numbered(lay, dl, 12, 8)}")
            continue
        for ln in want:  # line goals are unique per (file, line): the goal may be attributed to another code object
            if ln not in all_goal_lines:
                fail(f"missing-line-goal|{why}|{lay.kind[ln]}|{_co_kind(cname)}|{decorated(chain)}",
                     f"{cfg_txt}: line {ln} of code object {key} is executable and not excluded, but is no line goal "
                     f"(goals attributed to that code object: {sorted(reg_lines.get(key, ()))[:20]})\n{_numbered(lay, ln)}")

    # ---- statistics / non-triviality
    n_goals = sum(len(v) for v in reg_lines.values())
    nested_mark = any(lay.mark[i] is not None and lay.mark[i][0] != "decoy" and i in excl and lay.ind[i] >= 2
                      for i in range(1, lay.n + 1))
    by_name = any(r.startswith("name:") for r in excl.values()) or bool(selected)
    by_block = any(r.startswith("block:") for r in excl.values())
    res["nontrivial"] = bool((nested_mark or by_name or by_block) and (removed_exec > 0 or selected) and n_goals > 0)
    labels = res["labels"]
    for r in sorted({r for r in excl.values()}):
        labels.append("E:" + r)
    for i in range(1, lay.n + 1):
        if lay.mark[i] is not None:
            state = "decoy" if lay.mark[i][0] == "decoy" else ("active" if i in excl else "disabled-by-flag")
            labels.append(f"marker:{state}:{mark_class(lay, i)}")
    if selected:
        labels.append("only_cover")
        for k in truth:
            kn, kf = k.rsplit("@", 1)
            kc = scope_chain_of(kn, int(kf))
            if any(h in selected for h in kc) and (kn.startswith("<") or kc[-1] not in selected):
                labels.append("only_cover:with-nested-code-object")
                break
    if ex["ignored"]:
        labels.append("ignore_methods")
    if any(lay.decorators_of(h) and (h in excl or h in selected) for h in lay.scope_headers()):
        labels.append("decorated-scope-affected")
    if nested_mark:
        labels.append("class:nested-marker")
    if removed_exec:
        labels.append("class:removes-executable-lines")
    if not any_config:
        labels.append("class:no-exclusions")
    res["stats"] = {"goals": n_goals, "required": required, "removed": removed_exec}
    return res


# ------------------------------------------------------------------------------------------ parent side
def _preload() -> None:
    import bytecode  # noqa: F401
    import pynguin.configuration  # noqa: F401
    import pynguin.instrumentation.machinery  # noqa: F401
    import pynguin.instrumentation.tracer  # noqa: F401


def scratch_dir(prefix: str) -> str:
    base = os.environ.get("VF_SCRATCH_DIR") or os.environ.get("VERIF_SCRATCH") or tempfile.gettempdir()
    os.makedirs(base, exist_ok=True)
    return tempfile.mkdtemp(prefix=prefix, dir=base)


def evaluate(case: dict[str, Any]) -> Outcome:
    out = Outcome()
    _preload()
    workdir = scratch_dir("c08_")
    try:
        kind, val = forked(lambda: _child(case, workdir), CHILD_TIMEOUT)
    finally:
        shutil.rmtree(workdir, ignore_errors=True)
    out.labels.extend("has:" + f for f in pygen.features_of(case["module"]) if f in _FEATURE_LABELS)
    if kind == "signal":
        out.fail("interpreter-crash|signal", f"child killed by signal {val}")
        return out
    if kind == "timeout":
        out.inconclusive = "child-timeout"
        return out
    if kind == "exit":
        out.inconclusive = f"child-exit-{val}"
        return out
    if kind == "exc":
        if val.get("pynguin_frame"):
            out.fail("unexpected-exception|" + val["sig"], val["detail"])
            return out
        raise RuntimeError("harness error in child: " + val["detail"])
    for sig, detail in val["failures"]:
        out.fail(sig, detail)
    out.labels.extend(val["labels"])
    out.excluded = val.get("excluded", 0)
    out.nontrivial = bool(val["nontrivial"])
    if val["inconclusive"]:
        out.inconclusive = val["inconclusive"]
    out.sample = {"source": build(case["module"], case.get("plan")).source(), "plan": {k: v for k, v in (case.get("plan") or {}).items()
                                                                                    if k != "marks"}, "stats": val["stats"]}
    return out


_FEATURE_LABELS = {"if", "elif", "else", "while", "while-else", "for-else", "try-except", "try-else", "try-finally", "match",
                   "with", "closure", "lambda", "genexp", "listcomp", "genfunc", "class", "property", "toplevel-code"}
