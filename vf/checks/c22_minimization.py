"""C22 — minimization never reduces coverage.

Each case (forked child): real session on a corpus module (weighted towards stateful classes) -> suite from a short
search or from the real factory -> SIMPLE assertions -> coverage of every optimised suite coverage function computed
from scratch (fresh clones, empty caches) -> `generator._minimize` exactly as `generator._run` calls it -> coverage from
scratch again; plus structural containment of the minimized tests in the original ones.
"""

from __future__ import annotations

import ast
from functools import lru_cache
from typing import Any

from hypothesis import strategies as st

from vf.core import Outcome

PROPERTY = "C22"
META = {
    "title": "Minimization never reduces coverage",
    "technique": "program/configuration generation: Hypothesis-drawn (module, seed, suite source, strategy, direction, metrics) through the real "
                 "minimisation pipeline; from-scratch coverage recomputation + subsequence/asserted-statement oracle",
    "design_ref": "DESIGN.md §3 C22",
    "rule": "case = corpus module (stateful classes weighted) x suite from a 2..6-iteration search or 2..6 factory tests x strategy in "
            "{CASE, SUITE, COMBINED} x direction x metrics in {BRANCH, LINE, BRANCH+LINE} x assertions on/off. Non-trivial = minimisation "
            "removed >= 1 statement and kept >= 1; distinct by the whole case",
    "assumptions": ["coverage values are those of pynguin's suite coverage functions evaluated on fresh clones (C10/C11 check these functions)",
                    "the origin of a minimized test is decided existentially (any original test it embeds into)",
                    "coverage obtained by merely importing the module is credited to both suites (also to an empty one)"],
    "level_text": "Generated suites and minimisation configurations; coverage recomputed from scratch before and after. Exploration, not proof.",
    "level_note": "Trusted: vf.session wiring equals generator._run; executor determinism on the corpus modules.",
}
PLAN = {
    "quick": {"shards": 16, "examples": 64, "timeout": 1500},
    "thorough": {"shards": 16, "examples": 2400, "timeout": 7200},
}

MODS = ["vfc_account", "vfc_queue", "vfc_account", "vfc_queue", "vfc_records", "vfc_numeric", "vfc_strings", "vfc_containers",
        "vfc_raising", "vfc_defaults", "vfc_enums", "vfc_floats", "vfx_handlers", "vfx_handlers", "vfx_handlers"]


def strategy(ctx):
    return st.fixed_dictionaries({
        "module": st.sampled_from(MODS),
        "seed": st.integers(0, 10**6),
        "source": st.sampled_from(["search", "search", "factory"]),
        "algo": st.sampled_from(["MOSA", "WHOLE_SUITE", "MIO", "RANDOM"]),
        "tests": st.lists(st.tuples(st.integers(0, 10**6), st.integers(3, 12)).map(list), min_size=2, max_size=6),
        "iterations": st.integers(2, 6),
        "rebind": st.one_of(st.just([]), st.lists(st.integers(0, 11), min_size=4, max_size=8)),
        "metrics": st.sampled_from([["BRANCH"], ["LINE"], ["BRANCH", "LINE"]]),
        "assertions": st.booleans(),
        # keep assertions on call results only (what mutation-analysis filtering, seeded or hand-written tests look like)
        "call_assertions_only": st.booleans(),
        "strategy": st.sampled_from(["CASE", "SUITE", "COMBINED"]),
        "direction": st.sampled_from(["FORWARD", "BACKWARD"]),
    })


def _split(code: str) -> tuple[str | None, str]:
    try:
        tree = ast.parse(code.strip())
    except SyntaxError:
        return None, code.strip()
    if len(tree.body) == 1 and isinstance(tree.body[0], ast.Assign) and len(tree.body[0].targets) == 1 \
            and isinstance(tree.body[0].targets[0], ast.Name):
        return tree.body[0].targets[0].id, ast.unparse(tree.body[0].value)
    return None, ast.unparse(tree)


def _child(case: dict[str, Any]) -> dict[str, Any]:
    import libcst as cst

    import pynguin.generator as gen
    from pynguin.assertion.assertion import ExceptionAssertion

    from vf.corpus import CORPUS_DIR
    from vf.session import Session

    overrides = {
        "test_case_output.post_process": True,
        "test_case_output.minimization.test_case_minimization_strategy": case["strategy"],
        "test_case_output.minimization.test_case_minimization_direction": case["direction"],
        "test_case_output.format_with_black": False,
        # the corpus has no long-running code: a test-execution timeout could only come from machine load
        "stopping.maximum_test_execution_timeout": 120,
        "stopping.test_execution_time_per_statement": 30,
    }
    with Session(CORPUS_DIR, case["module"], seed=case["seed"], algorithm=case["algo"], coverage_metrics=tuple(case["metrics"]),
                 assertion_generation="SIMPLE" if case["assertions"] else "NONE", maximum_iterations=case["iterations"],
                 overrides=overrides) as s:
        if case["source"] == "search":
            suite = s.algorithm.generate_tests()
        else:
            chroms = [s.chromosome(s.random_test_case(seed, size)) for seed, size in case["tests"]]
            suite = s.suite(chroms)
            for f in s.algorithm.test_suite_coverage_functions:
                suite.add_coverage_function(f)
        if case.get("rebind"):
            # tests that re-bind variable names (hand-written / seeded / LLM tests do; the factory never does)
            from vf.rebind import rebind

            rebound = [s.chromosome(rebind(ch.test_case, case["rebind"])[0]) for ch in suite.test_case_chromosomes]
            cov_functions = list(suite.get_coverage_functions()) if hasattr(suite, "get_coverage_functions") else []
            suite = s.suite(rebound, coverage_functions=cov_functions or list(s.algorithm.test_suite_coverage_functions))
        s.executor.clear_observers()
        s.executor.clear_remote_observers()
        gen._generate_assertions(s.executor, suite, s.cluster)
        if case.get("call_assertions_only"):
            for ch in suite.test_case_chromosomes:
                for stmt in ch.test_case.statements():
                    if stmt.accessible is None:
                        stmt.assertions.clear()
        cov_fns = list(s.algorithm.test_suite_coverage_functions)

        timeouts = [0]

        def scratch_coverage() -> list[float]:
            # An empty test case is always appended: pynguin credits what importing the module covers only to suites with at
            # least one test case, while the exported file of an empty suite still imports the module (test_empty); without
            # it a suite minimized to nothing would "lose" exactly the import coverage.
            members = [s.chromosome(ch.test_case.clone()) for ch in suite.test_case_chromosomes] + [s.chromosome(s.new_test_case())]
            fresh = s.suite(members, coverage_functions=cov_fns)
            values = [fresh.get_coverage_for(f) for f in cov_fns]
            for ch in fresh.test_case_chromosomes:
                if ch.test_case.size() == 0:
                    continue  # a test case without statements has a time budget of 0 s: its "timeout" carries no information
                r = ch.get_last_execution_result()
                if r is not None and r.timeout:
                    timeouts[0] += 1
            return values

        def dump() -> list[list[list[Any]]]:
            tests = []
            for ch in suite.test_case_chromosomes:
                entries = []
                # a statement is "asserted on" if an assertion (attached to it or to a later statement) refers to the
                # variable it binds, i.e. it is the most recent binding of the root of the assertion's source
                stmts = ch.test_case.statements()
                asserted: set[int] = set()
                for k, st_ in enumerate(stmts):
                    for a in st_.assertions:
                        if isinstance(a, ExceptionAssertion) or not isinstance(getattr(a, "source", None), str):
                            continue
                        root = a.source.split(".")[0]
                        for j in range(k, -1, -1):
                            if stmts[j].bound_variable == root:
                                asserted.add(j)
                                break
                for j, stmt in enumerate(stmts):
                    code = cst.Module(body=[stmt.node]).code.strip()
                    entries.append([code, 1 if j in asserted else 0])
                tests.append(entries)
            return tests

        before_cov = scratch_coverage()
        before = dump()
        minimize_error = None
        try:  # generator._run wraps _minimize in exactly this try/except
            gen._minimize(suite, s.algorithm)
        except Exception as ex:  # noqa: BLE001
            minimize_error = f"{type(ex).__name__}: {ex}"
        after_cov = scratch_coverage()
        after = dump()
        return {"before_cov": before_cov, "after_cov": after_cov, "before": before, "after": after,
                "functions": [type(f).__name__ for f in cov_fns], "timeouts": timeouts[0], "minimize_error": minimize_error}


def _embeds(pre: list[tuple[str | None, str, int]], post: list[tuple[str | None, str, int]], keep_asserted: bool) -> bool:
    def ok(p, q) -> bool:
        return p[1] == q[1] and (q[0] is None or q[0] == p[0])

    @lru_cache(maxsize=None)
    def go(i: int, j: int) -> bool:
        if i == len(pre):
            return j == len(post)
        if j < len(post) and ok(pre[i], post[j]) and go(i + 1, j + 1):
            return True
        if keep_asserted and pre[i][2] > 0:
            return False  # an asserted statement may not be skipped
        return go(i + 1, j)

    return go(0, 0)


def _analyse(case: dict[str, Any], res: dict[str, Any], out: Outcome) -> None:
    import math

    if res["timeouts"]:
        out.inconclusive = "test-execution timeout while recomputing coverage (time-dependent)"
        return
    if res["minimize_error"]:
        out.labels.append("minimize-raised:" + res["minimize_error"].split(":")[0])
    for name, b, a in zip(res["functions"], res["before_cov"], res["after_cov"]):
        if not math.isclose(a, b, rel_tol=1e-9, abs_tol=1e-12):
            kind = "lower" if a < b else "higher"
            out.fail(f"coverage-changed-by-minimization|{kind}|{name}|{case['strategy']}",
                     f"case={case}\n{name}: before {b!r} after {a!r}")
    pre_tests = [[(*_split(c), n) for c, n in t] for t in res["before"]]
    post_tests = [[(*_split(c), n) for c, n in t] for t in res["after"]]
    # exception truncation may cut the tail of a test after its first raising statement; asserted statements cannot be in that tail
    for post in post_tests:
        structural = any(_embeds(pre, post, False) for pre in pre_tests)
        if not structural:
            out.fail(f"minimized-test-has-foreign-statement|{case['strategy']}",
                     f"case={case}\nminimized test: {[p[:2] for p in post]}")
            continue
        if not any(_embeds(pre, post, True) for pre in pre_tests):
            out.fail(f"asserted-statement-removed|{case['strategy']}|{case['direction']}",
                     f"case={case}\nminimized test: {post}\noriginal tests: {pre_tests}")
    n_pre = sum(len(t) for t in pre_tests)
    n_post = sum(len(t) for t in post_tests)
    out.nontrivial = 0 < n_post < n_pre
    if case.get("rebind"):
        out.labels.append("class:rebinds-variable-names")
    out.labels += [f"strategy:{case['strategy']}", f"metrics:{'+'.join(case['metrics'])}",
                   "removed:statements" if n_post < n_pre else "removed:none",
                   "removed:tests" if len(post_tests) < len(pre_tests) else "tests:kept"]
    out.sample = {"case": case, "coverage": dict(zip(res["functions"], res["before_cov"])), "statements_before": n_pre,
                  "statements_after": n_post, "tests_before": len(pre_tests), "tests_after": len(post_tests)}


def evaluate(case: dict[str, Any]) -> Outcome:
    from vf.iso import forked

    out = Outcome()
    kind, val = forked(lambda: _child(case), timeout=600)
    if kind == "ok":
        _analyse(case, val, out)
    elif kind == "timeout":
        out.inconclusive = "pipeline exceeded 600 s"
    elif kind == "exc":
        if val.get("pynguin_frame"):
            out.fail(f"unexpected-exception|{val['sig']}", val["detail"])
        else:
            raise RuntimeError("harness error in child: " + val["detail"])
    else:
        out.fail(f"child-died|{kind}", f"{kind} {val}")
    return out
