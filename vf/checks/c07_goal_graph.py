"""C07 -- every branch goal is reachable in the DynaMOSA goal graph (DESIGN.md section 3 C07).

A case is a ``vf.gen.pygen`` module model (features weighted towards nested/sequential branches, loops, exception
handlers and early returns), optionally an exclusion plan of C08 (markers / no_cover / only_cover / ignore_methods /
main + TYPE_CHECKING blocks -- ``vf.checks.c08_coverage_exclusions``), and a drawn *schedule*.  In a forked child the
module is written to a scratch directory and imported through pynguin's real import hook with the BRANCH adapter, so the
CFGs, the (pruned) CDGs of ``InstrumentationTransformer._create_covered_cdg`` and the predicate registry are the real
ones.  ``BranchCoverageTestFitness`` objects are created by ``create_branch_coverage_fitness_functions`` over a stub
executor that only exposes ``subject_properties``.

Oracle
  (a) ``_BranchFitnessGraph(...)`` and ``_GoalsManager(...)`` (over a real, empty ``CoverageArchive`` exactly as
      ``generationalgorithmfactory`` builds it for DynaMOSA) construct without an exception.
  (b) Independently of the goal graph: every ``ControlDependency`` returned by ``cdg.get_control_dependencies(node)`` for
      a registered predicate names a node that is itself a registered predicate of the same code object.
  (c) Roots: the initial current goals are exactly the goals of branch-less code objects plus the goals whose predicate
      node is reachable from the CDG entry through unlabelled dependence edges -- recomputed here by an own backward
      search over the edge list of the CDG (no pynguin traversal code).
  (d) Simulation with the REAL ``_GoalsManager`` and the REAL ``CoverageArchive``: synthetic ``TestCaseChromosome``s (a
      subclass overriding ``get_is_covered``) cover, step by step, one to three of the *current* uncovered goals chosen by
      the schedule; ``update`` is called after every step until no uncovered current goal is left.  After every update:
      no current goal is covered; every goal all of whose structural parents (own recomputation from the CDG edge list)
      are covered is current or covered.  At the fix-point every goal must have been current (or covered) at some step.
  (e) Execution-shaped coverage: for a few walks through the real CFG of a code object (entry onwards, successor chosen
      by the schedule, at most 80 edges -- a prefix is what a test that raises would execute) a synthetic chromosome
      covers exactly the (predicate, outcome) goals of the labelled edges taken.  After ONE ``update`` of a fresh
      ``_GoalsManager``/``CoverageArchive`` with that chromosome, every goal it covers must be in the archive: a test
      cannot take a branch without taking a controlling branch of it first, so the update loop has to reach all of
      them from the roots (this is what "reachable in the goal graph" means for real executions, and it does not
      trust the pruned CDG).
"""

from __future__ import annotations

import os
import shutil
import traceback
from typing import Any

from hypothesis import strategies as st

from vf.checks import c08_coverage_exclusions as c08
from vf.core import Outcome, exc_detail, exc_sig, h12, has_pynguin_frame
from vf.gen import pygen
from vf.iso import forked

PROPERTY = "C07"
META = {
    "title": "Every branch goal is reachable in the DynaMOSA goal graph",
    "technique": "property-based testing: grammar-generated modules (with/without generated coverage exclusions) instrumented "
                 "through the real import hook; the real _GoalsManager/_BranchFitnessGraph/CoverageArchive driven by synthetic "
                 "chromosomes following a drawn coverage schedule; own reachability computation on the CDG edge lists as oracle",
    "design_ref": "DESIGN.md §3 C07",
    "rule": "case = pygen module model (if/elif/else, while, for, break/continue, try/except/else/finally, raise, early return, "
            "with, match, boolean operators, closures, generator functions, a class; ~25% with a directed function of C08, mostly a "
            "marked if with an early exit directly after a try statement followed by further ifs) x optional C08 exclusion plan (about half "
            "of the cases) x schedule of 48 integers choosing which current goals get covered next (1-3 per step); "
            "the same integers steer up to 8 walks through the real CFGs (execution-shaped coverage); "
            "non-trivial = at least one goal at dependency depth >= 2 and the simulation reached the fix-point; a case with "
            "exclusions additionally needs >= 1 CDG node removed by _create_covered_cdg; distinct by the whole case",
    "assumptions": [
        "a synthetic chromosome covers exactly the goals chosen so far (goals are only ever chosen among the current goals, "
        "as in a real search where a test reaching a branch also took one of its controlling branches)",
        "the CDG itself is C06's subject: the oracle reads its edge list and branch_value labels and recomputes "
        "root-dependence and structural parents from them with its own search",
        "the CFG and its branch_value edge labels are C03/C06's subject: the walks of oracle (e) follow the real CFG edges; "
        "any prefix of a CFG path counts as an execution (a test may raise anywhere)",
        "modules whose instrumentation fails for reasons that belong to other properties (negative stack size of the "
        "bytecode library, CFG construction errors: C01/C03/C06) are counted as excluded",
    ],
    "level_text": "Generated programs x exclusion configurations x coverage schedules against the real goal manager; "
                  "exploration, not proof.",
    "level_note": "Trusted: vf.gen.pygen, the C08 layout/exclusion generator, networkx edge iteration of the CDG graph.",
}
PLAN = {
    "quick": {"shards": 16, "examples": 256, "max_stmts": 14, "max_funcs": 2, "timeout": 2400, "shrink_sigs": 2, "shrink_seconds": 30},
    "thorough": {"shards": 16, "examples": 24000, "timeout": 3000, "max_stmts": 24, "max_funcs": 3},
}
FEATURES = {"if", "while", "for", "loopctl", "try", "raise", "with", "match", "closure", "genfunc", "class", "assert", "boolop",
            "chain", "isnone", "in", "ternary", "call", "toplevel", "global"}
CHILD_TIMEOUT = 120.0
SCHEDULE_LEN = 48


def strategy(ctx) -> st.SearchStrategy:
    p = ctx.params
    modules = pygen.module_strategy(FEATURES, max_funcs=p.get("max_funcs", 2), max_stmts=p.get("max_stmts", 14), max_depth=5)
    schedule = st.lists(st.integers(0, 999), min_size=SCHEDULE_LEN, max_size=SCHEDULE_LEN)

    @st.composite
    def cases(draw: Any) -> dict[str, Any]:
        model = draw(modules)
        plan = None
        if draw(st.integers(0, 7)) >= 6:  # ~25%: directed shapes of C08 (mostly: excluded early exit right after a try)
            model, forced = c08.add_directed(draw, model, shapes=(2, 2, 2, 0, 1))
            plan = c08.directed_plan(draw, model, forced, weights={"def": 1, "simple": 1, "cond": 6, "clause": 5})
            plan["only"] = []
        elif draw(st.integers(0, 9)) >= 4:
            plan = draw(c08.plan_strategy(model, always=True, weights={"def": 1, "simple": 1, "cond": 6, "clause": 5}))
            # the documented ValueError for overlapping names is C08's subject
            plan["only"] = [n for n in plan["only"] if n not in plan["no"] and "$M." + n not in plan["ignore"]]
            if draw(st.integers(0, 9)) < 6:  # only_cover mostly selects one small scope and leaves few goals
                plan["only"] = []
        return {"module": model, "plan": plan, "schedule": draw(schedule)}

    return cases()


# ------------------------------------------------------------------------------------------ child side
def _goal_name(goal: Any) -> str:
    if goal.is_branchless_code_object:
        return f"branchless:{goal.code_object_id}"
    return f"branch:{goal.predicate_id}:{goal.value}"


def _cdg_edges(cdg: Any) -> tuple[list[tuple[Any, Any, Any]], Any]:
    from pynguin.instrumentation import controlflow as cf

    edges = []
    for a, b, data in cdg.graph.edges(data=True):
        both = data.get("branch_values")  # set by the proposed C06 repair for dependences under both outcomes
        if both:
            edges.extend((a, b, v) for v in both)
        else:
            edges.append((a, b, data.get(cf.EDGE_DATA_BRANCH_VALUE)))
    return edges, cdg.entry_node


def _is_block(node: Any) -> bool:
    from pynguin.instrumentation import controlflow as cf

    return isinstance(node, cf.BasicBlockNode)


def _own_dependencies(edges: list[tuple[Any, Any, Any]], entry: Any, node: Any) -> tuple[set[tuple[Any, bool]], bool]:
    """(labelled controlling (node, outcome) pairs reached backwards through unlabelled edges, depends on entry?)."""
    preds: dict[Any, list[tuple[Any, Any]]] = {}
    for a, b, lab in edges:
        preds.setdefault(b, []).append((a, lab))
    deps: set[tuple[Any, bool]] = set()
    root = False
    seen = {node}
    todo = [node]
    while todo:
        n = todo.pop()
        for a, lab in preds.get(n, []):
            if lab is not None and _is_block(a):
                deps.add((a, lab))
                continue
            if a == entry:
                root = True
                continue
            if a not in seen:
                seen.add(a)
                todo.append(a)
    return deps, root


def _make_chromosome(covered_names: set[str]):
    import pynguin.ga.testcasechromosome as tcc
    from pynguin.testcase.testcase import TestCase

    class SyntheticChromosome(tcc.TestCaseChromosome):
        """A chromosome whose coverage verdicts are dictated by the schedule."""

        def __init__(self, names: set[str]) -> None:
            super().__init__(TestCase())
            self.names = frozenset(names)

        def get_is_covered(self, fitness_function: Any) -> bool:
            return _goal_name(fitness_function.goal) in self.names

        def get_fitness_for(self, fitness_function: Any) -> float:
            return 0.0 if self.get_is_covered(fitness_function) else 1.0

    return SyntheticChromosome(covered_names)


def _child(case: dict[str, Any], workdir: str) -> dict[str, Any]:  # noqa: C901, PLR0912, PLR0915
    import warnings

    warnings.simplefilter("ignore")
    from pynguin.ga import coveragegoals as bg
    from pynguin.ga.algorithms.archive import CoverageArchive
    from pynguin.ga.algorithms.dynamosaalgorithm import _BranchFitnessGraph, _GoalsManager
    from pynguin.utils.orderedset import OrderedSet

    res: dict[str, Any] = {"failures": [], "labels": [], "nontrivial": False, "inconclusive": None, "excluded": 0, "stats": {}}
    seen_sigs: set[str] = set()

    def fail(sig: str, detail: str) -> None:
        if sig not in seen_sigs:
            seen_sigs.add(sig)
            res["failures"].append([sig, detail])

    plan = case.get("plan")
    lay = c08.build(case["module"], plan)
    name = "vfsut_c07_" + h12(case)
    ex = c08.exclusion_plan(lay, plan, name)
    src = lay.source()
    path = os.path.join(workdir, name + ".py")
    with open(path, "w") as fh:
        fh.write(src)
    mode = "with-exclusions" if plan else "no-exclusions"
    cfg_txt = (f"only_cover={ex['only']} no_cover={ex['no']} ignore_methods={ex['ignored']} "
               f"inline_pragma={ex['flags'][0]} inline_pynguin={ex['flags'][1]}") if plan else "no exclusions"

    sp, error = c08.instrument(path, name, workdir, ex, ["BRANCH"])
    if error is not None:
        if not has_pynguin_frame(error):
            res["inconclusive"] = "sut-import-raised:" + type(error).__name__
        elif isinstance(error, ValueError) and ex["may_raise"]:
            res["labels"].append("excluded:overlap-valueerror")
            res["excluded"] = 1
        elif any(fr.name == "_create_covered_cdg" for fr in traceback.extract_tb(error.__traceback__)):
            # pruning the CDG for the exclusions is part of building the goal graph (anchor of this property)
            fail(f"create_covered_cdg-raises|{exc_sig(error)}|{mode}", f"{cfg_txt}\n{exc_detail(error)}\n{src[:900]}")
        else:  # other instrumentation failures are C01/C03/C06/C08 territory; they hide the goal graph
            res["labels"].append("excluded:instrumentation-failed:" + exc_sig(error))
            res["excluded"] = 1
        return res

    class StubExecutor:
        subject_properties = sp

    executor = StubExecutor()
    pool = bg.BranchGoalPool(sp)
    fitness_functions = bg.create_branch_coverage_fitness_functions(executor, pool)  # type: ignore[arg-type]
    by_name = {_goal_name(f.goal): f for f in fitness_functions}
    if len(by_name) != len(fitness_functions):
        fail("goal-pool|duplicate-goals", f"{len(fitness_functions)} fitness functions, {len(by_name)} distinct goals")

    # ---- per code object: edge list of the (pruned) CDG, own dependencies per predicate
    node_pred: dict[int, dict[Any, int]] = {}
    for pid, meta in sp.existing_predicates.items():
        node_pred.setdefault(meta.code_object_id, {})[meta.node] = pid
    edge_cache: dict[int, tuple[list, Any]] = {}
    removed_nodes = 0
    for cid, meta in sp.existing_code_objects.items():
        edge_cache[cid] = _cdg_edges(meta.cdg)
        cdg_nodes = set(meta.cdg.graph.nodes)
        removed_nodes += len([n for n in meta.cfg.graph.nodes if _is_block(n) and n not in cdg_nodes])
    parents: dict[str, set[str]] = {}
    own_roots: set[str] = set()
    unresolved = False
    for gname, f in by_name.items():
        goal = f.goal
        if goal.is_branchless_code_object:
            own_roots.add(gname)
            parents[gname] = set()
            continue
        meta = sp.existing_predicates[goal.predicate_id]
        cmeta = sp.existing_code_objects[meta.code_object_id]
        edges, entry = edge_cache[meta.code_object_id]
        where = (f"{cfg_txt}: predicate {goal.predicate_id} (line {meta.line_no}) of code object "
                 f"{cmeta.code_object.co_name}@{cmeta.code_object.co_firstlineno}")
        if meta.node not in cmeta.cdg.graph.nodes:
            fail(f"predicate-node-not-in-cdg|{mode}", f"{where}: its node was removed from the control-dependence graph\n"
                                                     f"{c08._numbered(lay, meta.line_no or 1, 25, 6)}")
            unresolved = True
            parents[gname] = set()
            continue
        # (b) the real accessor, checked against the predicate registry
        try:
            real_deps = cmeta.cdg.get_control_dependencies(meta.node)
        except Exception as exc:  # noqa: BLE001
            if not has_pynguin_frame(exc):
                raise
            fail(f"get_control_dependencies-raises|{exc_sig(exc)}|{mode}", f"{where}\n{exc_detail(exc)}")
            unresolved = True
            real_deps = []
        for dep in real_deps:
            if dep.node not in node_pred.get(meta.code_object_id, {}):
                last = dep.node.try_get_instruction(-1) if _is_block(dep.node) else None
                dep_line = getattr(last, "lineno", None)
                why = "excluded-line" if isinstance(dep_line, int) and dep_line in ex["E"] else "covered-line"
                opname = getattr(last, "name", "?")
                fail(f"dependency-on-unregistered-predicate|{why}|{opname}|{mode}",
                     f"{where} is control dependent on node {getattr(dep.node, 'index', dep.node)} (last instruction {opname} on "
                     f"line {dep_line}, outcome {dep.branch_value}) which is no registered predicate of that code object\n"
                     f"{c08._numbered(lay, dep_line if isinstance(dep_line, int) else (meta.line_no or 1), 25, 6)}")
                unresolved = True
        deps, root = _own_dependencies(edges, entry, meta.node)
        if root:
            own_roots.add(gname)
        mine: set[str] = set()
        for dnode, value in deps:
            dpid = node_pred.get(meta.code_object_id, {}).get(dnode)
            if dpid is not None:
                mine.add(f"branch:{dpid}:{bool(value)}")
        parents[gname] = mine

    # ---- (a) construction
    archive = CoverageArchive(OrderedSet())
    try:
        _BranchFitnessGraph(fitness_functions, sp)
        manager = _GoalsManager(fitness_functions, archive, sp)  # type: ignore[arg-type]
    except Exception as exc:  # noqa: BLE001
        if not has_pynguin_frame(exc):
            raise
        fail(f"goal-graph-construction|{exc_sig(exc)}|{mode}", f"{cfg_txt}\n{exc_detail(exc)}\n{src[:900]}")
        return res

    # ---- (c) roots
    initial = {_goal_name(f.goal) for f in manager.current_goals}
    if not unresolved:
        for gname in sorted(initial - own_roots):
            fail(f"roots|initial-goal-is-not-root-dependent|{mode}",
                 f"{cfg_txt}: {gname} is an initial goal but neither a branch-less code object nor reachable from the CDG "
                 f"entry through unlabelled dependences (own parents: {sorted(parents[gname])})")
        for gname in sorted(own_roots - initial):
            goal = by_name[gname].goal
            line = None if goal.is_branchless_code_object else sp.existing_predicates[goal.predicate_id].line_no
            fail(f"roots|root-dependent-goal-not-initial|{mode}",
                 f"{cfg_txt}: {gname} (line {line}) depends only on the entry of its code object but is no initial goal "
                 f"(own parents: {sorted(parents[gname])})\n{c08._numbered(lay, line or 1, 25, 6)}")

    # ---- (d) simulation
    covered: set[str] = set()
    ever_current: set[str] = set(initial)
    schedule = case["schedule"]
    step = 0
    limit = 2 * len(by_name) + 5
    broken = False
    while step < limit:
        current = [_goal_name(f.goal) for f in manager.current_goals]
        open_goals = sorted(g for g in current if g not in covered)
        if not open_goals:
            break
        pick = schedule[step % len(schedule)]
        count = 1 + (pick // 7) % 3
        for k in range(count):
            if open_goals:
                covered.add(open_goals.pop((pick + k * 31) % len(open_goals)))
        step += 1
        try:
            manager.update([_make_chromosome(covered)])
        except Exception as exc:  # noqa: BLE001
            if not has_pynguin_frame(exc):
                raise
            fail(f"update-raises|{exc_sig(exc)}|{mode}", f"{cfg_txt}\n{exc_detail(exc)}")
            broken = True
            break
        now = {_goal_name(f.goal) for f in manager.current_goals}
        ever_current |= now
        archived = {_goal_name(f.goal) for f in archive.covered_goals}
        if archived != covered:
            fail(f"archive|covered-set-differs|{mode}", f"{cfg_txt}: archive covered {sorted(archived ^ covered)[:6]} differ")
        stale = sorted(now & covered)
        if stale:
            fail(f"update|covered-goal-stays-current|{mode}", f"{cfg_txt}: after update step {step}: {stale[:5]}")
        if not unresolved:
            for gname, ps in parents.items():
                if gname in covered or gname in now:
                    continue
                if (gname in own_roots and gname in initial) or (ps and ps <= covered):  # non-initial roots: see (c)
                    goal = by_name[gname].goal
                    line = None if goal.is_branchless_code_object else sp.existing_predicates[goal.predicate_id].line_no
                    fail(f"update|goal-not-current-although-all-parents-covered|{mode}",
                         f"{cfg_txt}: after update step {step}: {gname} (line {line}) has all its structural parents "
                         f"{sorted(ps)} covered but is neither current nor covered\n{c08._numbered(lay, line or 1, 25, 6)}")
                    break
    else:
        fail(f"simulation|no-fix-point|{mode}", f"{cfg_txt}: more than {limit} steps")
        broken = True
    if not broken:
        never = sorted(set(by_name) - ever_current - covered)
        if never:
            gname = never[0]
            goal = by_name[gname].goal
            line = None if goal.is_branchless_code_object else sp.existing_predicates[goal.predicate_id].line_no
            pruned = "pruned-cdg" if removed_nodes else "full-cdg"
            fail(f"unreachable-goal|{'branchless' if goal.is_branchless_code_object else 'branch'}|{pruned}|{mode}",
                 f"{cfg_txt}: {len(never)} of {len(by_name)} goals never became current although every current goal was "
                 f"covered; first: {gname} (line {line}), own parents {sorted(parents[gname])}\n"
                 f"{c08._numbered(lay, line or 1, 30, 6)}")

    # ---- (e) execution-shaped coverage along walks through the real CFGs
    from pynguin.instrumentation import controlflow as cf

    walks = 0
    code_ids = sorted(cid for cid in node_pred if node_pred[cid])
    for w, cid in enumerate(code_ids[:4] * 2):
        cmeta = sp.existing_code_objects[cid]
        graph = cmeta.cfg.graph
        node = cmeta.cfg.entry_node
        taken: list[str] = []
        for k in range(80):
            succs = sorted(graph.successors(node), key=lambda n: getattr(n, "index", 10 ** 6))
            if not succs:
                break
            nxt = succs[schedule[(7 * w + k) % len(schedule)] % len(succs)]
            lab = graph.get_edge_data(node, nxt).get(cf.EDGE_DATA_BRANCH_VALUE)
            if lab is not None and node in node_pred[cid]:
                gname = f"branch:{node_pred[cid][node]}:{bool(lab)}"
                if gname not in taken:
                    taken.append(gname)
            node = nxt
        if not taken:
            continue
        walks += 1
        archive2 = CoverageArchive(OrderedSet())
        try:
            manager2 = _GoalsManager(fitness_functions, archive2, sp)  # type: ignore[arg-type]
            manager2.update([_make_chromosome(set(taken))])
        except Exception as exc:  # noqa: BLE001
            if not has_pynguin_frame(exc):
                raise
            fail(f"walk|update-raises|{exc_sig(exc)}|{mode}", f"{cfg_txt}\n{exc_detail(exc)}")
            break
        archived2 = {_goal_name(f.goal) for f in archive2.covered_goals}
        lost = [g for g in taken if g not in archived2]
        if lost:
            gname = lost[0]
            pid = int(gname.split(":")[1])
            line = sp.existing_predicates[pid].line_no
            co = cmeta.code_object
            # a controlling node with a third CFG successor (the artificial exit of a yielding block) makes its
            # dependents depend on BOTH outcomes, which one labelled CDG edge cannot express (C06's finding)
            try:
                lost_deps = cmeta.cdg.get_control_dependencies(sp.existing_predicates[pid].node)
            except Exception:  # noqa: BLE001
                lost_deps = []
            three_way = any(
                len(set(graph.successors(dep.node))) > 2
                and f"branch:{node_pred[cid].get(dep.node)}:{not dep.branch_value}" in archived2
                for dep in lost_deps
            )
            kind = "other-outcome-of-three-way-parent-covered" if three_way else "no-three-way-parent"
            pruned = "pruned-cdg" if any(_is_block(n) and n not in set(cmeta.cdg.graph.nodes) for n in graph.nodes) else "full-cdg"
            fail(f"walk|covered-goal-not-archived|{pruned}|{kind}|{mode}",
                 f"{cfg_txt}: a walk through the CFG of {co.co_name}@{co.co_firstlineno} takes, in this order, {taken}; after one "
                 f"update with a chromosome covering exactly these goals the archive holds {sorted(archived2)} -- {gname} "
                 f"(line {line}) never became a goal (own parents {sorted(parents.get(gname, ()))}, root-dependent by own "
                 f"search: {gname in own_roots})\n{c08._numbered(lay, line or 1, 30, 6)}")

    # ---- statistics
    depth: dict[str, int] = {g: 0 for g in own_roots}
    frontier = list(own_roots)
    children: dict[str, list[str]] = {}
    for g, ps in parents.items():
        for p_ in ps:
            children.setdefault(p_, []).append(g)
    while frontier:
        g = frontier.pop(0)
        for c in children.get(g, []):
            if c not in depth:
                depth[c] = depth[g] + 1
                frontier.append(c)
    max_depth = max(depth.values(), default=0)
    res["stats"] = {"goals": len(by_name), "roots": len(initial), "max_depth": max_depth, "steps": step, "removed_cdg_nodes": removed_nodes, "walks": walks}
    res["nontrivial"] = bool(max_depth >= 2 and not broken and (not plan or removed_nodes >= 1))
    labels = res["labels"]
    labels.append(mode)
    labels.append("depth:" + ("0" if max_depth == 0 else "1" if max_depth == 1 else "2-3" if max_depth <= 3 else "4+"))
    if removed_nodes:
        labels.append("cdg-nodes-removed")
        if not plan:
            labels.append("cdg-nodes-removed-without-exclusions")
    if plan:
        for r in sorted({r.split(":")[0] + ":" + r.split(":")[1].split("-")[0] for r in ex["E"].values()}):
            labels.append("E:" + r)
        if ex["selected"]:
            labels.append("only_cover")
    if len(by_name) >= 20:
        labels.append("goals:20+")
    if walks:
        labels.append("walks-checked")
    return res


# ------------------------------------------------------------------------------------------ parent side
def _preload() -> None:
    import bytecode  # noqa: F401
    import pynguin.configuration  # noqa: F401
    import pynguin.ga.algorithms.archive  # noqa: F401
    import pynguin.ga.algorithms.dynamosaalgorithm  # noqa: F401
    import pynguin.ga.coveragegoals  # noqa: F401
    import pynguin.ga.testcasechromosome  # noqa: F401
    import pynguin.instrumentation.machinery  # noqa: F401
    import pynguin.instrumentation.tracer  # noqa: F401
    import pynguin.testcase.testcase  # noqa: F401


_FEATURE_LABELS = {"if", "elif", "else", "while", "while-else", "for-else", "try-except", "try-else", "try-finally", "match",
                   "with", "closure", "genfunc", "class", "return-early", "break", "continue", "raise", "and", "or"}


def evaluate(case: dict[str, Any]) -> Outcome:
    out = Outcome()
    _preload()
    workdir = c08.scratch_dir("c07_")
    try:
        kind, val = forked(lambda: _child(case, workdir), CHILD_TIMEOUT)
    finally:
        shutil.rmtree(workdir, ignore_errors=True)
    out.labels.extend("has:" + f for f in pygen.features_of(case["module"]) if f in _FEATURE_LABELS)
    if kind == "signal":
        out.fail("interpreter-crash|signal", f"child killed by signal {val}")
        return out
    if kind == "timeout":
        out.inconclusive = "child-timeout"
        return out
    if kind == "exit":
        out.inconclusive = f"child-exit-{val}"
        return out
    if kind == "exc":
        if val.get("pynguin_frame"):
            out.fail("unexpected-exception|" + val["sig"], val["detail"])
            return out
        raise RuntimeError("harness error in child: " + val["detail"])
    for sig, detail in val["failures"]:
        out.fail(sig, detail)
    out.labels.extend(val["labels"])
    out.excluded = val["excluded"]
    out.nontrivial = bool(val["nontrivial"])
    if val["inconclusive"]:
        out.inconclusive = val["inconclusive"]
    out.sample = {"source": c08.build(case["module"], case.get("plan")).source(),
                  "plan": {k: v for k, v in (case.get("plan") or {}).items() if k != "marks"}, "stats": val["stats"]}
    return out
