"""C15 — variation operators keep every test case well-formed.

Each case: a real pynguin session over a *generated* SUT module (``vf.gen.modules``: classes, enums,
fields, callables, collections in hints) or a corpus module (with or without annotations); a small population of test
cases built by the real factory; then a drawn history of the real variation operators (``mutate``, the individual
``_mutation_insert/_change/_delete``, single statement changes, ``SinglePointRelativeCrossOver``, ``chop``,
``remove_unused_variables``, ``append_test_case_from``, ``clone``, plain/graceful/forward-dependency deletion, execution
of the test so that ``get_last_mutatable_statement`` sees exception positions; thorough tier: ``TestSuiteLocalSearch``).
pynguin's RNG is seeded from a drawn int before every operation.  After every operation an independent oracle
(``ast`` + ``symtable`` over the rendered code) checks every test case the operation touched:

1. ``to_code()`` parses, one top-level statement per ``Statement`` (``pass`` for the empty test);
2. def-before-use: names a statement needs from outside are bound by earlier statements, or are builtins, the module
   alias, ``pytest`` or a public name of the SUT module (exactly what the exported file binds);
3. bound names are unique and ``bound_variable`` is exactly the assignment target of the node (no target when None);
4. the per-type registry equals the registry rebuilt from the statements (``variables_of_type`` in statement order) and
   ``next_var_name()`` is a name that is not in use;
5. crossover and ``_mutation_insert`` never grow a test case beyond ``chromosome_length``
   (``size_after <= max(size_before, chromosome_length)``).
"""

from __future__ import annotations

import ast
import builtins
import os
import shutil
import symtable
import tempfile
from typing import Any

from hypothesis import strategies as st

from vf.core import Outcome

PROPERTY = "C15"
META = {
    "title": "Variation operators keep every test case well-formed",
    "technique": "history generation: Hypothesis-drawn operation lists over the real variation operators of a real session "
                 "(generated test clusters), invariant oracle (ast + symtable def-use pass, rebuilt registry) after every step",
    "design_ref": "DESIGN.md §3 C15",
    "rule": "case = SUT (generated module model from vf.gen.modules, or corpus module +/- annotations) x drawn search configuration "
            "(chromosome_length 5..40, mutation/insertion/reuse probabilities, chop_max_length, field statements) x 2..4 factory-built "
            "test cases x 10..60 operations, pynguin RNG seeded per operation from a drawn int. Non-trivial = some checked state had a "
            "statement reading >= 2 earlier variables and the history applied a crossover/append after a deletion; distinct by the whole case",
    "assumptions": ["names a generated test may use without binding them are those the exported file binds: builtins, module alias, pytest, "
                    "public names of the SUT module (export.py)",
                    "length bound is size_after <= max(size_before, chromosome_length): an operator is not required to shrink a test that "
                    "was already longer",
                    "thorough tier: local search is wall-clock budgeted, so its histories are not bit-reproducible; only invariants are checked"],
    "level_text": "Generated operation histories over real sessions; invariants checked after every operation by an independent pass over "
                  "the rendered code. Exploration, not proof.",
    "level_note": "Trusted: CPython ast/symtable; vf.session wiring equals generator._run; vf.gen.modules renders importable modules.",
}
PLAN = {
    "quick": {"shards": 16, "examples": 400, "timeout": 1500, "local_search": False},
    "thorough": {"shards": 16, "examples": 4000, "timeout": 7200, "local_search": True},
}

CORPUS = ["vfc_account", "vfc_queue", "vfc_records", "vfc_containers", "vfc_enums", "vfc_defaults", "vfc_strings", "vfc_raising"]

# operation vocabulary: [name, i, j, rng seed, fraction in 0..1000]
OPS_ONE = ["mutate", "mutate", "mutate", "insert", "insert", "change", "change", "delete", "delete", "mutate_stmt", "mutate_stmt",
           "change_type", "delete_one", "delete_one", "remove_fwd", "chop", "remove_unused", "clone", "execute", "execute"]
OPS_TWO = ["crossover", "crossover", "crossover", "append_from", "append_from"]
LENGTH_CHECKED = {"crossover", "insert"}


def _op(local_search: bool) -> st.SearchStrategy:
    names = OPS_ONE + OPS_TWO + (["local_search"] if local_search else [])
    return st.tuples(st.sampled_from(names), st.integers(0, 3), st.integers(0, 3), st.integers(0, 2**31 - 1),
                     st.integers(0, 1000)).map(list)


def strategy(ctx) -> st.SearchStrategy:
    import vf.gen.modules as gm

    local_search = bool(ctx.params.get("local_search"))
    sut = st.one_of(
        gm.module_models(max_classes=3, max_functions=4, max_enums=1).map(lambda m: {"kind": "gen", "model": m}),
        gm.module_models(max_classes=4, max_functions=3, max_enums=2).map(lambda m: {"kind": "gen", "model": m}),
        st.fixed_dictionaries({"kind": st.just("corpus"), "module": st.sampled_from(CORPUS), "strip": st.booleans()}),
    )
    prob = st.sampled_from([0.0, 0.1, 1 / 3, 0.5, 0.9, 1.0])
    cfg = st.fixed_dictionaries({
        "chromosome_length": st.integers(5, 40),
        "chop_max_length": st.booleans(),
        "test_delete_probability": prob,
        "test_change_probability": prob,
        "test_insert_probability": prob,
        "statement_insertion_probability": st.sampled_from([0.3, 0.5, 0.8, 0.95]),
        "change_statement_type_probability": st.sampled_from([0.05, 0.3, 1.0]),
        "change_parameter_probability": st.sampled_from([0.1, 0.5, 1.0]),
        "object_reuse_probability": st.sampled_from([0.0, 0.5, 0.9, 1.0]),
        "primitive_reuse_probability": st.sampled_from([0.0, 0.5, 1.0]),
        "callable_argument_probability": st.sampled_from([0.0, 0.25, 0.8]),
        "callable_invocation_probability": st.sampled_from([0.0, 0.25, 0.8]),
        "skip_optional_parameter_probability": st.sampled_from([0.0, 0.7, 1.0]),
        "generate_field_statements": st.booleans(),
        "max_recursion": st.sampled_from([1, 3, 10]),
    })
    return st.fixed_dictionaries({
        "sut": sut,
        "cfg": cfg,
        "seed": st.integers(0, 10**6),
        "pop": st.lists(st.tuples(st.integers(0, 10**6), st.integers(1, 1000)).map(list), min_size=2, max_size=4),
        "ops": st.lists(_op(local_search), min_size=10, max_size=60),
    })


# ------------------------------------------------------------------------------------------ the independent oracle
_BUILTINS = frozenset(dir(builtins))


def _tables(table: symtable.SymbolTable):
    yield table
    for child in table.get_children():
        yield from _tables(child)


def stmt_facts(node: ast.stmt) -> tuple[set[str], set[str]]:
    """(names the statement needs from outside, names it binds at top level) via symtable over the unparsed statement."""
    src = ast.unparse(node)
    top = symtable.symtable(src, "<stmt>", "exec")
    bound = {s.get_name() for s in top.get_symbols() if s.is_assigned() or s.is_imported()}
    needed = {s.get_name() for s in top.get_symbols() if s.is_referenced()}
    for child in top.get_children():
        for t in _tables(child):
            # a name that is global (explicitly or implicitly) in a nested scope is resolved in the module namespace
            needed |= {s.get_name() for s in t.get_symbols() if s.is_referenced() and s.is_global()}
    if not isinstance(node, (ast.Assign, ast.AnnAssign, ast.AugAssign, ast.Expr)):
        needed -= bound  # compound statement: order of binding/reading inside it is not analysed (lenient)
    return needed, bound


def check_test_case(tc: Any, allowed: frozenset[str]) -> tuple[list[tuple[str, str]], dict[str, Any]]:
    """Invariants (1)-(4) on one test case. Returns ([(kind, detail)], facts)."""
    fails: list[tuple[str, str]] = []
    facts: dict[str, Any] = {"size": tc.size(), "max_reads": 0}
    code = tc.to_code()
    stmts = tc.statements()
    try:
        tree = ast.parse(code)
    except SyntaxError as exc:
        return [("code-does-not-parse", f"{exc}\n{code[:600]}")], facts
    body = tree.body
    if not stmts:
        if not (len(body) == 1 and isinstance(body[0], ast.Pass)):
            fails.append(("statement-count-mismatch|empty", code[:300]))
        body = []
    elif len(body) != len(stmts):
        return [("statement-count-mismatch", f"{len(stmts)} statements render as {len(body)} top-level nodes\n{code[:600]}")], facts
    bound_so_far: set[str] = set()
    for idx, (node, stmt) in enumerate(zip(body, stmts)):
        needed, bound = stmt_facts(node)
        missing = sorted(n for n in needed if n not in bound_so_far and n not in allowed)
        if missing:
            kind = "test-variable" if all(m.startswith("var_") for m in missing) else "other-name"
            fails.append((f"read-before-bound|{kind}", f"statement {idx} `{ast.unparse(node)[:160]}` needs {missing}\n{code[:900]}"))
        reads = len({n for n in needed if n in bound_so_far})
        facts["max_reads"] = max(facts["max_reads"], reads)
        bv = stmt.bound_variable
        if bv is not None:
            ok = (isinstance(node, ast.Assign) and len(node.targets) == 1 and isinstance(node.targets[0], ast.Name)
                  and node.targets[0].id == bv and bound == {bv})
            if not ok:
                fails.append(("bound-variable-is-not-the-target", f"statement {idx} bound_variable={bv!r} node `{ast.unparse(node)[:160]}`"))
        elif bound:
            fails.append(("unregistered-binding", f"statement {idx} has bound_variable None but binds {sorted(bound)}: `{ast.unparse(node)[:160]}`"))
        dup = sorted(bound & bound_so_far)
        if dup:
            fails.append(("duplicate-bound-name", f"statement {idx} rebinds {dup}\n{code[:900]}"))
        bound_so_far |= bound
    # (4) registry
    expected: dict[Any, list[str]] = {}
    for stmt in stmts:
        if stmt.bound_variable is not None and stmt.bound_type is not None:
            expected.setdefault(stmt.bound_type, []).append(stmt.bound_variable)
    # the public view (variables_of_type) for every type the statements or the registry know about
    keys = list(dict.fromkeys([*expected, *getattr(tc, "_type_registry", {})]))
    diff = [f"{getattr(k, '__name__', k)}: registry {tc.variables_of_type(k)} statements {expected.get(k, [])}"
            for k in keys if tc.variables_of_type(k) != expected.get(k, [])]
    if diff:
        fails.append(("registry-differs-from-statements", "; ".join(diff)[:800]))
    fresh = tc.clone().next_var_name()
    if fresh in bound_so_far:
        fails.append(("next-var-name-in-use", f"next_var_name() of a clone = {fresh!r} which is bound in\n{code[:900]}"))
    return fails, facts


# ------------------------------------------------------------------------------------------ the child: session + history
def _pick(frac: int, n: int) -> int:
    """index in [0, n-1] from a drawn fraction (0..1000)."""
    return min(n - 1, frac * n // 1001) if n > 0 else 0


def _child(case: dict[str, Any], module_dir: str, module_name: str) -> dict[str, Any]:
    import pynguin.configuration as config
    from pynguin.ga.operators.crossover import SinglePointRelativeCrossOver
    from pynguin.utils import randomness

    from vf.core import exc_detail, exc_sig, has_pynguin_frame
    from vf.session import Session

    cfg = case["cfg"]
    overrides = {
        "search_algorithm.chromosome_length": cfg["chromosome_length"],
        "search_algorithm.chop_max_length": cfg["chop_max_length"],
        "search_algorithm.test_delete_probability": cfg["test_delete_probability"],
        "search_algorithm.test_change_probability": cfg["test_change_probability"],
        "search_algorithm.test_insert_probability": cfg["test_insert_probability"],
        "search_algorithm.statement_insertion_probability": cfg["statement_insertion_probability"],
        "search_algorithm.change_statement_type_probability": cfg["change_statement_type_probability"],
        "search_algorithm.change_parameter_probability": cfg["change_parameter_probability"],
        "test_creation.object_reuse_probability": cfg["object_reuse_probability"],
        "test_creation.primitive_reuse_probability": cfg["primitive_reuse_probability"],
        "test_creation.callable_argument_probability": cfg["callable_argument_probability"],
        "test_creation.callable_invocation_probability": cfg["callable_invocation_probability"],
        "test_creation.skip_optional_parameter_probability": cfg["skip_optional_parameter_probability"],
        "test_creation.generate_field_statements": cfg["generate_field_statements"],
        "test_creation.max_recursion": cfg["max_recursion"],
        # generated / corpus SUTs have no long-running code: a test-execution timeout could only come from machine load
        "stopping.maximum_test_execution_timeout": 120,
        "stopping.test_execution_time_per_statement": 30,
        "local_search.local_search_probability": 1.0,
        "local_search.local_search_time": 1500,
        "local_search.local_search_different_datatype": True,
        "local_search.local_search_collections": True,
        "local_search.local_search_complex_objects": True,
    }
    uses_ls = any(op[0] == "local_search" for op in case["ops"])
    failures: list[list[str]] = []
    labels: list[str] = []
    stats = {"checked": 0, "max_reads": 0, "max_size": 0, "timeouts": 0, "cross_after_delete": False, "overshoot": 0}
    with Session(module_dir, module_name, seed=case["seed"], algorithm="DYNAMOSA", coverage_metrics=("BRANCH",),
                 instantiate=uses_ls, scratch=module_dir, overrides=overrides) as s:
        length = config.configuration.search_algorithm.chromosome_length
        allowed = frozenset(_BUILTINS | {s.alias, "pytest"} | {n for n in dir(s.module) if not n.startswith("_")})
        pop = []
        for seed, frac in case["pop"]:
            pop.append(s.chromosome(s.random_test_case(seed, 1 + _pick(frac, length))))
        crossover = SinglePointRelativeCrossOver()
        deleted = False

        def verify(op: str, targets: list[int], before: dict[int, int]) -> bool:
            ok = True
            for i in targets:
                tc = pop[i].test_case
                fails, facts = check_test_case(tc, allowed)
                stats["checked"] += 1
                stats["max_reads"] = max(stats["max_reads"], facts["max_reads"])
                stats["max_size"] = max(stats["max_size"], facts["size"])
                for kind, detail in fails:
                    failures.append([f"{kind}|{op}", f"after op {op} on test {i}: {detail}"])
                    ok = False
                if op in LENGTH_CHECKED and i in before and tc.size() > max(before[i], length):
                    stats["overshoot"] = max(stats["overshoot"], tc.size() - length)
                    # recorded, but the test case is still well-formed: the history goes on
                    failures.append([f"size-exceeds-chromosome-length|{op}",
                                     f"after op {op} on test {i}: size {tc.size()} (before {before[i]}), chromosome_length {length}\n"
                                     f"{tc.to_code()[:900]}"])
            return ok

        if not verify("factory", list(range(len(pop))), {}):
            return {"failures": failures, "labels": labels, "stats": stats}

        for op in case["ops"]:
            name, i, j, rng, frac = op
            i %= len(pop)
            j %= len(pop)
            if name in OPS_TWO and i == j:
                j = (i + 1) % len(pop)
            chrom = pop[i]
            tc = chrom.test_case
            before = {i: pop[i].size(), j: pop[j].size()}
            targets = [i]
            randomness.RNG.seed(rng)
            try:
                if name == "mutate":
                    chrom.mutate()
                elif name == "insert":
                    chrom._mutation_insert()  # noqa: SLF001
                elif name == "change":
                    chrom._mutation_change()  # noqa: SLF001
                elif name == "delete":
                    deleted |= bool(chrom._mutation_delete())  # noqa: SLF001
                elif name == "mutate_stmt":
                    if tc.size():
                        pos = _pick(frac, tc.size())
                        stmt = tc.get_statement(pos)
                        if stmt.bound_variable is not None:  # the guard of TestCaseMutation._mutation_change
                            chrom._mutate_statement(pos, stmt)  # noqa: SLF001
                elif name == "change_type":
                    if tc.size():
                        s.factory.change_statement_type(tc, _pick(frac, tc.size()))
                elif name == "delete_one":
                    if tc.size():
                        pos = _pick(frac, tc.size())
                        bv = tc.get_statement(pos).bound_variable
                        later = ast.parse(tc.to_code()).body[pos + 1:]
                        read_later = bv is not None and any(bv in stmt_facts(n)[0] for n in later)
                        if read_later:
                            s.factory.delete_statement_gracefully(tc, pos)
                        else:  # nothing reads it: the plain deletion keeps the test well-formed
                            s.factory.delete_statement(tc, pos)
                        deleted = True
                elif name == "remove_fwd":
                    if tc.size():
                        tc.remove_statement_with_forward_dependencies(_pick(frac, tc.size()))
                        deleted = True
                elif name == "chop":
                    if tc.size():
                        tc.chop(_pick(frac, tc.size() + 1) - 1)
                elif name == "remove_unused":
                    tc.remove_unused_variables()
                elif name == "clone":
                    code = tc.to_code()
                    pop[i] = chrom.clone()
                    if pop[i].test_case.to_code() != code:
                        failures.append(["clone-renders-differently|clone", f"{code[:400]}\n---\n{pop[i].test_case.to_code()[:400]}"])
                elif name == "execute":
                    if not tc.size():  # the executor's time budget is per statement: an empty test "times out" at once
                        continue
                    try:
                        result = s.executor.execute(tc)
                    except Exception as exc:  # noqa: BLE001
                        if not has_pynguin_frame(exc):
                            raise
                        labels.append("class:executor-raised")  # the executor is not a variation operator (C30-C32)
                        continue
                    if result.timeout:
                        stats["timeouts"] += 1
                    chrom.set_last_execution_result(result)
                    if result.has_test_exceptions():
                        labels.append("class:execution-raised")
                elif name == "crossover":
                    crossover.cross_over(pop[i], pop[j])
                    targets = [i, j]
                    stats["cross_after_delete"] |= deleted
                elif name == "append_from":
                    other = pop[j].test_case
                    start = _pick(frac, other.size() + 1)
                    tc.append_test_case_from(other, start)
                    stats["cross_after_delete"] |= deleted
                elif name == "local_search":
                    codes = {c.test_case.to_code() for c in pop}
                    pop[:] = _local_search(s, pop)
                    targets = list(range(len(pop)))
                    if {c.test_case.to_code() for c in pop} - codes:
                        labels.append("class:local-search-changed-a-test")
                else:
                    raise AssertionError(name)
            except Exception as exc:  # noqa: BLE001
                if not has_pynguin_frame(exc):
                    raise
                failures.append([f"operator-raised|{name}|{exc_sig(exc)}", exc_detail(exc)])
                break
            labels.append(f"op:{name}")
            if not verify(name, targets, before):
                break
    return {"failures": failures, "labels": labels, "stats": stats}


def _local_search(s: Any, pop: list[Any]) -> list[Any]:
    """``DynaMOSAAlgorithm.local_search`` on the current population (instead of the archive's solutions)."""
    from pynguin.testcase.localsearch import TestSuiteLocalSearch
    from pynguin.testcase.localsearchtimer import LocalSearchTimer
    from pynguin.utils.orderedset import OrderedSet

    algo = s.algorithm
    chroms = []
    for c in pop:
        clone = c.clone()
        for f in s.fitness_functions:
            if f not in clone.get_fitness_functions():
                clone.add_fitness_function(f)
        chroms.append(clone)
    suite = algo.create_test_suite(OrderedSet(chroms))
    suite.get_coverage()
    timer = LocalSearchTimer()
    timer.start_timer()
    TestSuiteLocalSearch().local_search(suite, algo.test_factory, algo.executor, timer)
    out = list(suite.test_case_chromosomes)[:4]
    return out if len(out) >= 2 else pop


# ------------------------------------------------------------------------------------------ evaluate
def _scratch() -> str:
    return tempfile.mkdtemp(prefix="vf_c15_", dir=os.environ.get("VF_SCRATCH_DIR") or os.environ.get("VERIF_SCRATCH"))


class _CaseTimeout(BaseException):
    """Raised by the SIGALRM watchdog (BaseException: must not be swallowed by pynguin's ``except Exception``)."""


def _alarm(_signo, _frame):
    raise _CaseTimeout


def evaluate_in_process(case: dict[str, Any]) -> Outcome:
    """Runs inside the worker process, several cases one after the other (``Session.close`` undoes the process-global effects).
    Fork-per-case was measured at 3-12 CPU s per case on the build machine (copy-on-write faults), against 0.3 s this way;
    the operators have no unbounded loops and test executions are bounded by the executor; SIGALRM is the inner watchdog."""
    import signal

    import vf.gen.modules as gm
    from vf.core import exc_detail, exc_sig, has_pynguin_frame
    from vf.corpus import materialise_variant
    from vf.session import SessionSetupError

    out = Outcome()
    tmp = _scratch()
    names: tuple[str, ...] = ()
    module_dir = tmp
    old_handler = signal.signal(signal.SIGALRM, _alarm)
    val = None
    try:
        sut = case["sut"]
        if sut["kind"] == "gen":
            written = gm.write(sut["model"], tmp)
            module_dir, module_name, names = written.path, written.sut, (written.sut, written.helper)
            out.labels.append("sut:generated")
        else:
            module_dir = os.path.join(tmp, "m")
            module_name = materialise_variant(sut["module"], module_dir, strip_annotations=sut["strip"])
            names = (module_name,)
            out.labels.append("sut:corpus" + ("-unannotated" if sut["strip"] else ""))
        signal.alarm(600)
        try:
            val = _child(case, module_dir, module_name)
        except _CaseTimeout:
            out.inconclusive = "history exceeded 600 s"
        except SessionSetupError:
            out.inconclusive = "session-setup-failed (module has nothing to test)"
        except Exception as exc:  # noqa: BLE001
            if not has_pynguin_frame(exc):
                raise
            out.fail(f"unexpected-exception|{exc_sig(exc)}", exc_detail(exc))
        finally:
            signal.alarm(0)
    finally:
        signal.signal(signal.SIGALRM, old_handler)
        gm.forget(names, module_dir)
        shutil.rmtree(tmp, ignore_errors=True)
    if val is not None:
        for sig, detail in val["failures"]:
            out.fail(sig, f"{detail}\ncfg={case['cfg']}")
        stats = val["stats"]
        out.labels += sorted(set(val["labels"]))
        out.evaluations = max(1, stats["checked"])
        if stats["timeouts"]:
            out.labels.append("class:execution-timeout")
        if stats["max_reads"] >= 2:
            out.labels.append("class:statement-reads>=2-variables")
        if stats["cross_after_delete"]:
            out.labels.append("class:crossover-after-deletion")
        if stats["max_size"] > case["cfg"]["chromosome_length"]:
            out.labels.append("class:test-longer-than-chromosome_length")
        out.nontrivial = stats["max_reads"] >= 2 and stats["cross_after_delete"]
        out.sample = {"sut": sut if sut["kind"] == "corpus" else {"kind": "gen", "module": gm.module_names(sut["model"])[0]},
                      "cfg": case["cfg"], "ops": [o[0] for o in case["ops"]], "checked_states": stats["checked"],
                      "max_size": stats["max_size"]}
    return out


def evaluate(case: dict[str, Any]) -> Outcome:
    """Evaluates the case in the shard's persistent forked worker (vf/c15c24c35_worker.py): a crash of the interpreter while
    instrumented code runs, or a hang, ends the worker, not the shard, and is reported as inconclusive (not this property)."""
    from vf.c15c24c35_worker import run_in_worker

    kind, value = run_in_worker(__name__, "evaluate_in_process", case, timeout=700)
    if kind == "ok":
        return value
    out = Outcome()
    if kind == "exc":
        out.fail(f"unexpected-exception|{value['sig']}", value["detail"])
    elif kind == "signal":
        out.labels.append("class:interpreter-crash")
        out.inconclusive = f"interpreter died with signal {value} while the case ran (instrumented code; C01-C03, not this property)"
    elif kind == "timeout":
        out.inconclusive = "case exceeded 700 s in the worker"
    else:
        out.inconclusive = f"worker exited with code {value}"
    return out
