"""C26 — generator selection offers only type-compatible generators.

A case is a generated module pair, a pool of requested types (all parameter annotations of the module + drawn proper
types) and a *history*: queries of the generator providers and of the cached type-system predicates interleaved with
``update_return_type`` calls (what ``ReturnTypeObserver`` does after executions).  The module is analysed twice by the real
``generate_test_cluster`` — once with the rank-based ``GeneratorProvider``, once with ``RandomGeneratorProvider`` — and the
same history is applied to both clusters.

Checked after every provider query and again for every pool type at the end of the history:
 (a) every offered generator is registered under a type that may be a subtype of the requested type,
 (b) both providers offer the same set of generators,
 (c) the (cached) answer equals a recomputation from the current generator table / type graph; the same for every
     ``is_subclass/is_subtype/is_maybe_subtype/subtype_distance`` query of the history (cached vs ``__wrapped__``).
"""

from __future__ import annotations

from typing import Any

from hypothesis import strategies as st

from vf.core import Outcome
from vf.gen import modules as gm
from vf.oracle import c25_types as ty

PROPERTY = "C26"
META = {
    "title": "Generator selection offers only type-compatible generators",
    "technique": "history-based property testing: drawn operation lists (provider queries, type-system queries, update_return_type) "
                 "over two real test clusters of one generated module (rank vs random provider); differential between the providers, "
                 "cached answer vs recomputation on the current generator table, is_maybe_subtype for every offered generator",
    "design_ref": "DESIGN.md §3 C26",
    "rule": "case = module model + 3..6 drawn type specs (plus every parameter annotation of the module) + 4..14 operations; after "
            "the history every pool type is queried once more on both providers; non-trivial = an update_return_type that changed "
            "the generator table is followed by a query of a type that was queried before, and some query offered >= 2 generators; "
            "distinct by the whole case",
    "assumptions": [
        "'may be a subtype' is TypeSystem.is_maybe_subtype (its laws are the subject of C25); it is evaluated uncached (__wrapped__)",
        "the type a generator returns is the key it is registered under in the provider's table (what both providers iterate)",
        "update_return_type is called with types a run can observe: instances, None, parameterised list/set/dict, tuples",
        "the two clusters are built from two fresh imports of the same source (analysing one module object twice renames its lambdas)",
    ],
    "level_text": "Generated modules and drawn query/update histories against two real clusters; all parameter types of the module "
                  "and drawn proper types as requests. Exploration, not proof.",
    "level_note": "Trusted: is_maybe_subtype as the definition of compatibility (C25), Python dict/set semantics of the recomputation.",
}
PLAN = {
    "quick": {"shards": 16, "examples": 640, "shrink_sigs": 3, "shrink_calls": 100, "shrink_seconds": 15},
    "thorough": {"shards": 16, "examples": 40000, "timeout": 3000},
}

TS_METHODS = ["is_subtype", "is_maybe_subtype", "subtype_distance", "is_subclass"]


@st.composite
def _cases(draw: Any) -> dict[str, Any]:
    model = draw(gm.module_models(max_functions=4, max_enums=1))
    desc = gm.describe(model)
    specs = draw(st.lists(ty.type_specs(desc), min_size=3, max_size=6, unique_by=repr))
    n = len(specs) + len(gm.param_hints(model))
    idx = st.integers(0, n - 1)
    op = st.one_of(
        st.tuples(st.just("q"), idx),
        st.tuples(st.just("q"), idx),
        st.tuples(st.just("upd"), st.integers(0, 40), idx),
        st.tuples(st.just("upd"), st.integers(0, 40), idx),
        st.tuples(st.just("ts"), st.sampled_from(TS_METHODS), idx, idx),
    ).map(list)
    return {"model": model, "types": specs, "ops": draw(st.lists(op, min_size=4, max_size=14))}


def strategy(ctx: Any) -> st.SearchStrategy:
    return _cases()


# ------------------------------------------------------------------------------------------ helpers
def acc_key(a: Any) -> tuple[str, str, str]:
    from pynguin.utils.generic.genericaccessibleobject import (GenericConstructor, GenericEnum, GenericField, GenericFunction,
                                                              GenericMethod)

    if isinstance(a, GenericConstructor):
        return ("ctor", a.owner.module, a.owner.qualname)
    if isinstance(a, GenericMethod):
        return ("method", a.owner.module, f"{a.owner.qualname}.{a.method_name}")
    if isinstance(a, GenericFunction):
        return ("function", str(getattr(a.callable, "__module__", "?")), str(a.function_name))
    if isinstance(a, GenericEnum):
        return ("enum", a.owner.module, a.owner.qualname)
    if isinstance(a, GenericField):
        return ("field", a.owner.module, f"{a.owner.qualname}.{a.field}")
    return (type(a).__name__, "?", str(a))


def offered(provider: Any, typ: Any) -> dict[tuple[str, str, str], Any]:
    """key -> table type under which the offered generator is registered (taken from the returned _Generator objects)."""
    res: dict[tuple[str, str, str], Any] = {}
    table = provider.get_all()
    for g in provider._get_generators_for(typ):  # noqa: SLF001
        gen = g.generator
        key = acc_key(gen)
        reg = [k for k, gens in table.items() if gen in gens]
        res[key] = reg
    return res


def is_primitive(tp: Any) -> bool:
    return ty.kind(tp) == "instance" and tp.type.raw_type in (int, str, bool, float, complex, bytes, type)


def recompute(provider: Any, ts: Any, typ: Any, which: str) -> set[tuple[str, str, str]]:
    """The set the provider has to offer for ``typ`` on the *current* table, recomputed without any cache of the provider."""
    table = provider.get_all()
    if ty.kind(typ) == "any":
        return {acc_key(g) for gens in table.values() for g in gens}
    out: set[tuple[str, str, str]] = set()
    if which == "rank":
        if is_primitive(typ):
            return out
        for k, gens in table.items():
            if ts.subtype_distance.__wrapped__(ts, typ, k) is not None:
                out |= {acc_key(g) for g in gens}
    else:
        for k, gens in table.items():
            if ts.is_maybe_subtype.__wrapped__(ts, k, typ):
                out |= {acc_key(g) for g in gens}
    return out


def undefined_blame(ts: Any, sup: Any, sub: Any) -> list[str]:
    """Innermost sub-pairs where ``sub`` may be a subtype of ``sup`` although no distance is defined (bucketing only)."""
    def odd(a: Any, b: Any) -> bool:
        try:
            return ts.subtype_distance(a, b) is None and ts.is_maybe_subtype(b, a)
        except Exception:  # noqa: BLE001
            return False

    ks, kb = ty.kind(sup), ty.kind(sub)
    pairs: list[tuple[Any, Any]] = []
    if ks == "union":
        pairs = [(x, sub) for x in ty.children(sup)]
    elif kb == "union":
        pairs = [(sup, x) for x in ty.children(sub)]
    elif ks == kb == "tuple" and len(ty.children(sup)) == len(ty.children(sub)):
        pairs = list(zip(ty.children(sup), ty.children(sub)))
    elif ks in ("generic", "instance-args") and kb in ("generic", "instance-args"):
        pairs = list(zip(ty.children(sup), ty.children(sub)))
    inner = [tag for a, b in pairs if odd(a, b) for tag in undefined_blame(ts, a, b)]
    return sorted(set(inner)) if inner else [f"{ks}-vs-{kb}"]


# ------------------------------------------------------------------------------------------ evaluate
def evaluate(case: dict[str, Any]) -> Outcome:
    out = Outcome()
    model = case["model"]
    desc = gm.describe(model)
    specs = list(case["types"]) + [{"h": h, "via": "hint"} for h in gm.param_hints(model)]
    n_eval = 0
    changed_then_requery = False
    max_offer = 0
    labels: set[str] = set()
    with ty.world(model, "RANK_SELECTION") as (imp_a, cl_a), ty.world(model, "RANDOM_SELECTION") as (imp_b, cl_b):
        sides = {"rank": (imp_a, cl_a), "random": (imp_b, cl_b)}
        assert type(cl_a.generator_provider).__name__ == "GeneratorProvider"
        assert type(cl_b.generator_provider).__name__ == "RandomGeneratorProvider"
        pool = {w: [ty.materialise(s, desc, imp.module, cl.type_system) for s in specs] for w, (imp, cl) in sides.items()}
        if [repr(t) for t in pool["rank"]] != [repr(t) for t in pool["random"]]:
            raise AssertionError("harness: the two worlds disagree on the materialised types")

        def callables(cl: Any) -> dict[tuple[str, str, str], Any]:
            from pynguin.utils.generic.genericaccessibleobject import GenericCallableAccessibleObject

            found: dict[tuple[str, str, str], Any] = {}
            for gens in cl.generators.values():
                for g in gens:
                    if isinstance(g, GenericCallableAccessibleObject):
                        found.setdefault(acc_key(g), g)
            for g in cl.accessible_objects_under_test:
                if isinstance(g, GenericCallableAccessibleObject):
                    found.setdefault(acc_key(g), g)
            return found

        accs = {w: callables(cl) for w, (_, cl) in sides.items()}
        keys = sorted(set(accs["rank"]) & set(accs["random"]))
        if set(accs["rank"]) != set(accs["random"]):
            out.fail("clusters-differ|callables", f"{sorted(set(accs['rank']) ^ set(accs['random']))[:5]}")

        def check_query(i: int, when: str) -> None:
            nonlocal n_eval, max_offer
            got: dict[str, dict[tuple[str, str, str], Any]] = {}
            for w, (_, cl) in sides.items():
                ts, prov, typ = cl.type_system, cl.generator_provider, pool[w][i]
                try:
                    got[w] = offered(prov, typ)
                    want = recompute(prov, ts, typ, w)
                except Exception as exc:  # noqa: BLE001
                    from vf.core import exc_sig, has_pynguin_frame

                    if not has_pynguin_frame(exc):
                        raise
                    out.fail(f"query-raises|{w}|{ty.kind(typ)}|{exc_sig(exc)}", f"_get_generators_for({typ!r}): {type(exc).__name__}: {exc}")
                    return
                n_eval += 1
                max_offer = max(max_offer, len(got[w]))
                # (c) cached answer vs recomputation on the current table (primitive requests: the only rule is the
                #     providers' shortcut itself; differences between the providers are the subject of (b))
                if not is_primitive(typ) and set(got[w]) != want:
                    miss, extra = sorted(want - set(got[w])), sorted(set(got[w]) - want)
                    for direction, elems in (("missing", miss), ("extra", extra)):
                        if elems:
                            out.fail(f"stale-cache|{w}-provider|{direction}|{when}",
                                     f"_get_generators_for({typ!r}) {direction} {elems[:3]} w.r.t. a recomputation on the current table")
                # (a) every offered generator may produce a subtype of the request
                for key, regs in got[w].items():
                    if not regs:
                        out.fail(f"offered-generator-not-in-table|{w}", f"{key} offered for {typ!r} but registered under no type")
                    n_eval += len(regs)
                    if not regs or any(ts.is_maybe_subtype.__wrapped__(ts, k, typ) for k in regs):
                        continue
                    if w == "rank":
                        bad = [k for k in regs if ts.subtype_distance.__wrapped__(ts, typ, k) is not None]
                        tags = sorted({t for k in bad for t in ty.blame(ts, typ, k)}) or ["no-registered-type-has-a-distance"]
                    else:
                        tags = ["random-provider"]
                    for tag in tags:
                        out.fail(f"offered-not-maybe-subtype|{w}|{tag}",
                                 f"{key} registered under {regs!r} is offered for {typ!r} but is_maybe_subtype(<registered type>, {typ!r}) is False")
            if len(got) < 2:
                return
            # (b) both providers offer the same set
            ts_a, typ_a = cl_a.type_system, pool["rank"][i]
            for key in sorted(set(got["rank"]) ^ set(got["random"])):
                side = "rank" if key in got["rank"] else "random"
                regs = got[side][key]
                if side == "rank":
                    bad = [k for k in regs if ts_a.subtype_distance(typ_a, k) is not None and not ts_a.is_maybe_subtype(k, typ_a)]
                    tags = sorted({t for k in bad for t in ty.blame(ts_a, typ_a, k)}) or ["?"]
                elif is_primitive(typ_a):
                    tags = ["requested-primitive"]
                else:
                    # the same table key exists in the rank cluster (same history); classify there
                    odd = [k for k in regs if ts_a.subtype_distance(typ_a, k) is None and ts_a.is_maybe_subtype(k, typ_a)]
                    tags = sorted({t for k in odd for t in undefined_blame(ts_a, typ_a, k)}) or ["?"]
                for tag in tags:
                    out.fail(f"providers-differ|only-{side}|{tag}",
                             f"request {typ_a!r}: {key} (registered under {regs!r}) is offered by the {side} provider only")

        queried: set[int] = set()
        table_changed_since: set[int] = set()
        ts_log: list[tuple[str, int, int]] = []
        for op in case["ops"]:
            if op[0] == "q":
                i = op[1]
                if i in table_changed_since:
                    changed_then_requery = True
                check_query(i, "during-history")
                queried.add(i)
                table_changed_since.discard(i)
                labels.add("op:query")
            elif op[0] == "upd":
                if not keys:
                    continue
                key = keys[op[1] % len(keys)]
                i = op[2]
                if ty.kind(pool["rank"][i]) not in ("instance", "generic", "tuple", "none"):
                    labels.add("op:update-skipped(non-runtime-type)")
                    continue
                before = {k: {acc_key(g) for g in gens} for k, gens in cl_a.generators.items()}
                for w, (_, cl) in sides.items():
                    cl.update_return_type(accs[w][key], pool[w][i])
                after = {k: {acc_key(g) for g in gens} for k, gens in cl_a.generators.items()}
                labels.add("op:update")
                if before != after:
                    labels.add("op:update-changed-table")
                    table_changed_since |= queried
            else:
                _, meth, i, j = op
                ts_log.append((meth, i, j))
                for w, (_, cl) in sides.items():
                    args = _ts_args(meth, pool[w][i], pool[w][j])
                    if args is not None:
                        try:
                            getattr(cl.type_system, meth)(*args)
                        except Exception as exc:  # noqa: BLE001
                            out.fail(f"query-raises|{meth}|{ty.kind(args[0]) if meth != 'is_subclass' else 'class'}|{type(exc).__name__}", str(exc))
                labels.add("op:ts-query")
        # ---- end of history: every pool type once more, and every logged type-system query cached vs recomputed
        for i in range(len(specs)):
            if i in table_changed_since:
                changed_then_requery = True
            check_query(i, "final")
        for meth, i, j in ts_log:
            for w, (_, cl) in sides.items():
                ts = cl.type_system
                args = _ts_args(meth, pool[w][i], pool[w][j])
                if args is None:
                    continue
                n_eval += 1
                try:
                    cached = getattr(ts, meth)(*args)
                    fresh = getattr(ts, meth).__wrapped__(ts, *args)
                except Exception:  # noqa: BLE001
                    continue
                if cached != fresh:
                    out.fail(f"stale-cache|{meth}", f"{meth}{args!r}: cached {cached!r}, recomputed {fresh!r}")
        labels |= {f"request:{ty.kind(t)}" for t in pool["rank"]}
        out.sample = {"types": [repr(t) for t in pool["rank"]][:8], "ops": case["ops"], "callables": len(keys)}
    out.nontrivial = changed_then_requery and max_offer >= 2
    out.labels = sorted(labels | ({"history:update-then-requery"} if changed_then_requery else set()))
    out.evaluations = max(1, n_eval)
    return out


def _ts_args(meth: str, a: Any, b: Any) -> tuple[Any, Any] | None:
    if meth == "is_subclass":
        if ty.kind(a) in ("instance", "generic") and ty.kind(b) in ("instance", "generic"):
            return (a.type, b.type)
        return None
    return (a, b)
