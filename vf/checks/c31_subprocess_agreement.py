"""C31 — in-process and subprocess execution agree.

Differential property test: a real session (``vf.session.Session``) over a corpus module; test cases are built
by the real ``TestFactory`` from drawn seeds (raising and non-raising ones) or, for the timeout class, by hand over
a small looping module.  Every test case is executed by the session's ``TestCaseExecutor`` and by a
``SubprocessTestCaseExecutor`` built over the SAME ``SubjectProperties`` (exactly what ``_setup_and_check`` does for
``--subprocess``), singly (``execute``) and in one batch (``execute_multiple``), first with a
``RemoteAssertionTraceObserver`` each, then — after the observed assertions were attached to the statements and a
drawn subset of them was falsified — with a ``RemoteAssertionVerificationObserver`` each.

Oracle (independent of the code under test: the in-process executor is the reference, the statement of C31 is the
equality): equal ``timeout``; equal {position: exception type name}; equal covered line ids, executed code objects
and (predicate, true-distance == 0, false-distance == 0) triples; equal assertion traces (position + rendered
assertion); equal verification traces (failed / error index sets per position).  Values that cannot be pickled are
documented to be dropped by the subprocess executor: a case whose subprocess log contains the "final results might
differ" warning is counted inconclusive.  Tests built to loop must report ``timeout`` on both sides; a timeout flag
on any other test is a wall-clock overrun (machine load): re-run once, then skipped and counted inconclusive.
"""

from __future__ import annotations

import logging
import os
import shutil
import tempfile
from typing import Any

from hypothesis import strategies as st

from vf.core import Outcome

PROPERTY = "C31"
META = {
    "title": "In-process and subprocess execution agree",
    "technique": "differential property testing: factory-built test cases executed by TestCaseExecutor and by "
                 "SubprocessTestCaseExecutor over the same subject properties (execute + execute_multiple, assertion-trace and "
                 "assertion-verification observers)",
    "design_ref": "DESIGN.md §3 C31",
    "rule": "case = corpus module (or the hand-written looping module) + session seed + 2..4 test cases given as (factory seed, "
            "size, typed?, unused variables removed?) + indices of assertions to falsify; every test case = 3 executions x 2 observer phases; non-trivial = at "
            "least 2 test cases, one of which runs SUT code, and at least one non-empty assertion trace; distinct by module + seeds",
    "assumptions": ["the in-process TestCaseExecutor is the reference (its own isolation is C30's subject)",
                    "corpus modules are deterministic and keep no module-level state (vf/corpus rule)",
                    "multiprocess start method is fork (Linux default), both sides share PYTHONHASHSEED"],
    "level_text": "Generated test cases over 10 corpus modules + a looping module; both executors, single and batched, trace and "
                  "verification observers. Exploration, not proof.",
    "level_note": "Trusted: the session helper (vf/session.py), the rendering of results in vf.session.observe_result.",
}
PLAN = {
    "quick": {"shards": 16, "examples": 160, "timeout": 3000, "time_budget": 420},
    "thorough": {"shards": 16, "examples": 9000, "timeout": 3000, "time_budget": 2400},
}

LOOP_SRC = '''"""C31/C32 helper SUT: terminates unless asked not to (deliberately violates the corpus rule)."""


def spin(n: int) -> int:
    while n == 7:
        pass
    return n


def plain(x: int) -> str:
    if x > 3:
        return "big"
    return "small"


class Box:
    def __init__(self, value: int = 0) -> None:
        self.value = value

    def get(self) -> int:
        if self.value < 0:
            raise ValueError("negative")
        return self.value
'''

TYPED = {"test_creation.none_weight": 0, "test_creation.any_weight": 0, "test_creation.negate_type": 0.0,
         "test_creation.use_random_object_for_call": 0.0}


def shard(ctx) -> None:
    """Default driver + a wall-clock budget for case *generation* (never for a verdict): on an overloaded machine the
    shard stops drawing new cases after ``time_budget`` seconds and says so (``case-budget-cut-by-time`` in the evidence)
    instead of running into the runner's hard limit."""
    from vf.hyp import run_cases

    per = max(1, int(ctx.params["examples"]) // ctx.nshards)
    run_cases(ctx, strategy(ctx), evaluate, per, time_budget=ctx.params.get("time_budget"))


def strategy(ctx) -> st.SearchStrategy:
    from vf.corpus import MODULES

    test = st.fixed_dictionaries({"seed": st.integers(0, 2**31 - 1), "size": st.integers(1, 8)})
    normal = st.fixed_dictionaries({
        "module": st.sampled_from(MODULES),
        "seed": st.integers(0, 2**31 - 1),
        "typed": st.booleans(),
        # run the test cases through TestCase.remove_unused_variables() first, as post-processing / export do: statements
        # whose variable is never read lose their binding, so a raising last statement binds nothing
        "strip": st.booleans(),
        "tests": st.lists(test, min_size=2, max_size=4),
        "corrupt": st.lists(st.tuples(st.integers(0, 3), st.integers(0, 40)).map(list), max_size=4),
    })
    loop_step = st.sampled_from([
        {"fn": "spin", "args": [7]}, {"fn": "spin", "args": [3]}, {"fn": "plain", "args": [5]}, {"fn": "plain", "args": [1]},
        {"new": "Box", "args": [-1]}, {"new": "Box", "args": [4]},
    ])
    loop = st.fixed_dictionaries({
        "module": st.just("loop"),
        "seed": st.integers(0, 1000),
        "typed": st.just(True),
        "hand": st.lists(st.lists(loop_step, min_size=1, max_size=3), min_size=2, max_size=3),
        "corrupt": st.just([]),
    })
    # a looping case costs >= 4 timeouts of 1 s: keep it at ~1 in 12
    return st.integers(0, 11).flatmap(lambda k: loop if k == 0 else normal)


# ------------------------------------------------------------------------------------------------------------
def _diff(ref: dict[str, Any], got: dict[str, Any], fields: list[str]) -> list[tuple[str, str]]:
    out = []
    for f in fields:
        if ref[f] != got[f]:
            out.append((f, f"in-process {str(ref[f])[:300]} != subprocess {str(got[f])[:300]}"))
    return out


def _falsify(assertion: Any) -> Any:
    """A variant of *assertion* that must not hold (same kind, different expectation)."""
    import pynguin.assertion.assertion as ass

    if isinstance(assertion, ass.ExceptionAssertion):
        return ass.ExceptionAssertion(assertion.module, assertion.exception_type_name + "X")
    if isinstance(assertion, ass.FloatAssertion):
        v = assertion.value
        return ass.FloatAssertion(assertion.source, 1.0 if v != v or v in (float("inf"), float("-inf")) else v + 1.0)
    if isinstance(assertion, ass.CollectionLengthAssertion):
        return ass.CollectionLengthAssertion(assertion.source, assertion.length + 1)
    if isinstance(assertion, ass.TypeNameAssertion):
        return ass.TypeNameAssertion(assertion.source, assertion.module, assertion.qualname + "X")
    if isinstance(assertion, ass.ObjectAssertion):
        return ass.ObjectAssertion(assertion.source, ("c31-falsified", 0))
    return None


class _LogTap:
    """Appends the warnings of the subprocess executor (also those emitted in the forked child) to a file."""

    NAME = "pynguin.testcase.subprocess_executor"

    def __init__(self, path: str) -> None:
        self.path = path
        self.logger = logging.getLogger(self.NAME)
        self.handler = logging.FileHandler(path, mode="a", delay=False)
        self.handler.setLevel(logging.WARNING)
        self.saved = (self.logger.level, self.logger.propagate)

    def __enter__(self) -> "_LogTap":
        self.logger.addHandler(self.handler)
        self.logger.setLevel(logging.WARNING)
        self.logger.propagate = False
        return self

    def __exit__(self, *exc: Any) -> None:
        self.logger.removeHandler(self.handler)
        self.handler.close()
        self.logger.setLevel(self.saved[0])
        self.logger.propagate = self.saved[1]

    def text(self) -> str:
        self.handler.flush()
        with open(self.path, encoding="utf-8", errors="replace") as fh:
            return fh.read()


TRACE_FIELDS = ["timeout", "exceptions", "lines", "code_objects", "branches", "assertions"]
VERIFY_FIELDS = ["timeout", "exceptions", "lines", "code_objects", "branches", "verification"]


def evaluate(case: dict[str, Any]) -> Outcome:
    from pynguin.assertion.assertiontraceobserver import (
        RemoteAssertionTraceObserver,
        RemoteAssertionVerificationObserver,
    )

    from vf.corpus import CORPUS_DIR
    from vf.session import Session

    out = Outcome()
    out.key = {k: case[k] for k in case if k != "corrupt"}
    tmp = tempfile.mkdtemp(prefix="vf_c31_", dir=os.environ.get("VF_SCRATCH_DIR") or os.environ.get("VERIF_SCRATCH"))
    looping = case["module"] == "loop"
    try:
        if looping:
            module_dir, module_name = tmp, f"vfsut_c31loop_{case['seed']}"
            with open(os.path.join(tmp, module_name + ".py"), "w", encoding="utf-8") as fh:
                fh.write(LOOP_SRC)
        else:
            module_dir, module_name = CORPUS_DIR, case["module"]
        overrides = dict(TYPED) if case.get("typed") else {}
        # generous budgets: a spurious timeout is only ever "inconclusive", but it costs coverage of the comparison
        overrides["stopping.maximum_test_execution_timeout"] = 2 if looping else 10
        overrides["stopping.test_execution_time_per_statement"] = 2 if looping else 5
        with Session(module_dir, module_name, seed=case["seed"], algorithm="MOSA", scratch=tmp,
                     overrides=overrides) as s, _LogTap(os.path.join(tmp, "sub.log")) as tap:
            if looping:
                tests = [s.build_test_case_from_calls(steps) for steps in case["hand"]]
                # no step of the looping vocabulary raises, so spin(7) is reached whenever it occurs
                expect_timeout = [any(st_ == {"fn": "spin", "args": [7]} for st_ in steps) for steps in case["hand"]]
            else:
                tests = [s.random_test_case(t["seed"], t["size"]) for t in case["tests"]]
                if case.get("strip"):
                    for t in tests:
                        t.remove_unused_variables()
                expect_timeout = [False] * len(tests)
            tests = [t for t in tests if t.size() > 0]
            expect_timeout = expect_timeout[:len(tests)]
            if len(tests) < 2:
                out.inconclusive = "factory-built-fewer-than-2-tests"
                return out
            executor = s.executor
            executor.clear_observers()  # stopping-condition observers are irrelevant here
            sub = s.subprocess_executor()

            # ---------------- phase 1: assertion traces
            executor.add_remote_observer(RemoteAssertionTraceObserver())
            sub.add_remote_observer(RemoteAssertionTraceObserver())
            ref_results = [executor.execute(t) for t in tests]
            ref = [s.observe(r) for r in ref_results]
            _compare_all(out, "trace", tests, ref, sub, s, TRACE_FIELDS, expect_timeout, executor)
            executor.clear_remote_observers()
            sub.clear_remote_observers()

            # ---------------- phase 2: attach (partly falsified) assertions, verify
            n_assert = 0
            for t, r in zip(tests, ref_results):
                for pos, stmt in enumerate(t.statements()):
                    stmt.assertions[:] = list(r.assertion_trace.get_assertions(pos))
                    n_assert += len(stmt.assertions)
            falsified = 0
            for ti, k in case.get("corrupt", []):
                if ti >= len(tests):
                    continue
                slots = [(stmt, i) for stmt in tests[ti].statements() for i in range(len(stmt.assertions))]
                if not slots:
                    continue
                stmt, i = slots[k % len(slots)]
                bad = _falsify(stmt.assertions[i])
                if bad is not None:
                    stmt.assertions[i] = bad
                    falsified += 1
            executor.add_remote_observer(RemoteAssertionVerificationObserver())
            sub.add_remote_observer(RemoteAssertionVerificationObserver())
            ref2_results = [executor.execute(t) for t in tests]
            ref2 = [s.observe(r) for r in ref2_results]
            _compare_all(out, "verify", tests, ref2, sub, s, VERIFY_FIELDS, expect_timeout, executor)
            executor.clear_remote_observers()
            sub.clear_remote_observers()

            log = tap.text()
            if "final results might differ" in log:
                # documented: unpicklable values are dropped by the subprocess executor
                out.failures.clear()
                out.inconclusive = "unpicklable-values-dropped"
                return out

            ran_sut = any(len(o["code_objects"]) > 0 and not o["timeout"] for o in ref)
            any_assert = any(o["assertions"] for o in ref)
            out.nontrivial = len(tests) >= 2 and ((ran_sut and any_assert) or (looping and any(expect_timeout)))
            out.evaluations = 6 * len(tests)
            out.labels.append("module:" + ("loop" if looping else case["module"]))
            out.labels.append("typed" if case.get("typed") else "untyped")
            if case.get("strip"):
                out.labels.append("class:unused-variables-removed")
                if any(o["exceptions"] and t.get_statement(int(min(o["exceptions"], key=int))).bound_variable is None
                       for t, o in zip(tests, ref)):
                    out.labels.append("class:raising-statement-binds-nothing")
            for o in ref:
                out.labels.append("test:raises" if o["exceptions"] else ("test:timeout" if o["timeout"] else "test:clean"))
            if n_assert:
                out.labels.append("class:assertions-attached")
            if falsified:
                out.labels.append("class:assertion-falsified")
            if any(o["verification"]["failed"] or o["verification"]["error"] for o in ref2):
                out.labels.append("class:verification-violations-seen")
            if len({str(o) for o in ref}) > 1:
                out.labels.append("class:batch-with-different-results")
            out.sample = {"module": module_name, "tests": [t.to_code() for t in tests][:3], "in_process": ref[:2]}
    finally:
        shutil.rmtree(tmp, ignore_errors=True)
    return out


def _compare_all(out: Outcome, phase: str, tests: list[Any], ref: list[dict[str, Any]], sub: Any, s: Any,
                 fields: list[str], expect_timeout: list[bool], executor: Any) -> None:
    """Compare the subprocess executor (single + batch) with the reference observations *ref* (updated in place).

    Timeout policy: a test built to loop must time out on both sides (a miss is a failure).  A timeout flag on any
    other test is a wall-clock overrun (1 s per statement under machine load): one retry, then that test is skipped and
    the case counted inconclusive - never a violation.
    """
    skip: set[int] = set()
    # The property quantifies over *deterministic* test cases.  A test whose observable result depends on object addresses
    # (hash()/repr() of an object holding a function, e.g. the generated __hash__ of a frozen dataclass with a lambda field)
    # differs between any two processes by construction: such tests are recognised statically and by executing the test a
    # second time in-process, and are left out of the comparison (counted, never a verdict).
    import re as _re

    for i, t in enumerate(tests):
        if expect_timeout[i]:
            continue
        if _re.search(r"\.__(hash|repr|str|format|sizeof|reduce|reduce_ex|dir|getstate)__\(", t.to_code()):
            skip.add(i)
            out.excluded += 1
            out.labels.append("excluded:address-dependent-dunder-call")
            continue
        again = s.observe(executor.execute(t))
        if not again["timeout"] and not ref[i]["timeout"] and _diff(ref[i], again, fields):
            skip.add(i)
            out.excluded += 1
            out.labels.append("excluded:nondeterministic-in-process")
    for i, o in enumerate(ref):
        if i in skip:
            continue
        if o["timeout"] and not expect_timeout[i]:
            o2 = s.observe(executor.execute(tests[i]))
            if o2["timeout"]:
                skip.add(i)
                out.inconclusive = "spurious-timeout-in-process"
            else:
                ref[i] = o2
        elif expect_timeout[i] and not o["timeout"]:
            out.fail(f"{phase}|timeout|in-process-missed-timeout", f"test {i} cannot terminate: {tests[i].to_code()!r}")
            skip.add(i)
    single = [s.observe(sub.execute(t)) for t in tests]
    batch = [s.observe(r) for r in sub.execute_multiple(tests)]
    if len(batch) != len(tests):
        out.fail(f"{phase}|result-count|batch", f"{len(batch)} results for {len(tests)} test cases")
        return
    for mode, got_all in (("single", single), ("batch", batch)):
        for i, got in enumerate(got_all):
            if i in skip:
                continue
            if got["timeout"] and not expect_timeout[i]:
                got = s.observe(sub.execute(tests[i]))
                if got["timeout"]:
                    out.inconclusive = "spurious-timeout-subprocess"
                    continue
            for f, detail in _diff(ref[i], got, fields):
                out.fail(f"{phase}|{f}|{mode}", f"test {i}: {tests[i].to_code()!r}: {detail}")
