"""C10 — fitness values, coverage values and covered verdicts agree.

A case is a registry spec (really instrumented pool functions, ``vf.gen.traces``), 1..4 *sound* synthetic trace
models, 0..2 real call lists and drawn exclusion sets.  Every trace becomes a real ``TestCaseChromosome`` with a cached
execution result, all traces together a real ``TestSuiteChromosome``; every fitness / coverage function of
``pynguin.ga`` is evaluated on them and compared (a) with each other — the triangles of the property statement — and
(b) with verdicts recomputed from the event list of the trace *without* pynguin (``RefTrace``).
"""

from __future__ import annotations

import math
from typing import Any

from hypothesis import strategies as st

from vf.core import Outcome
from vf.gen import traces as T

PROPERTY = "C10"
META = {
    "title": "Fitness values, coverage values and covered verdicts agree",
    "technique": "property-based testing: Hypothesis-drawn registries (really instrumented functions) x sound synthetic "
                 "and real execution traces; cross-function consistency + independent recount from the event list",
    "design_ref": "DESIGN.md §3 C10",
    "rule": "case = registry spec (1..3 pool functions x constants x metric subset x function/module mode) + 1..4 synthetic "
            "trace models (update lists with exactly one zero per pair, other distance from {small,large,inf}; p=0.15 "
            "all-covered fill) + 0..2 real call lists + exclusion index sets; non-trivial = some trace (or the suite) has "
            ">= 1 fully covered and >= 1 partially covered predicate, or is the all-covered trace of a registry with >= 1 "
            "predicate; distinct by (rendered source, metrics, resolved event lists, exclusions)",
    "assumptions": [
        "synthetic traces contain only what ExecutionTracer can emit and validate_execution_trace accepts "
        "(ids in the registry, executed predicate / covered line => code object entered, one zero per update)",
        "the formula of a positive fitness value is not pinned (>= 2 executions rule may change); only range, zero-ness, "
        "verdict agreement and coverage counts are",
        "real traces use argument values for which the tracer's distance functions are defined (C04/C05 territory excluded)",
    ],
    "level_text": "Generated registries and traces against cross-function consistency relations and an independent recount; "
                  "branch, line and statement-checked metrics, test-case goals, test-case and suite functions, with and "
                  "without exclusion sets. Exploration, not proof.",
    "level_note": "Trusted: the instrumentation that builds the registries (CFG/CDG correctness is C03/C06); the 40-line "
                  "RefTrace model. T-tier suites from in-process search runs are not included (real traces come from "
                  "executing the instrumented pool functions directly).",
}
PLAN = {
    "quick": {"shards": 12, "examples": 3000},
    "thorough": {"shards": 16, "examples": 200000, "timeout": 3000},
}

_idx = st.lists(st.integers(0, 15), max_size=3)


def strategy(ctx) -> st.SearchStrategy:
    return st.fixed_dictionaries({
        "reg": T.registry_spec(),
        "traces": st.lists(T.trace_model(), min_size=1, max_size=4),
        "real": st.lists(T.calls_model(), max_size=2),
        "excl": st.fixed_dictionaries({"code": _idx, "true": _idx, "false": _idx}),
    })


# ------------------------------------------------------------------------------------------------- independent verdicts
def _true_cov(ref: T.RefTrace, p: int) -> bool:
    return p in ref.tmin and ref.tmin[p] == 0.0


def _false_cov(ref: T.RefTrace, p: int) -> bool:
    return p in ref.fmin and ref.fmin[p] == 0.0


def _model_branch_all_covered(ref: T.RefTrace, reg: T.Registry, xc: set[int], xt: set[int], xf: set[int]) -> bool:
    for c in reg.branchless:
        if c not in xc and c not in ref.code:
            return False
    for p in reg.pred_ids:
        if p not in xt and not _true_cov(ref, p):
            return False
        if p not in xf and not _false_cov(ref, p):
            return False
    return True


def _model_branch_coverage(ref: T.RefTrace, reg: T.Registry) -> float:
    total = 2 * len(reg.pred_ids) + len(reg.branchless)
    if total == 0:
        return 1.0
    hit = sum(1 for c in reg.branchless if c in ref.code)
    hit += sum(1 for p in reg.pred_ids if _true_cov(ref, p))
    hit += sum(1 for p in reg.pred_ids if _false_cov(ref, p))
    return hit / total


def _frac(n: int, d: int) -> float:
    return 1.0 if d == 0 else n / d


def _bad_fitness(v: Any) -> str | None:
    if isinstance(v, bool) or not isinstance(v, (int, float)):
        return "not-a-number"
    if math.isnan(v):
        return "nan"
    if math.isinf(v):
        return "inf"
    if v < 0:
        return "negative"
    return None


def _bad_coverage(v: Any) -> str | None:
    if isinstance(v, bool) or not isinstance(v, (int, float)):
        return "not-a-number"
    if math.isnan(v):
        return "nan"
    if not 0.0 <= v <= 1.0:
        return "outside-0-1"
    return None


def _excl_class(xc: set[int], xt: set[int], xf: set[int]) -> str:
    return "excl" if (xc or xt or xf) else "noexcl"


# ------------------------------------------------------------------------------------------------------------ evaluate
def evaluate(case: dict[str, Any]) -> Outcome:
    import pynguin.ga.computations as ff
    import pynguin.ga.coveragegoals as bg
    from pynguin.ga import fitness_metrics as fm

    out = Outcome()
    reg = T.build_registry(case["reg"])
    sp = reg.sp
    executor = T.StubExecutor(sp)

    entries: list[tuple[str, Any, T.RefTrace]] = []  # (kind, trace, independent model)
    keys: list[Any] = []
    for m in case["traces"]:
        res = T.resolve(m, reg)
        entries.append(("synthetic", T.materialise(res, reg), T.reference(res, reg)))
        keys.append([res.code, res.updates, res.lines, res.checked])
    for calls in case["real"]:
        tr = T.run_real(reg, calls)
        entries.append(("real", tr, T.ref_of_trace(tr)))
        keys.append(["real", calls])

    def pick(idx: list[int], ids: list[int]) -> set[int]:
        return {ids[i % len(ids)] for i in idx} if ids else set()

    xc, xt, xf = (pick(case["excl"]["code"], reg.code_ids), pick(case["excl"]["true"], reg.pred_ids),
                  pick(case["excl"]["false"], reg.pred_ids))
    nlines = len(reg.line_ids)

    # ---- the registry views the metrics rely on
    if sorted(sp.branch_less_code_objects) != reg.branchless:
        out.fail("registry|branch_less_code_objects|differs-from-recount", f"{sorted(sp.branch_less_code_objects)} vs {reg.branchless}")

    pool = bg.BranchGoalPool(sp)
    branch_ffs = list(bg.create_branch_coverage_fitness_functions(executor, pool))
    line_ffs = list(bg.create_line_coverage_fitness_functions(executor))
    checked_ffs = list(bg.create_checked_coverage_fitness_functions(executor))
    if len(branch_ffs) != 2 * len(reg.pred_ids) + len(reg.branchless):
        out.fail("goal-pool|branch-goals|count-differs-from-recount", f"{len(branch_ffs)} goals for {reg.shape()}")
    if len(line_ffs) != nlines:
        out.fail("goal-pool|line-goals|count-differs-from-recount", f"{len(line_ffs)} goals for {reg.shape()}")

    nontrivial = False

    def pure_checks(level: str, kind: str, trace: Any, ref: T.RefTrace, excl: tuple[set[int], set[int], set[int]]) -> None:
        """Triangles on the pure metric functions for one (possibly merged) trace."""
        ec, et, ef = excl
        xcls = _excl_class(ec, et, ef)
        fit = fm.compute_branch_distance_fitness(trace, sp, set(ec), set(et), set(ef))
        cov_flag = fm.compute_branch_distance_fitness_is_covered(trace, sp, set(ec), set(et), set(ef))
        bad = _bad_fitness(fit)
        if bad:
            out.fail(f"compute_branch_distance_fitness|{xcls}|{bad}", f"{level}/{kind}: {fit!r}")
            return
        model_cov = _model_branch_all_covered(ref, reg, ec, et, ef)
        if (fit == 0) != model_cov:
            out.fail(f"compute_branch_distance_fitness|{xcls}|zero-disagrees-with-recount:{'zero' if fit == 0 else 'positive'}",
                     f"{level}/{kind}: fitness {fit!r}, recount says all-covered={model_cov}; excl={ec, et, ef}")
        if cov_flag != (fit == 0):
            out.fail(f"compute_branch_distance_fitness_is_covered|{xcls}|disagrees-with-fitness-zero:"
                     f"{'says-covered' if cov_flag else 'says-uncovered'}",
                     f"{level}/{kind}: is_covered={cov_flag} but fitness={fit!r}; preds={len(reg.pred_ids)} excl={ec, et, ef}")
        if not (ec or et or ef):
            bcov = fm.compute_branch_coverage(trace, sp)
            bad = _bad_coverage(bcov)
            if bad:
                out.fail(f"compute_branch_coverage|-|{bad}", f"{level}/{kind}: {bcov!r}")
            else:
                if (fit == 0) != (bcov == 1.0):
                    out.fail("compute_branch_coverage|-|one-disagrees-with-fitness-zero", f"{level}/{kind}: coverage {bcov!r} fitness {fit!r}")
                want = _model_branch_coverage(ref, reg)
                if bcov != want:
                    out.fail("compute_branch_coverage|-|differs-from-recount", f"{level}/{kind}: {bcov!r} != recount {want!r} ({reg.shape()})")
            lcov = fm.compute_line_coverage(trace, sp)
            lflag = fm.compute_line_coverage_fitness_is_covered(trace, sp)
            cflag = fm.compute_checked_coverage_statement_fitness_is_covered(trace, sp)
            bad = _bad_coverage(lcov)
            if bad:
                out.fail(f"compute_line_coverage|-|{bad}", f"{level}/{kind}: {lcov!r}")
            else:
                if lcov != _frac(len(ref.lines), nlines):
                    out.fail("compute_line_coverage|-|differs-from-recount", f"{level}/{kind}: {lcov!r} vs {len(ref.lines)}/{nlines}")
                if lflag != (lcov == 1.0):
                    out.fail("compute_line_coverage_fitness_is_covered|-|disagrees-with-coverage-one", f"{level}/{kind}: {lflag} vs {lcov!r}")
            if lflag != (len(ref.lines) == nlines):
                out.fail("compute_line_coverage_fitness_is_covered|-|differs-from-recount", f"{level}/{kind}: {lflag}; {len(ref.lines)}/{nlines}")
            if cflag != (len(ref.checked) == nlines):
                out.fail("compute_checked_coverage_statement_fitness_is_covered|-|differs-from-recount",
                         f"{level}/{kind}: {cflag}; {len(ref.checked)}/{nlines}")

    def wrapped(sig: str, level: str, fitness_fn: Any, cover_fn: Any, coverage_fn: Any, individual: Any,
                model_cov: bool | None, model_coverage: float | None) -> None:
        """The triangle on FitnessFunction / CoverageFunction objects for one chromosome."""
        fit = fitness_fn.compute_fitness(individual)
        flag = cover_fn.compute_is_covered(individual)
        bad = _bad_fitness(fit)
        if bad:
            out.fail(f"{sig}|fitness|{bad}", f"{level}: {fit!r}")
            return
        if flag != (fit == 0):
            out.fail(f"{sig}|is_covered-disagrees-with-fitness-zero|{'says-covered' if flag else 'says-uncovered'}",
                     f"{level}: is_covered={flag} fitness={fit!r}")
        if model_cov is not None and (fit == 0) != model_cov:
            out.fail(f"{sig}|fitness-zero-disagrees-with-recount|{'zero' if fit == 0 else 'positive'}",
                     f"{level}: fitness={fit!r} recount all-covered={model_cov}")
        if coverage_fn is not None:
            cov = coverage_fn.compute_coverage(individual)
            bad = _bad_coverage(cov)
            if bad:
                out.fail(f"{sig}|coverage|{bad}", f"{level}: {cov!r}")
                return
            if (fit == 0) != (cov == 1.0):
                out.fail(f"{sig}|coverage-one-disagrees-with-fitness-zero|-", f"{level}: coverage={cov!r} fitness={fit!r}")
            if model_coverage is not None and cov != model_coverage:
                out.fail(f"{sig}|coverage-differs-from-recount|-", f"{level}: coverage={cov!r} recount={model_coverage!r}")

    # ---- per trace: goals + test-case level functions + pure functions
    for kind, trace, ref in entries:
        chrom = T.chromosome_with(trace)
        result = chrom.get_last_execution_result()
        full = sum(1 for p in reg.pred_ids if _true_cov(ref, p) and _false_cov(ref, p))
        part = sum(1 for p in reg.pred_ids if _true_cov(ref, p) != _false_cov(ref, p))
        allcov = bool(reg.pred_ids) and _model_branch_all_covered(ref, reg, set(), set(), set())
        nontrivial |= (full >= 1 and part >= 1) or allcov
        out.labels.append(f"trace:{kind}")
        if allcov:
            out.labels.append("class:all-branches-covered")
        if full and part:
            out.labels.append("class:full+partial-predicate")
        if any(n >= 2 for n in ref.counts.values()):
            out.labels.append("class:predicate-executed>=2")
        if any(not math.isinf(d) and 0 < d < 1e-3 for d in list(ref.tmin.values()) + list(ref.fmin.values())):
            out.labels.append("class:tiny-distance")
        if any(math.isinf(d) for d in list(ref.tmin.values()) + list(ref.fmin.values())):
            out.labels.append("class:inf-distance")
        if reg.line_ids and len(ref.lines) == nlines:
            out.labels.append("class:all-lines-covered")
        if any(p not in ref.counts and reg.pred_code[p] in ref.code for p in reg.pred_ids):
            out.labels.append("class:unreached-predicate-in-entered-code")

        for f in branch_ffs:
            goal = f.goal
            if isinstance(goal, bg.BranchGoal):
                gk = "branch-goal"
                want = _true_cov(ref, goal.predicate_id) if goal.value else _false_cov(ref, goal.predicate_id)
            else:
                gk = "branchless-goal"
                want = goal.code_object_id in ref.code
            fit = f.compute_fitness(chrom)
            flag = f.compute_is_covered(chrom)
            bad = _bad_fitness(fit)
            if bad:
                out.fail(f"BranchCoverageTestFitness|{gk}|fitness-{bad}", f"{kind}: {goal!r}: {fit!r}")
                continue
            if flag != goal.is_covered(result):
                out.fail(f"BranchCoverageTestFitness|{gk}|compute_is_covered-differs-from-goal.is_covered", f"{kind}: {goal!r}")
            if flag != (fit == 0):
                out.fail(f"BranchCoverageTestFitness|{gk}|is_covered-disagrees-with-fitness-zero:"
                         f"{'says-covered' if flag else 'says-uncovered'}",
                         f"{kind}: {goal!r}: is_covered={flag} fitness={fit!r}; counts={ref.counts} t={ref.tmin} f={ref.fmin} code={sorted(ref.code)}")
            if flag != want:
                out.fail(f"BranchCoverageTestFitness|{gk}|is_covered-differs-from-recount:{'says-covered' if flag else 'says-uncovered'}",
                         f"{kind}: {goal!r}: is_covered={flag}, recount={want}; t={ref.tmin} f={ref.fmin} code={sorted(ref.code)}")
        for fs, name, member in ((line_ffs, "LineCoverageTestFitness", ref.lines),
                                 (checked_ffs, "StatementCheckedCoverageTestFitness", ref.checked)):
            for f in fs:
                fit = f.compute_fitness(chrom)
                flag = f.compute_is_covered(chrom)
                bad = _bad_fitness(fit)
                if bad:
                    out.fail(f"{name}|line-goal|fitness-{bad}", f"{kind}: {fit!r}")
                    continue
                if flag != (fit == 0):
                    out.fail(f"{name}|line-goal|is_covered-disagrees-with-fitness-zero", f"{kind}: {f}: {flag} vs {fit!r}")
                if flag != (f._goal.line_id in member):  # noqa: SLF001
                    out.fail(f"{name}|line-goal|is_covered-differs-from-recount", f"{kind}: {f}: {flag}")

        tc_fit = ff.BranchDistanceTestCaseFitnessFunction(executor, 0)
        wrapped("BranchDistanceTestCaseFitnessFunction", kind, tc_fit, tc_fit, ff.TestCaseBranchCoverageFunction(executor), chrom,
                _model_branch_all_covered(ref, reg, set(), set(), set()), _model_branch_coverage(ref, reg))
        lc = ff.TestCaseLineCoverageFunction(executor).compute_coverage(chrom)
        if _bad_coverage(lc) or lc != _frac(len(ref.lines), nlines):
            out.fail("TestCaseLineCoverageFunction|coverage-differs-from-recount|-", f"{kind}: {lc!r} vs {len(ref.lines)}/{nlines}")
        cc = ff.TestCaseStatementCheckedCoverageFunction(executor).compute_coverage(chrom)
        if _bad_coverage(cc) or cc != _frac(len(ref.checked), nlines):
            out.fail("TestCaseStatementCheckedCoverageFunction|coverage-differs-from-recount|-", f"{kind}: {cc!r}")

        pure_checks("test", kind, trace, ref, (set(), set(), set()))
        if xc or xt or xf:
            pure_checks("test", kind, trace, ref, (xc, xt, xf))

    # ---- the suite of all traces
    suite = T.suite_of([t for _, t, _ in entries])
    sref = T.ref_merge([r for _, _, r in entries])
    sfull = sum(1 for p in reg.pred_ids if _true_cov(sref, p) and _false_cov(sref, p))
    spart = sum(1 for p in reg.pred_ids if _true_cov(sref, p) != _false_cov(sref, p))
    nontrivial |= sfull >= 1 and spart >= 1
    merged = fm.analyze_results([c.get_last_execution_result() for c in suite.test_case_chromosomes])
    pure_checks("suite", "merged", merged, sref, (set(), set(), set()))
    if xc or xt or xf:
        pure_checks("suite", "merged", merged, sref, (xc, xt, xf))

    s_fit = ff.BranchDistanceTestSuiteFitnessFunction(executor)
    wrapped("BranchDistanceTestSuiteFitnessFunction|noexcl", "suite", s_fit, s_fit, ff.TestSuiteBranchCoverageFunction(executor), suite,
            _model_branch_all_covered(sref, reg, set(), set(), set()), _model_branch_coverage(sref, reg))
    if xc or xt or xf:
        r_fit = ff.BranchDistanceTestSuiteFitnessFunction(executor)
        r_fit.restrict(set(xc), set(xt), set(xf))
        wrapped("BranchDistanceTestSuiteFitnessFunction|excl", "suite", r_fit, r_fit, None, suite,
                _model_branch_all_covered(sref, reg, xc, xt, xf), None)
        out.labels.append("class:exclusions")
    l_fit = ff.LineTestSuiteFitnessFunction(executor)
    wrapped("LineTestSuiteFitnessFunction", "suite", l_fit, l_fit, ff.TestSuiteLineCoverageFunction(executor), suite,
            len(sref.lines) == nlines, _frac(len(sref.lines), nlines))
    c_fit = ff.StatementCheckedTestSuiteFitnessFunction(executor)
    wrapped("StatementCheckedTestSuiteFitnessFunction", "suite", c_fit, c_fit, ff.TestSuiteStatementCheckedCoverageFunction(executor),
            suite, len(sref.checked) == nlines, _frac(len(sref.checked), nlines))

    if executor.executed:
        out.fail("harness|stub-executor-was-asked-to-execute|-", "a cached last execution result was ignored")
    out.nontrivial = nontrivial
    out.key = [reg.source, case["reg"]["metrics"], case["reg"]["module"], keys, sorted(xc), sorted(xt), sorted(xf)]
    out.labels.append("mode:module" if case["reg"]["module"] else "mode:functions")
    out.labels.append("metrics:" + "+".join(case["reg"]["metrics"]))
    out.labels += [f"tpl:{T.POOL[f[0] % len(T.POOL)][0]}" for f in case["reg"]["funcs"]]
    out.evaluations = len(entries) + 1
    return out
