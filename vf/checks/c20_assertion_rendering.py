"""C20 — rendered assertions are valid Python and hold for the observed value.

A case is a value *recipe* plus the way the module under test hands it to the test (``direct``: the statement binds the
value itself; ``field``: it binds a SUT object whose public field holds the value).  The real decision procedure —
``RemoteAssertionTraceObserver._handle`` (→ ``_check_reference`` → ``_check_value`` → ``is_assertable``) — is run on a
namespace holding the value; every assertion object it records for the variable is rendered with the real
``assertion_to_cst``, compiled, and executed against a **fresh copy** of the value in a namespace that mirrors the
exported test file (``pytest``, the module alias, ``from <sut> import <public names>``).

Oracle: rendering does not raise; the source compiles; executing the ``assert`` does not raise.
"""

from __future__ import annotations

import importlib
from typing import Any

from hypothesis import strategies as st

from vf.core import Outcome, exc_detail, exc_sig
from vf.gen import values as V

PROPERTY = "C20"
SUT = "vf.corpus.c20_sut"
META = {
    "title": "Rendered assertions are valid Python and hold for the observed value",
    "technique": "property-based testing: Hypothesis-drawn value recipes -> real assertion decision procedure -> real renderer -> "
                 "compile + execute against a fresh copy in a namespace mirroring the exported test file",
    "design_ref": "DESIGN.md §3 C20",
    "rule": "case = value recipe (ints incl. huge, bools, None, str/bytes with arbitrary code points, complex, all floats incl. -0.0/"
            "inf/NaN/subnormal, enum members of top-level/nested/private/foreign/flag enums, list/tuple/set/dict nested to depth 5, "
            "non-assertable objects: SUT instances, local/nested classes, sized objects, Decimal/Fraction, frozenset, bytearray, "
            "iterators) x binding (direct | field of a SUT object | field of a nested object); plus two-statement histories (observe, grow an inner/outer container "
            "of the same live object in place, observe again; each position judged against a fresh reconstruction of the state at "
            "that position); non-trivial = at least one assertion "
            "was produced and executed; distinct by (recipe, binding)",
    "assumptions": ["the exported namespace is: pytest, sys, <alias> = the SUT module, every public name of dir(SUT module) "
                    "(TestSuiteWriter.write_test_suite / _per_statement_exceptions)",
                    "assertions on static fields of the corpus module itself are produced too but only those whose source starts "
                    "with the bound variable are judged",
                    "ints with more than 4000 digits are outside the domain"],
    "level_text": "Generated values through the real assertion generation and rendering code, executed like the exported file. "
                  "Exploration, not proof.",
    "level_note": "Trusted: CPython compile/exec, pytest.approx; the corpus module vf/corpus/c20_sut.py.",
}
PLAN = {
    "quick": {"shards": 16, "examples": 12000},
    "thorough": {"shards": 16, "examples": 400000, "timeout": 3000},
}

ENUM_MEMBERS = {"Color": ["RED", "GREEN", "BLUE", "CRIMSON"], "Level": ["LOW", "HIGH"], "Perm": ["R", "W", "X"], "Mode": ["A", "B"],
                "Outer.Inner": ["ON", "OFF"], "_Hidden": ["SECRET"], "HTTPStatus": ["OK", "NOT_FOUND"],
                "re.RegexFlag": ["IGNORECASE", "MULTILINE"]}


# ------------------------------------------------------------------------------------------- SUT-specific recipes
def _build_sut(r: dict[str, Any], mat) -> Any:
    mod = importlib.import_module(SUT)
    what = r["what"]
    if what == "enum":
        return mod._ENUM_CLASSES[r["cls"]][r["member"]]
    if what == "flags":  # a composite flag value
        cls = mod._ENUM_CLASSES[r["cls"]]
        out = cls(0)
        for m in r["members"]:
            out |= cls[m]
        return out
    if what == "holder":
        return mod.Holder(mat(r["payload"]))
    if what == "pair":
        return mod.Pair(mat(r["first"]), mat(r["second"]))
    if what == "box":
        return mod.Box(r["n"])
    if what == "nested":
        return mod.Outer.Nested()
    if what == "local":
        return mod.make_local()
    raise ValueError(what)


V.EXTRA_KINDS["sut"] = _build_sut


def _enums() -> st.SearchStrategy:
    member = st.sampled_from([(c, m) for c, ms in ENUM_MEMBERS.items() for m in ms]).map(
        lambda t: {"k": "sut", "what": "enum", "cls": t[0], "member": t[1]})
    flags = st.tuples(st.sampled_from(["Perm", "re.RegexFlag"]), st.integers(0, 3)).map(
        lambda t: {"k": "sut", "what": "flags", "cls": t[0], "members": ENUM_MEMBERS[t[0]][: t[1]] if t[0] != "Perm" else ["R", "W", "X"][: t[1]]})
    return V.choice(member, member, member, flags)


def _assertable_leaf() -> st.SearchStrategy:
    only_bytes = V.bytess().map(lambda r: {"k": "bytes", "hex": r["hex"]})
    return V.choice(V.ints(), V.ints(), V.bools(), V.nones(), V.strs(8), V.strs(8), only_bytes, V.complexes(), V.edge_numbers_of("complex"), _enums(), _enums())


def _leaf() -> st.SearchStrategy:
    return V.choice(_assertable_leaf(), _assertable_leaf(), _assertable_leaf(), V.floats(), V.edge_numbers_of("float"))


def _hashable(depth: int) -> st.SearchStrategy:
    leaf = _leaf()
    if depth <= 0:
        return leaf
    return V.choice(leaf, leaf, st.lists(_hashable(depth - 1), max_size=2).map(lambda xs: {"k": "tuple", "items": xs}))


def _collections(depth: int) -> st.SearchStrategy:
    leaf = _leaf()
    if depth <= 0:
        return leaf
    inner = _collections(depth - 1)
    seq = st.tuples(st.sampled_from(["list", "tuple"]), st.lists(inner, max_size=3)).map(lambda t: {"k": t[0], "items": t[1]})
    sets = st.lists(_hashable(1), max_size=3).map(lambda xs: {"k": "set", "items": xs})
    dicts = st.lists(st.tuples(_hashable(1), inner).map(list), max_size=3).map(lambda xs: {"k": "dict", "items": xs})
    return V.choice(leaf, seq, seq, sets, dicts)


def _non_assertable() -> st.SearchStrategy:
    sut = V.choice(
        st.tuples(_leaf(), _leaf()).map(lambda t: {"k": "sut", "what": "pair", "first": t[0], "second": t[1]}),
        st.integers(0, 5).map(lambda n: {"k": "sut", "what": "box", "n": n}),
        st.just({"k": "sut", "what": "nested"}),
        st.just({"k": "sut", "what": "local"}),
    )
    other = V.choice(V.decimals(), V.fractions_(), st.just({"k": "plain"}), st.just({"k": "func", "name": "len"}),
                     st.just({"k": "type", "name": "int"}), V.ranges(),
                     st.lists(V.ints(), max_size=3).map(lambda xs: {"k": "frozenset", "items": xs}),
                     V.bytess().map(lambda r: {"k": "bytearray", "hex": r["hex"]}),
                     st.lists(V.ints(), max_size=2).map(lambda xs: {"k": "iter", "items": xs}),
                     st.lists(V.ints(), max_size=2).map(lambda xs: {"k": "gen", "items": xs}))
    return V.choice(sut, sut, other)


def strategy(ctx) -> st.SearchStrategy:
    value = V.choice(_leaf(), _leaf(), V.floats(), _enums(), _collections(2), _collections(3), _collections(5), _non_assertable())
    single = st.tuples(value, st.sampled_from(["direct", "direct", "field", "field", "field", "pair-field"])).map(
        lambda t: {"v": t[0], "binding": t[1]})
    # two-statement histories: observe, mutate a container of the same live object in place, observe again
    small = V.choice(st.integers(0, 3).map(lambda v: {"k": "int", "v": v}), V.strs(2), V.bools(), V.nones(), _enums())
    inner = V.choice(st.lists(small, max_size=3).map(lambda xs: {"k": "list", "items": xs}),
                     st.lists(st.integers(0, 3).map(lambda v: {"k": "int", "v": v}), max_size=3).map(lambda xs: {"k": "set", "items": xs}),
                     st.lists(st.tuples(V.strs(2), small).map(list), max_size=2).map(lambda xs: {"k": "dict", "items": xs}))
    elem = V.choice(inner, inner, small)
    nested = V.choice(st.lists(elem, min_size=1, max_size=3).map(lambda xs: {"k": "list", "items": xs}),
                      st.lists(elem, min_size=1, max_size=3).map(lambda xs: {"k": "tuple", "items": xs}),
                      st.lists(st.tuples(V.strs(2), elem).map(list), min_size=1, max_size=3).map(lambda xs: {"k": "dict", "items": xs}),
                      _collections(3))
    history = st.tuples(nested, st.sampled_from(["field", "field", "pair-field"]), st.sampled_from(["inner", "inner", "inner", "outer"]),
                        st.integers(4, 9)).map(lambda t: {"v": t[0], "binding": t[1], "mut": {"level": t[2], "elem": t[3]}})
    return V.choice(single, single, single, history)


# ------------------------------------------------------------------------------------------- oracle
def _bind(recipe: dict[str, Any], binding: str) -> Any:
    if binding == "direct":
        return V.materialise(recipe)
    if binding == "field":
        return V.materialise({"k": "sut", "what": "holder", "payload": recipe})
    return V.materialise({"k": "sut", "what": "pair", "first": {"k": "int", "v": 1}, "second": recipe})


def _payload(bound: Any, binding: str) -> Any:
    return bound if binding == "direct" else (bound.payload if binding == "field" else bound.second)


def _grow(container: Any, elem: int) -> bool:
    if type(container) is list:
        container.append(elem)
    elif type(container) is set:
        container.add(elem)
    elif type(container) is dict:
        container[f"k{elem}"] = elem
    else:
        return False
    return True


def _mutate_in_place(payload: Any, mut: dict[str, Any]) -> bool:
    """What a later statement of the test may do to the live object: grow one of its containers in place.

    "outer": the field's own container; "inner": the first mutable container nested in it (depth-first, deterministic).
    """
    if mut["level"] == "outer":
        return _grow(payload, mut["elem"])

    def children(x: Any) -> list:
        return list(x.values()) if type(x) is dict else (list(x) if type(x) in (list, tuple) else [])

    stack = children(payload)[::-1]
    while stack:
        x = stack.pop()
        if _grow(x, mut["elem"]):
            return True
        stack.extend(children(x)[::-1])
    return False


def _export_namespace(module: Any, alias: str) -> dict[str, Any]:
    import sys

    import pytest

    ns: dict[str, Any] = {"__builtins__": __builtins__, "pytest": pytest, "sys": sys, alias: module}
    for name in sorted(n for n in dir(module) if not n.startswith("_") and n != alias):
        ns.setdefault(name, getattr(module, name))
    return ns


def _value_class(r: dict[str, Any]) -> str:
    if r["k"] == "sut":
        if r["what"] == "enum":
            return "enum:" + {"Color": "toplevel", "Level": "toplevel", "Mode": "toplevel", "Perm": "toplevel", "Outer.Inner": "nested",
                              "_Hidden": "private", "HTTPStatus": "foreign-public", "re.RegexFlag": "foreign-unimported"}[r["cls"]]
        if r["what"] == "flags":
            return "enum:flag-combination:" + ("empty" if not r["members"] else ("single" if len(r["members"]) == 1 else "multi"))
        return "sut:" + r["what"]
    return V.category(r)


def _live_class(obj: Any) -> str:
    """Class of a live asserted value; a container is named by its most exotic leaf (root-cause bucket, no values)."""
    import enum
    import math

    classes: list[str] = []

    def leaf(x: Any) -> str:
        if isinstance(x, enum.Enum):
            cls = type(x)
            where = ("toplevel" if cls.__module__ == SUT and "." not in cls.__qualname__ and not cls.__name__.startswith("_") else
                     "nested" if cls.__module__ == SUT and "." in cls.__qualname__ else
                     "private" if cls.__module__ == SUT else
                     "foreign-public" if cls.__name__ == "HTTPStatus" else "foreign-unimported")
            mixin = "+int" if isinstance(x, int) else ("+str" if isinstance(x, str) else "")
            named = "" if isinstance(x.name, str) and x.name.isidentifier() else ":pseudo-member"
            return f"enum:{where}{mixin}{named}"
        if isinstance(x, float):
            return "float.nan" if x != x else ("float.inf" if math.isinf(x) else ("float.-0" if x == 0 and math.copysign(1, x) < 0 else "float"))
        if isinstance(x, complex):
            return "complex.nan" if x != x else "complex"
        return type(x).__name__

    def walk(x: Any) -> None:
        if type(x) is dict:
            for k, v in x.items():
                walk(k)
                walk(v)
        elif type(x) in (list, tuple, set, frozenset):
            for y in x:
                walk(y)
        else:
            classes.append(leaf(x))

    walk(obj)
    for prefix in ("enum:", "complex", "float.", "float"):
        hits = sorted(c for c in classes if c.startswith(prefix))
        if hits:
            return hits[0]
    return classes[0] if classes else type(obj).__name__


def _type_class(assertion: Any) -> str:
    if assertion.module == "builtins":
        import builtins

        return "builtin-name" if hasattr(builtins, assertion.qualname) else "builtins-module-type-without-builtin-name"
    if assertion.module == SUT:
        return "sut-local-class" if "<locals>" in assertion.qualname else ("sut-nested-class" if "." in assertion.qualname else "sut-class")
    return "foreign-type"


def evaluate(case: dict[str, Any]) -> Outcome:
    import libcst as cst

    import pynguin.assertion.assertion as ass
    import pynguin.assertion.assertion_to_ast as a2a
    import pynguin.configuration as config
    from pynguin.assertion.assertiontraceobserver import RemoteAssertionTraceObserver
    from pynguin.utils.naming import get_module_alias

    out = Outcome()
    recipe, binding = case["v"], case["binding"]
    module = importlib.import_module(SUT)
    alias = get_module_alias(SUT)
    vclass = _value_class(recipe)
    out.labels += [f"value:{vclass}", f"binding:{binding}"]
    saved = config.configuration.module_name
    config.configuration.module_name = SUT
    try:
        observed = _bind(recipe, binding)
        observer = RemoteAssertionTraceObserver()
        namespace = {alias: module, "var_0": observed}
        try:
            observer._handle("var_0", namespace, 0)
        except Exception as exc:  # noqa: BLE001
            out.fail(f"observe|{vclass}|raises:{exc_sig(exc)}", f"case={case!r}\n{exc_detail(exc)}")
            return out
        mut = case.get("mut")
        mutated = False
        if mut:
            # a later statement mutates the live object in place; the observer looks again (var_0 is on its watch list)
            mutated = _mutate_in_place(_payload(observed, binding), mut)
            namespace["var_1"] = 0
            try:
                observer._handle("var_1", namespace, 1)
            except Exception as exc:  # noqa: BLE001
                out.fail(f"observe|{vclass}|raises:{exc_sig(exc)}", f"case={case!r}\n{exc_detail(exc)}")
                return out
            out.labels.append("history:mutated" if mutated else "history:nothing-to-mutate")

        def state_at(position: int) -> Any:
            """A fresh reconstruction of var_0 as it was when the assertions of ``position`` were observed."""
            fresh = _bind(recipe, binding)
            if position == 1 and mutated:
                _mutate_in_place(_payload(fresh, binding), mut)
            return fresh

        # read only now: an expected value that aliases the live object has silently followed the mutation
        assertions = [(pos, a) for pos in ((0, 1) if mut else (0,)) for a in observer.get_trace().get_assertions(pos)
                      if a.source == "var_0" or a.source.startswith("var_0.")]
        if not assertions:
            out.labels.append("no-assertion")
        executed = 0
        for position, assertion in assertions:
            kind = type(assertion).__name__
            leaf = (_live_class(assertion.object) if isinstance(assertion, ass.ObjectAssertion) else
                    _live_class(assertion.value) if isinstance(assertion, ass.FloatAssertion) else
                    _type_class(assertion) if isinstance(assertion, (ass.IsInstanceAssertion, ass.TypeNameAssertion)) else "-")
            out.labels.append(f"assertion:{kind}")
            try:
                node = a2a.assertion_to_cst(assertion)
                code = cst.Module(body=[node]).code
            except Exception as exc:  # noqa: BLE001
                out.fail(f"render|{kind}|{leaf}|raises:{exc_sig(exc)}", f"case={case!r} assertion={assertion!r}\n{exc_detail(exc)}")
                continue
            try:
                compiled = compile(code, "<assertion>", "exec")
            except (SyntaxError, ValueError) as exc:  # ValueError: NUL bytes / lone surrogates in the source
                out.fail(f"compile|{kind}|{leaf}|invalid-syntax", f"case={case!r} assertion={assertion!r} code={code!r}: {exc}")
                continue
            ns = _export_namespace(module, alias)
            ns["var_0"] = state_at(position)  # a fresh copy, as a re-run of the exported test would produce at that position
            try:
                exec(compiled, ns)  # noqa: S102
                executed += 1
            except AssertionError:
                when = "" if not mutated else ("|recorded-before-later-mutation" if position == 0 else "|after-mutation")
                out.fail(f"execute|{kind}|{leaf}|assertion-fails{when}",
                         f"case={case!r} position={position} code={code!r} fails on a fresh copy of the value at that position")
            except Exception as exc:  # noqa: BLE001
                out.fail(f"execute|{kind}|{leaf}|raises:{type(exc).__name__}", f"case={case!r} code={code!r}: {exc!r}")
        out.nontrivial = executed > 0
        out.key = [recipe, binding, mut]
    finally:
        config.configuration.module_name = saved
    return out
