"""C05 -- tracing keeps recording after an exception inside traced code.

A case is a module of *hazard functions* built in ``vf.gen.pygen``'s model format (rendered with ``pygen.render``).  Every
function ``h<i>(a, b, w)`` contains k hazards -- a comparison of incomparable values, an operator of a user class that
raises (``__lt__``, ``__eq__``, ``__bool__``, ``__contains__``), an attribute whose getter raises -- each wrapped in
``try/except`` by the function itself, and after each hazard a *witness* block (new lines, an ``if``/``else`` and a ``for``
loop, all on variables named ``wit*``).  The module is run

 (a) **directly**: instrumented by the real transformer (``vf.c01_harness._build``: adapters of the drawn metric subset +
     dynamic seeding) and every call performed under ``with tracer:`` on a fresh trace;
 (b) **as a test case**: the module is written to a scratch directory, a ``vf.session.Session`` imports it through the real
     import hook, and the calls become the statements ``var_i = module.h_i(...)`` of one test case that is executed by a
     ``TestCaseExecutor`` (a subclass defined here only *reads* ``tracer.is_disabled()`` at the start of
     ``_before_statement_execution`` and ``_after_statement_execution``); every statement is also executed alone as the
     first statement of a fresh test case.

Oracle.  Ground truth = ``sys.monitoring`` LINE events of the *uninstrumented* module (``vf.oracle.monitor``):
every witness line with a LINE event that pynguin registered as a line goal is reported as covered, every predicate
registered on an executed witness line is reported as executed with an outcome (a zero distance); ``is_disabled()`` is False
after every call in (a); in (b) the state at the end of every statement equals the state at its start, and the coverage
of statement i inside the long test case, restricted to the lines/predicates of its own function, equals its coverage as
first statement of a fresh test case.  See DESIGN.md section 3 C05.
"""

from __future__ import annotations

import os
import shutil
import sys
import tempfile
from typing import Any

from hypothesis import strategies as st

from vf.core import Outcome, h12
from vf.gen import pygen
from vf.gen.pygen import CALL, C, N
from vf.iso import forked

PROPERTY = "C05"
META = {
    "title": "Tracing keeps recording after an exception inside traced code",
    "technique": "property-based testing with generated hazard programs: sys.monitoring ground truth on the witness region + "
                 "metamorphic comparison (statement inside a long test case vs. first statement of a fresh one) through the real "
                 "TestCaseExecutor",
    "design_ref": "DESIGN.md §3 C05",
    "rule": "case = 1..3 hazard functions (pygen model; each 1..3 hazards out of {incomparable comparison, raising user "
            "__lt__/__le__/__eq__/__ne__/__bool__/__contains__/__len__, raising property / missing attribute, __contains__ raising "
            "SystemExit/KeyboardInterrupt (caught with except BaseException), membership in a list/dict subclass whose __iter__ raises, "
            "attribute access on a __slots__ object whose __getattr__ raises KeyError/ValueError}, used in an if, a while, "
            "a boolean operator, a ternary or an assignment, each caught by the function; a witness block with new lines, an if/else "
            "and a for loop follows every hazard) + 2..6 calls with drawn arguments + a metric subset; one evaluation = one call in "
            "direct mode or one statement in test-case mode; non-trivial = the interpreter executed >= 1 exception handler of a hazard "
            "and >= 1 witness line afterwards; distinct by the whole case",
    "assumptions": [
        "only hazards whose original operation raises itself are generated (the tracer raising for operands Python can compare "
        "is C01/C04's subject)",
        "registration completeness is not demanded (C08): only witness lines that pynguin registered as goals must be reported",
        "a test-case execution that times out (machine load) is inconclusive",
    ],
    "level_text": "Generated hazard programs x inputs against the uninstrumented interpreter and against fresh executions; "
                  "exploration, not proof.",
    "level_note": "Trusted: CPython's sys.monitoring LINE events; vf.gen.pygen's renderer; vf.session (replicates generator setup).",
}
PLAN = {
    "quick": {"shards": 16, "examples": 96, "shrink_sigs": 2, "shrink_seconds": 25, "shrink_calls": 40, "timeout": 3000},
    "thorough": {"shards": 16, "examples": 6000, "timeout": 3300, "shrink_sigs": 4, "shrink_seconds": 150, "shrink_calls": 400},
}
CHILD_TIMEOUT = 240.0
METRIC_SETS = [["BRANCH", "LINE"], ["BRANCH", "LINE"], ["BRANCH"], ["LINE"], ["BRANCH", "CHECKED", "LINE"], ["CHECKED"],
               ["CHECKED", "LINE"]]

# hazard kind -> (class name or None, dunder/attribute, raised exception)
USER_CLASSES = {
    "RLt": ("__lt__", "ValueError"), "RLe": ("__le__", "RuntimeError"), "REq": ("__eq__", "ValueError"),
    "RNe": ("__ne__", "ZeroDivisionError"), "RBool": ("__bool__", "ValueError"), "RIn": ("__contains__", "RuntimeError"),
    "RLen": ("__len__", "ValueError"),
}
HAZARDS = ["cmp-lt", "cmp-le", "cmp-gt", "cmp-ge", "user-lt", "user-le", "user-eq", "user-ne", "user-bool", "user-not", "user-in",
           "user-len", "attr-prop", "attr-missing", "call-raises",
           # the tracer's own evaluation leaves through an exception that is not an ``Exception`` / that only the tracer provokes
           "base-exit", "base-kbd", "base-exit", "base-kbd", "iter-list", "iter-dict",
           # CHECKED: attribute access on a __slots__ object whose __getattr__ raises something else than AttributeError
           "slot-key", "slot-value", "slot-key", "slot-value"]

# classes that pygen's class model cannot express (base classes, class attributes); appended verbatim to the rendered module
EXTRA_SOURCE = '''\
class RExit:
    def __contains__(self, o):
        raise SystemExit("contains")
class RKbd:
    def __contains__(self, o):
        raise KeyboardInterrupt("contains")
class RIterL(list):
    def __iter__(self):
        raise RuntimeError("iter")
class RIterD(dict):
    def __iter__(self):
        raise RuntimeError("iter")
class RSlotK:
    __slots__ = ("n",)
    def __init__(self, n):
        self.n = n
    def __getattr__(self, name):
        raise KeyError(name)
class RSlotV:
    __slots__ = ("n",)
    def __init__(self, n):
        self.n = n
    def __getattr__(self, name):
        raise ValueError(name)
'''


def render_module(case: dict) -> str:
    return pygen.render(build_model(case)) + EXTRA_SOURCE
FORMS = ["if", "while", "boolop", "ternary", "assign"]


# ------------------------------------------------------------------------------------------ generator
def strategy(ctx) -> st.SearchStrategy:
    hazard = st.fixed_dictionaries({"kind": st.sampled_from(HAZARDS), "form": st.sampled_from(FORMS),
                                    "broad": st.booleans(), "thr": st.integers(0, 6)})
    func = st.lists(hazard, min_size=1, max_size=3)
    arg = st.sampled_from([1, 0, 3, "a", "", None, 2.5, [1], True])
    call = st.fixed_dictionaries({"f": st.integers(0, 2), "a": arg, "b": arg, "w": st.integers(0, 9)})
    return st.fixed_dictionaries({"funcs": st.lists(func, min_size=1, max_size=3), "calls": st.lists(call, min_size=2, max_size=6),
                                  "metrics": st.sampled_from(METRIC_SETS)})


# ------------------------------------------------------------------------------------------ program model
def _cmp(op: str, left: dict, right: dict) -> dict:
    return {"k": "cmp", "ops": [op], "es": [left, right]}


def _hazard_expr(kind: str) -> tuple[dict, str]:
    """(boolean-ish expression that raises when the operands are incomparable / always for user classes, exception name)."""
    a, b = N("a"), N("b")
    if kind.startswith("cmp-"):
        return _cmp({"lt": "<", "le": "<=", "gt": ">", "ge": ">="}[kind[4:]], a, b), "TypeError"
    if kind == "user-lt":
        return _cmp("<", CALL("RLt", C(1)), b), "ValueError"
    if kind == "user-le":
        return _cmp("<=", CALL("RLe", C(1)), b), "RuntimeError"
    if kind == "user-eq":
        return _cmp("==", CALL("REq", C(1)), b), "ValueError"
    if kind == "user-ne":
        return _cmp("!=", a, CALL("RNe", C(2))), "ZeroDivisionError"
    if kind == "user-bool":
        return CALL("RBool", C(1)), "ValueError"
    if kind == "user-not":
        return {"k": "un", "op": "not", "e": CALL("RBool", C(0))}, "ValueError"
    if kind == "user-in":
        return _cmp("in", a, CALL("RIn", C(1))), "RuntimeError"
    if kind == "user-len":
        return CALL("RLen", C(1)), "ValueError"
    if kind == "attr-prop":
        return {"k": "attr", "o": CALL("RAttr", C(1)), "a": "v"}, "ValueError"
    if kind == "attr-missing":
        return {"k": "attr", "o": CALL("RAttr", C(1)), "a": "missing"}, "AttributeError"
    if kind == "base-exit":
        return _cmp("in", a, CALL("RExit")), "SystemExit"
    if kind == "base-kbd":
        return _cmp("not in", a, CALL("RKbd")), "KeyboardInterrupt"
    if kind == "iter-list":  # list.__contains__ does not iterate: only a tracer that inspects the elements provokes __iter__
        return _cmp("in", a, CALL("RIterL")), "RuntimeError"
    if kind == "iter-dict":
        return _cmp("not in", a, CALL("RIterD")), "RuntimeError"
    if kind == "slot-key":
        return {"k": "attr", "o": CALL("RSlotK", C(1)), "a": "missing"}, "KeyError"
    if kind == "slot-value":
        return {"k": "attr", "o": CALL("RSlotV", C(1)), "a": "other"}, "ValueError"
    if kind == "call-raises":
        return _cmp(">", CALL("boom", a), C(1)), "KeyError"
    raise ValueError(kind)


def _witness(j: int, thr: int) -> list[dict]:
    wit = f"wit{j}"
    inc = lambda v: {"k": "assign", "t": N("wit_r"), "v": {"k": "bin", "op": "+", "l": N("wit_r"), "r": v}}  # noqa: E731
    return [
        {"k": "assign", "t": N(wit), "v": {"k": "bin", "op": "+", "l": N("w"), "r": C(j)}},
        {"k": "if", "c": _cmp(">", N(wit), C(thr)), "body": [inc(C(1))], "elifs": [], "else": [inc(C(2))]},
        {"k": "for", "var": f"wit_i{j}", "it": CALL("range", {"k": "bin", "op": "%", "l": N(wit), "r": C(3)}), "src": "range",
         "body": [inc(N(f"wit_i{j}"))], "else": None},
    ]


def _hazard_stmts(j: int, hz: dict) -> list[dict]:
    expr, exc = _hazard_expr(hz["kind"])
    mark = lambda n: {"k": "assign", "t": N(f"hz{j}"), "v": C(n)}  # noqa: E731
    form = hz["form"]
    if form == "if":
        body: list[dict] = [{"k": "if", "c": expr, "body": [mark(1)], "elifs": [], "else": [mark(2)]}]
    elif form == "while":
        body = [{"k": "while", "fuel": f"_f{j}", "n": 2, "form": "cond", "c": expr, "body": [mark(1)], "else": None}]
    elif form == "boolop":
        body = [{"k": "if", "c": {"k": "bool", "op": "or", "es": [_cmp(">", N("w"), C(100)), expr]}, "body": [mark(1)], "elifs": [],
                 "else": None}]
    elif form == "ternary":
        body = [{"k": "assign", "t": N(f"hz{j}"), "v": {"k": "ife", "c": expr, "t": C(1), "f": C(2)}}]
    else:
        body = [{"k": "assign", "t": N(f"hz{j}"), "v": expr}]
    broad = "BaseException" if hz["kind"].startswith("base-") else "Exception"
    handler = {"exc": [broad] if hz["broad"] or hz["kind"].startswith("base-") else [exc], "as": None, "body": [{"k": "assign", "t": N(f"caught{j}"), "v": C(1)}]}
    return [{"k": "try", "body": body, "handlers": [handler], "else": None, "final": None}]


def _raising_method(name: str, exc: str, kind: str = "method") -> dict:
    params = [] if kind == "prop" or name in ("__bool__", "__len__") else [{"name": "o", "t": "int"}]
    return {"name": name, "kind": kind, "params": params, "ret": "bool", "gw": [], "body": [{"k": "raise", "exc": exc, "msg": name}]}


def build_model(case: dict[str, Any]) -> dict[str, Any]:
    classes = [{"name": cname, "fields": [{"name": "n", "t": "int"}], "methods": [_raising_method(dunder, exc)], "props": []}
               for cname, (dunder, exc) in USER_CLASSES.items()]
    classes.append({"name": "RAttr", "fields": [{"name": "n", "t": "int"}], "methods": [],
                    "props": [_raising_method("v", "ValueError", "prop")]})
    funcs = [{"name": "boom", "kind": "func", "params": [{"name": "x", "t": "int"}], "ret": "int", "gw": [],
              "body": [{"k": "raise", "exc": "KeyError", "msg": "boom"}]}]
    for i, hazards in enumerate(case["funcs"]):
        body: list[dict] = [{"k": "assign", "t": N("wit_r"), "v": C(0)}]
        for j, hz in enumerate(hazards):
            body += _hazard_stmts(j, hz)
            body += _witness(j, hz["thr"])
        body.append({"k": "ret", "v": N("wit_r")})
        funcs.append({"name": f"h{i}", "kind": "func", "params": [{"name": p, "t": "int"} for p in ("a", "b", "w")], "ret": "int",
                      "gw": [], "body": body})
    return {"globals": [], "ctx": False, "gens": [], "classes": classes, "funcs": funcs, "top": []}


def _recipe(v: Any) -> dict[str, Any]:
    if v is None:
        return {"t": "none"}
    if isinstance(v, bool):
        return {"t": "bool", "v": v}
    if isinstance(v, int):
        return {"t": "int", "v": v}
    if isinstance(v, float):
        return {"t": "float", "v": v}
    if isinstance(v, str):
        return {"t": "str", "v": v}
    return {"t": "list", "v": [_recipe(x) for x in v]}


# ------------------------------------------------------------------------------------------ child
def _regions(src: str, nfuncs: int) -> dict[str, dict[str, Any]]:
    """Per hazard function: its line range, witness lines, handler lines (``caught<j> = 1``)."""
    lines = src.splitlines()
    out: dict[str, dict[str, Any]] = {}
    starts = {}
    for no, text in enumerate(lines, 1):
        if text.startswith("def h"):
            starts[text[4:text.index("(")]] = no
    names = [f"h{i}" for i in range(nfuncs)]
    for name in names:
        lo = starts[name]
        hi = lo
        while hi < len(lines) and lines[hi].startswith(" "):  # the body = the indented lines that follow the def line
            hi += 1
        rng = range(lo + 1, hi + 1)
        out[name] = {"lo": lo, "hi": hi, "witness": {n for n in rng if "wit" in lines[n - 1]},
                     "handlers": {n for n in rng if lines[n - 1].strip().startswith("caught")}}
    return out


def _trace_view(sp: Any, trace: Any, path: str, metrics: list[str]) -> dict[str, Any]:
    """What pynguin reports for one execution: lines (LINE: covered line goals; CHECKED without LINE: lines of the recorded
    instructions, which is what checked coverage is sliced from) and predicates."""
    lines = set()
    if "LINE" in metrics:
        for lid in trace.covered_line_ids:
            meta = sp.existing_lines.get(lid)
            if meta is not None and meta.file_name == path and isinstance(meta.line_number, int):
                lines.add(meta.line_number)
    elif "CHECKED" in metrics:
        lines = {ins.lineno for ins in trace.executed_instructions if ins.file == path and isinstance(ins.lineno, int)}
    preds = {}
    for pid, meta in sp.existing_predicates.items():
        if pid in trace.executed_predicates or pid in trace.true_distances or pid in trace.false_distances:
            preds[pid] = [meta.line_no, trace.true_distances.get(pid) == 0.0, trace.false_distances.get(pid) == 0.0,
                          pid in trace.executed_predicates]
    return {"lines": lines, "preds": preds, "has_lines": "LINE" in metrics or "CHECKED" in metrics}


def _check_window(res: dict[str, Any], mode: str, sp: Any, view: dict[str, Any], path: str, region: dict[str, Any], truth_lines: set[int],
                  after: str, src: str) -> None:
    """Ground-truth oracle on the witness region of one call / statement."""
    coverable = {m.line_number for m in sp.existing_lines.values() if m.file_name == path and isinstance(m.line_number, int)}
    executed_witness = truth_lines & region["witness"]
    if view["has_lines"]:
        missing = sorted((executed_witness & coverable) - view["lines"])
        if missing:
            res["failures"].append([f"{mode}|witness-line-not-reported|after:{_coarse(after)}",
                                    f"lines {missing} were executed by the interpreter after a caught hazard and are line goals, but "
                                    f"are not reported (covered_line_ids / executed_instructions)\n{_numbered(src, missing[0])}"])
    by_line: dict[int, list[int]] = {}
    for pid, meta in sp.existing_predicates.items():
        if isinstance(meta.line_no, int):
            by_line.setdefault(meta.line_no, []).append(pid)
    for ln in sorted(executed_witness):
        for pid in by_line.get(ln, []):
            rec = view["preds"].get(pid)
            if rec is None or not rec[3] or not (rec[1] or rec[2]):  # executed, and some outcome recorded as taken
                res["failures"].append([f"{mode}|witness-branch-not-reported|after:{_coarse(after)}",
                                        f"predicate {pid} on executed witness line {ln}: reported {rec}\n{_numbered(src, ln)}"])
                break


def _numbered(src: str, focus: int) -> str:
    lines = src.splitlines()
    lo, hi = max(1, focus - 14), min(len(lines), focus + 4)
    return "\n".join(f"{'>>' if i == focus else '  '}{i:4d} {lines[i - 1]}" for i in range(lo, hi + 1))


def _first_caught(case: dict[str, Any], fidx: int, region: dict[str, Any], truth_lines: set[int], src: str) -> str:
    """Kind of the first hazard of the function whose handler ran (for signatures)."""
    hit = sorted(truth_lines & region["handlers"])
    if not hit:
        return "none"
    text = src.splitlines()[hit[0] - 1].strip()
    j = int(text[len("caught"):text.index(" ")])
    hz = case["funcs"][fidx][j]
    return f"{hz['kind']}/{hz['form']}"


def _coarse(after: str) -> str:
    """Hazard class for signatures: cmp | user | attr | call | none (kind and syntactic form only go into the labels)."""
    return after.split("-", 1)[0].split("/", 1)[0]


def _child(case: dict[str, Any], scratch: str) -> dict[str, Any]:  # noqa: C901, PLR0912, PLR0915
    from pynguin.instrumentation.tracer import SubjectProperties

    from vf.c01_harness import _build
    from vf.oracle.monitor import Monitor, all_code_objects

    res: dict[str, Any] = {"failures": [], "labels": [], "nontrivial": False, "evaluations": 0, "inconclusive": None}
    model = build_model(case)
    src = render_module(case)
    nfuncs = len(case["funcs"])
    calls = [dict(c, f=c["f"] % nfuncs) for c in case["calls"]]
    modname = "vfsut_c05_" + h12(case)
    workdir = tempfile.mkdtemp(prefix="c05_", dir=scratch)
    path = os.path.join(workdir, modname + ".py")
    with open(path, "w") as fh:
        fh.write(src)
    regions = _regions(src, nfuncs)
    try:
        code = compile(src, path, "exec")
        codes = all_code_objects(code)
        # ---- ground truth: LINE events of the uninstrumented module, per call
        ns: dict[str, Any] = {"__name__": modname}
        exec(code, ns)  # noqa: S102
        truth: list[set[int]] = []
        outcomes: list[str] = []
        with Monitor(codes, instructions=False) as mon:
            for c in calls:
                with mon.window() as w:
                    kind, value = pygen.invoke(ns, {"target": f"h{c['f']}", "args": [_recipe(c["a"]), _recipe(c["b"]), _recipe(c["w"])]})
                truth.append(w.lines_lo())
                outcomes.append("ok:" + repr(value) if kind == "ok" else "exc:" + type(value).__name__)
        afters = []
        for c, lines in zip(calls, truth):
            region = regions[f"h{c['f']}"]
            after = _first_caught(case, c["f"], region, lines, src)
            afters.append(after)
            if after != "none":
                res["labels"].append("caught:" + after)
                hit = min(lines & region["handlers"])
                if any(n > hit for n in lines & region["witness"]):
                    res["nontrivial"] = True
        metrics = case["metrics"]
        res["labels"].append("metrics:" + "+".join(metrics))

        # ---- (a) directly under the tracer
        sp = SubjectProperties()
        tracer = sp.instrumentation_tracer
        icode = _build(sp, metrics).instrument_code(code, modname)
        ins: dict[str, Any] = {"__name__": modname}
        with tracer:
            exec(icode, ins)  # noqa: S102
        for idx, c in enumerate(calls):
            tracer.enable()
            tracer.reset()
            with tracer:
                kind, value = pygen.invoke(ins, {"target": f"h{c['f']}", "args": [_recipe(c["a"]), _recipe(c["b"]), _recipe(c["w"])]})
            got = "ok:" + repr(value) if kind == "ok" else "exc:" + type(value).__name__
            res["evaluations"] += 1
            if got != outcomes[idx]:
                res["labels"].append("excluded:behaviour-diverged")  # C01's subject
                continue
            if tracer.is_disabled():
                res["failures"].append([f"direct|tracer-left-disabled|after:{_coarse(afters[idx])}",
                                        f"is_disabled() is True after h{c['f']}({c['a']!r}, {c['b']!r}, {c['w']!r}) returned {got}\n"
                                        f"{_numbered(src, regions['h' + str(c['f'])]['lo'] + 3)}"])
            view = _trace_view(sp, tracer.get_trace(), path, metrics)
            _check_window(res, "direct", sp, view, path, regions[f"h{c['f']}"], truth[idx], afters[idx], src)

        # ---- (b) as statements of a real test case
        _session_part(case, calls, res, workdir, modname, path, src, regions, truth, afters, outcomes)
        return res
    finally:
        sys.modules.pop(modname, None)
        shutil.rmtree(workdir, ignore_errors=True)


def _session_part(case: dict[str, Any], calls: list[dict[str, Any]], res: dict[str, Any], workdir: str, modname: str, path: str,  # noqa: PLR0917
                  src: str, regions: dict[str, Any], truth: list[set[int]], afters: list[str], outcomes: list[str]) -> None:
    from pynguin.testcase.execution import TestCaseExecutor

    from vf.session import Session

    class ProbeExecutor(TestCaseExecutor):
        """Only reads the tracer's enabled state at the statement boundaries."""

        def __init__(self, *args: Any, **kwargs: Any) -> None:
            super().__init__(*args, **kwargs)
            self.before: list[bool] = []
            self.after: list[bool] = []

        def _before_statement_execution(self, statement, namespace):  # noqa: ANN001, ANN202
            self.before.append(self._subject_properties.instrumentation_tracer.is_disabled())
            return super()._before_statement_execution(statement, namespace)

        def _after_statement_execution(self, statement, namespace, exception):  # noqa: ANN001, ANN202
            self.after.append(self._subject_properties.instrumentation_tracer.is_disabled())
            super()._after_statement_execution(statement, namespace, exception)

    steps = [{"fn": f"h{c['f']}", "args": [c["a"], c["b"], c["w"]]} for c in calls]
    with Session(workdir, modname, algorithm="MOSA", coverage_metrics=tuple(case["metrics"]), instantiate=False, scratch=workdir,
                 overrides={"stopping.maximum_test_execution_timeout": 120, "stopping.test_execution_time_per_statement": 30}) as s:
        sp = s.subject_properties

        def run(step_list: list[dict[str, Any]]) -> tuple[Any, Any]:
            ex = ProbeExecutor(subject_properties=sp, maximum_test_execution_timeout=120, test_execution_time_per_statement=30)
            result = ex.execute(s.build_test_case_from_calls(step_list))
            return ex, result

        ex, result = run(steps)
        if result.timeout:
            res["inconclusive"] = "test-case-timeout"
            return
        if result.exceptions:
            res["labels"].append("excluded:statement-raised")
            return
        view = _trace_view(sp, result.execution_trace, path, case["metrics"])
        for idx, c in enumerate(calls):
            res["evaluations"] += 1
            region = regions[f"h{c['f']}"]
            if idx < len(ex.before) and idx < len(ex.after) and ex.before[idx] != ex.after[idx]:
                res["failures"].append([f"testcase|enabled-state-changed-by-statement|after:{_coarse(afters[idx])}",
                                        f"statement {idx} (h{c['f']}({c['a']!r}, {c['b']!r}, {c['w']!r})): tracer disabled at start = "
                                        f"{ex.before[idx]}, at end = {ex.after[idx]}\n{_numbered(src, region['lo'] + 3)}"])
            elif idx < len(ex.before) and ex.before[idx]:
                res["labels"].append("statement-started-with-disabled-tracer")
        # ground truth on the union of the statements (every function's witness region separately)
        for fname, region in regions.items():
            lines_truth: set[int] = set()
            first_after = "none"
            for idx, c in enumerate(calls):
                if f"h{c['f']}" == fname:
                    lines_truth |= truth[idx]
                    if first_after == "none":
                        first_after = afters[idx]
            if lines_truth:
                _check_window(res, "testcase", sp, view, path, region, lines_truth, first_after, src)
        # metamorphic: statement i within the long test case vs. alone in a fresh test case
        seen_funcs: set[str] = set()
        for idx, c in enumerate(calls):
            fname = f"h{c['f']}"
            if idx == 0 or fname in seen_funcs or any(f"h{d['f']}" == fname for d in calls[idx + 1:]):
                seen_funcs.add(fname)
                continue  # the function's region must be touched by exactly this statement
            seen_funcs.add(fname)
            ex1, r1 = run([steps[idx]])
            if r1.timeout or r1.exceptions:
                continue
            res["evaluations"] += 1
            alone = _trace_view(sp, r1.execution_trace, path, case["metrics"])
            region = regions[fname]
            rng = range(region["lo"], region["hi"] + 1)
            in_long = {n for n in view["lines"] if n in rng}
            in_alone = {n for n in alone["lines"] if n in rng}
            p_long = {pid: rec for pid, rec in view["preds"].items() if isinstance(rec[0], int) and rec[0] in rng}
            p_alone = {pid: rec for pid, rec in alone["preds"].items() if isinstance(rec[0], int) and rec[0] in rng}
            if in_long != in_alone or p_long != p_alone:
                prev = next((a for a in reversed(afters[:idx]) if a != "none"), "none")
                res["failures"].append([f"testcase|statement-coverage-differs-from-fresh-execution|after:{_coarse(prev)}",
                                        f"statement {idx} = {fname}({c['a']!r}, {c['b']!r}, {c['w']!r}): lines only when alone "
                                        f"{sorted(in_alone - in_long)}, only in the long test case {sorted(in_long - in_alone)}; predicates "
                                        f"alone {p_alone} vs long {p_long}\n{_numbered(src, region['lo'] + 3)}"])


# ------------------------------------------------------------------------------------------ parent
def _preload() -> None:
    import bytecode  # noqa: F401
    import libcst  # noqa: F401
    import pynguin.generator  # noqa: F401
    import pynguin.instrumentation.machinery  # noqa: F401
    import pynguin.testcase.execution  # noqa: F401

    import vf.c01_harness  # noqa: F401
    import vf.session  # noqa: F401

    if not getattr(_preload, "_frozen", False):
        # every case runs in a forked child: keep the parent's heap out of the child's garbage collections, otherwise each
        # collection in a child writes to (= copies) every page of the inherited heap
        import gc

        gc.collect()
        gc.freeze()
        _preload._frozen = True  # type: ignore[attr-defined]


def evaluate(case: dict[str, Any]) -> Outcome:
    out = Outcome()
    _preload()
    scratch = os.environ.get("VF_SCRATCH_DIR") or os.environ.get("VERIF_SCRATCH") or tempfile.gettempdir()
    os.makedirs(scratch, exist_ok=True)
    kind, val = forked(lambda: _child(case, scratch), CHILD_TIMEOUT)
    if kind == "signal":
        out.fail("interpreter-crash|signal", f"child killed by signal {val}\n{render_module(case)[:1500]}")
        return out
    if kind in ("timeout", "exit"):
        out.inconclusive = f"child-{kind}"
        return out
    if kind == "exc":
        if val.get("pynguin_frame"):
            out.fail("unexpected-exception|" + val["sig"], val["detail"])
            return out
        raise RuntimeError("harness error in child: " + val["detail"])
    seen = set()
    for sig, detail in val["failures"]:
        if sig not in seen:
            seen.add(sig)
            out.fail(sig, detail)
    out.labels.extend(val["labels"])
    out.nontrivial = bool(val["nontrivial"])
    out.evaluations = max(1, val["evaluations"])
    if val["inconclusive"]:
        out.inconclusive = val["inconclusive"]
    out.sample = {"source": render_module(case)[-1800:], "calls": case["calls"][:3], "metrics": case["metrics"]}
    return out
