"""C19 — generated regression assertions are kept in the exported file.

Each case (forked child): real session on a corpus module -> suite from the real factory (or a short search) ->
`generator._generate_assertions` -> snapshot of (statement source, rendered assertions) per test ->
`generator._minimize` -> `generator._export_chromosome`, exactly as `generator._run` does; the exported file is
parsed with `ast` and compared with the snapshot.
"""

from __future__ import annotations

import ast
from collections import Counter
from functools import lru_cache
from typing import Any

from hypothesis import strategies as st

from vf.core import Outcome

PROPERTY = "C19"
META = {
    "title": "Generated regression assertions are kept in the exported file",
    "technique": "history/program generation: Hypothesis-drawn (module, seeds, suite shape, assertion mode, minimisation configuration) through "
                 "the real assertion-generation -> minimisation -> export pipeline; snapshot-vs-exported-AST containment oracle",
    "design_ref": "DESIGN.md §3 C19",
    "rule": "case = corpus module x 2..5 factory-built tests (sizes 2..9, drawn seeds) or a 2..5-iteration search x assertion mode x "
            "post_process x minimisation strategy/direction; oracle: every exported test function embeds (as a subsequence of statement "
            "sources) into some snapshot test such that each matched statement keeps the multiset of its rendered `assert` lines. "
            "Non-trivial = snapshot has >= 1 asserted statement whose variable is not read by a later statement and that statement "
            "survives; distinct by the whole case",
    "assumptions": ["exception assertions are rendered as pytest.raises/xfail, not as assert statements, and are not part of this oracle",
                    "which snapshot test an exported function stems from is decided existentially (any consistent origin passes)"],
    "level_text": "Generated suites through the real post-processing/export pipeline, exported AST checked against a pre-export snapshot. "
                  "Exploration, not proof.",
    "level_note": "Trusted: vf.session wiring equals generator._run; assertion_to_cst renders the same text in snapshot and export.",
}
PLAN = {
    "quick": {"shards": 16, "examples": 48, "timeout": 1500, "mutation_analysis": False},
    "thorough": {"shards": 16, "examples": 1600, "timeout": 7200, "mutation_analysis": True},
}

STRATS = ["CASE", "SUITE", "COMBINED", "NONE"]


def strategy(ctx):
    from vf.corpus import MODULES

    modes = ["SIMPLE", "SIMPLE", "MUTATION_ANALYSIS"] if ctx.params.get("mutation_analysis") else ["SIMPLE"]

    return st.fixed_dictionaries({
        # vfx_tokens: module-level state consumed by calls, so the exporter's re-execution can raise where the observation did not
        "module": st.sampled_from(MODULES + ["vfx_tokens", "vfx_tokens"]),
        "seed": st.integers(0, 10**6),
        "source": st.sampled_from(["factory", "factory", "search"]),
        "tests": st.lists(st.tuples(st.integers(0, 10**6), st.integers(2, 9)).map(list), min_size=2, max_size=5),
        "iterations": st.integers(2, 5),
        "rebind": st.one_of(st.just([]), st.lists(st.integers(0, 11), min_size=4, max_size=8)),
        "assertion": st.sampled_from(modes),
        "post_process": st.booleans(),
        "strategy": st.sampled_from(STRATS),
        "direction": st.sampled_from(["FORWARD", "BACKWARD"]),
        "no_xfail": st.booleans(),
    })


def _split(node_code: str) -> tuple[str | None, str]:
    """(target, rhs source) of a one-line statement."""
    try:
        tree = ast.parse(node_code.strip())
    except SyntaxError:
        return None, node_code.strip()
    if len(tree.body) == 1 and isinstance(tree.body[0], ast.Assign) and len(tree.body[0].targets) == 1 \
            and isinstance(tree.body[0].targets[0], ast.Name):
        return tree.body[0].targets[0].id, ast.unparse(tree.body[0].value)
    return None, ast.unparse(tree)


def _child(case: dict[str, Any]) -> dict[str, Any]:
    import libcst as cst

    import pynguin.generator as gen
    from pynguin.assertion.assertion_to_ast import assertion_to_cst

    from vf.corpus import CORPUS_DIR
    from vf.session import Session

    overrides = {
        "test_case_output.post_process": case["post_process"],
        "test_case_output.minimization.test_case_minimization_strategy": case["strategy"],
        "test_case_output.minimization.test_case_minimization_direction": case["direction"],
        "test_case_output.no_xfail": case["no_xfail"],
        "test_case_output.format_with_black": False,
        "test_case_output.maximum_mutants": 12,
        "stopping.maximum_test_execution_timeout": 120,
        "stopping.test_execution_time_per_statement": 30,
    }
    with Session(CORPUS_DIR, case["module"], seed=case["seed"], algorithm="MOSA", coverage_metrics=("BRANCH",),
                 assertion_generation=case["assertion"], maximum_iterations=case["iterations"], overrides=overrides) as s:
        import pynguin.configuration as config

        if case["source"] == "search":
            suite = s.algorithm.generate_tests()
        else:
            chroms = [s.chromosome(s.random_test_case(seed, size)) for seed, size in case["tests"]]
            suite = s.suite(chroms)
        if case.get("rebind"):
            # tests that re-bind variable names (hand-written / seeded / LLM tests do; the factory never does)
            from vf.rebind import rebind

            rebound = [s.chromosome(rebind(ch.test_case, case["rebind"])[0]) for ch in suite.test_case_chromosomes]
            cov_functions = list(suite.get_coverage_functions()) if hasattr(suite, "get_coverage_functions") else []
            suite = s.suite(rebound, coverage_functions=cov_functions or list(s.algorithm.test_suite_coverage_functions))
        s.executor.clear_observers()
        s.executor.clear_remote_observers()
        gen._generate_assertions(s.executor, suite, s.cluster)
        snapshot = []
        for ch in suite.test_case_chromosomes:
            entries = []
            for stmt in ch.test_case.statements():
                code = cst.Module(body=[stmt.node]).code.strip()
                asserts = []
                for a in stmt.assertions:
                    node = assertion_to_cst(a)
                    if node is not None:
                        asserts.append(cst.Module(body=[node]).code.strip())
                entries.append([code, asserts])
            snapshot.append(entries)
        try:  # generator._run wraps _minimize in exactly this try/except
            gen._minimize(suite, s.algorithm)
        except Exception:  # noqa: BLE001
            pass
        s.subject_properties.instrumentation_tracer.disable()
        gen._export_chromosome(suite, sut_uses_random=False, subject_properties=s.subject_properties)
        import os

        path = os.path.join(config.configuration.test_case_output.output_path, f"test_{case['module']}.py")
        text = open(path).read() if os.path.exists(path) else None
        return {"snapshot": snapshot, "file": text, "suite_size": suite.size()}


def _flatten(body: list[ast.stmt]) -> list[ast.stmt]:
    out: list[ast.stmt] = []
    for n in body:
        if isinstance(n, ast.With):
            out.extend(_flatten(n.body))
        else:
            out.append(n)
    return out


def _post_entries(fn: ast.FunctionDef) -> list[tuple[str | None, str, list[str]]]:
    entries: list[tuple[str | None, str, list[str]]] = []
    for n in _flatten(fn.body):
        if isinstance(n, ast.Assert):
            if entries:
                entries[-1][2].append(ast.unparse(n))
            continue
        if isinstance(n, ast.Pass):
            continue
        tgt, rhs = _split(ast.unparse(n))
        entries.append((tgt, rhs, []))
    return entries


def _embeds(pre: list[tuple[str | None, str, list[str]]], post: list[tuple[str | None, str, list[str]]]) -> tuple[bool, bool]:
    """(structural embedding exists, embedding with all assertions preserved exists)."""

    def ok_stmt(p, q) -> bool:
        return p[1] == q[1] and (q[0] is None or q[0] == p[0])

    def ok_asserts(p, q) -> bool:
        return not (Counter(p[2]) - Counter(q[2]))

    def search(check_asserts: bool) -> bool:
        @lru_cache(maxsize=None)
        def go(i: int, j: int) -> bool:
            if j == len(post):
                return True
            if i == len(pre):
                return False
            if ok_stmt(pre[i], post[j]) and (not check_asserts or ok_asserts(pre[i], post[j])) and go(i + 1, j + 1):
                return True
            return go(i + 1, j)

        return go(0, 0)

    return search(False), search(True)


def _analyse(case: dict[str, Any], res: dict[str, Any], out: Outcome) -> None:
    text = res["file"]
    if text is None:
        if res["suite_size"] > 0:
            out.fail("no-file-exported", f"suite of {res['suite_size']} tests, no file; case={case}")
        return
    try:
        tree = ast.parse(text)
    except SyntaxError as exc:
        out.fail("exported-file-does-not-parse", f"{exc}; case={case}")
        return
    pre_tests = []
    for entries in res["snapshot"]:
        pre = []
        for code, asserts in entries:
            tgt, rhs = _split(code)
            pre.append((tgt, rhs, [ast.unparse(ast.parse(a).body[0]) for a in asserts]))
        pre_tests.append(pre)
    funcs = [n for n in tree.body if isinstance(n, ast.FunctionDef) and n.name.startswith("test_")]
    n_asserted_unread = 0
    for pre in pre_tests:
        for k, (tgt, _rhs, asserts) in enumerate(pre):
            if asserts and tgt and not any(tgt in ast.unparse(ast.parse(r).body[0]) for _t, r, _a in pre[k + 1:]):
                n_asserted_unread += 1
    kept_asserts = 0
    for fn in funcs:
        if fn.name == "test_empty":
            continue
        post = _post_entries(fn)
        kept_asserts += sum(len(p[2]) for p in post)
        structural = preserved = False
        for pre in pre_tests:
            s_ok, a_ok = _embeds(pre, post)
            structural |= s_ok
            preserved |= a_ok
            if preserved:
                break
        if not structural:
            out.inconclusive = "exported function does not embed into any snapshot test (statement texts changed)"
            out.labels.append("unmatched-function")
            continue
        if not preserved:
            missing = _describe_missing(pre_tests, post)
            out.fail(f"assertion-dropped|{case['assertion']}|{_kind(missing)}",
                     f"case={case}\nfunction {fn.name}:\n{ast.unparse(fn)[:700]}\nmissing (for the closest snapshot test): {missing[:6]}")
    out.labels.append(f"assertion-mode:{case['assertion']}")
    out.labels.append(f"post_process:{case['post_process']}|{case['strategy']}")
    if case.get("rebind"):
        out.labels.append("class:rebinds-variable-names")
    if n_asserted_unread:
        out.labels.append("class:asserted-variable-not-read-later")
    out.nontrivial = n_asserted_unread >= 1 and kept_asserts >= 1
    out.sample = {"case": case, "snapshot_tests": len(pre_tests), "exported_tests": len(funcs),
                  "snapshot_asserts": sum(len(a) for p in pre_tests for _t, _r, a in p), "exported_asserts": kept_asserts}


def _describe_missing(pre_tests, post) -> list[str]:
    best: list[str] | None = None
    for pre in pre_tests:
        s_ok, _ = _embeds(pre, post)
        if not s_ok:
            continue
        # greedy leftmost embedding for the report
        i = 0
        missing: list[str] = []
        for q in post:
            while i < len(pre) and not (pre[i][1] == q[1] and (q[0] is None or q[0] == pre[i][0])):
                i += 1
            if i < len(pre):
                missing += list((Counter(pre[i][2]) - Counter(q[2])).elements())
                i += 1
        if best is None or len(missing) < len(best):
            best = missing
    return best or []


def _kind(missing: list[str]) -> str:
    kinds = set()
    for m in missing:
        if "pytest.approx" in m:
            kinds.add("float")
        elif "isinstance" in m or "__module__" in m:
            kinds.add("type")
        elif "len(" in m:
            kinds.add("length")
        else:
            kinds.add("value")
    return "+".join(sorted(kinds)) or "none"


def evaluate(case: dict[str, Any]) -> Outcome:
    from vf.iso import forked

    out = Outcome()
    kind, val = forked(lambda: _child(case), timeout=600)
    if kind == "ok":
        _analyse(case, val, out)
    elif kind == "timeout":
        out.inconclusive = "pipeline exceeded 600 s"
    elif kind == "exc":
        if val.get("pynguin_frame"):
            out.fail(f"unexpected-exception|{val['sig']}", val["detail"])
        else:
            raise RuntimeError("harness error in child: " + val["detail"])
    else:
        out.fail(f"child-died|{kind}", f"{kind} {val}")
    return out
