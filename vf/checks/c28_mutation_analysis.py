"""C28 — mutation analysis yields genuine mutants and leaves the original intact.

Domain: modules rendered from a Hypothesis-drawn model that is enriched for pynguin's mutation operators
(arithmetic / bit / comparison / boolean operators, constants, slices, f-strings, loops with
break/continue, try/except/raise, decorators, match, classes with inheritance, overriding, hiding
variables and ``super()`` calls) plus small pure-Python stdlib modules (and ``vf.gen.pygen`` modules
when that generator is importable); mutators: ``FirstOrderMutator`` plain / reorder / cap / sampling
seed, ``HighOrderMutator`` with every HOM strategy and order 2..3; drawn operator subsets.

Oracle (independent of the in-place mutate/restore mechanism under test):
  * ``ast.dump`` of the shared tree is the same before and after every complete enumeration and after
    ``mutation_count``;
  * at every yield, replacing in a *pristine* re-parse of the source the node(s) at the tree path(s)
    of ``mutation.node`` by ``mutation.replacement_node`` gives a tree dump-equal to the yielded tree,
    i.e. the mutant differs from the original exactly there (paths are taken from an id->path map
    of the original tree built before the enumeration);
  * sampled / reordered enumerations yield distinct mutants of the full enumeration, as many as
    ``min(cap, total)`` resp. all of them, scheduled round-robin by operator with the loop operators
    last, per-operator quota within one of the proportional share, source order kept per operator,
    and identically for the same sampling seed;
  * ``mutator.mutation_count`` equals the number of mutants the mutator's own uncapped enumeration yields.
"""

from __future__ import annotations

import ast
import importlib
import itertools
import math
import os
import types
from typing import Any

from hypothesis import strategies as st

from vf.core import Outcome

PROPERTY = "C28"
META = {
    "title": "Mutation analysis yields genuine mutants and leaves the original intact",
    "technique": "property-based testing over generated modules x mutator configurations; independent path-replacement oracle on a "
                 "pristine re-parse, multiset/scheduling model for sampling and reordering, recount for mutation_count",
    "design_ref": "DESIGN.md §3 C28",
    "rule": "case = module model (1-5 functions/classes drawn from an operator-enriched grammar, or one small stdlib module, or a "
            "pygen module) + operator subset + 1-3 mutator configurations (reorder, cap in {0,1,k}, sampling seed, HOM strategy x "
            "order 2..3); every yield of every enumeration is one oracle evaluation; non-trivial = the module has >= 10 first-order "
            "mutants from >= 4 operators and at least one non-default configuration was exercised; distinct by the whole case",
    "assumptions": ["ast.dump without attributes is the notion of tree equality (line numbers are not compared)",
                    "within one operator a sampled enumeration keeps the source order of the full enumeration (sorted sample "
                    "indices) and the scheduler is the documented round-robin with OneIteration/ReverseIteration/ZeroIteration "
                    "loops deferred",
                    "HighOrderMutator with RandomHOMStrategy: count and enumeration are compared under the same RNG seed"],
    "level_text": "Every mutant of every enumeration of generated and stdlib modules is re-derived independently on a pristine "
                  "tree; restoration, sampling, scheduling and counting are checked for first- and higher-order mutators. "
                  "Exploration, not proof.",
    "level_note": "Trusted: ast.parse/ast.dump/ast.unparse of CPython; the 40-line path/replace helper.",
}
PLAN = {
    "quick": {"shards": 8, "examples": 72, "size": 22, "stdlib_examples": 1, "shrink_seconds": 15, "shrink_calls": 80, "stdlib": ["bisect", "colorsys", "sched", "fnmatch", "keyword", "graphlib", "bisect", "reprlib"]},
    "thorough": {"shards": 16, "examples": 6000, "size": 34, "stdlib_examples": 6, "timeout": 3000,
                 "stdlib": ["bisect", "colorsys", "heapq", "fnmatch", "sched", "graphlib", "keyword", "reprlib", "shlex", "textwrap",
                            "string", "queue", "copy", "json.encoder", "json.decoder", "base64", "netrc", "numbers", "abc", "glob",
                            "quopri", "stat", "linecache", "getopt", "cmd", "codeop", "contextlib", "operator"]},
}

HOM = ["first_to_last", "each_choice", "between_operators", "random"]
LOOP_OPS = ("OneIterationLoop", "ReverseIterationLoop", "ZeroIterationLoop")

# ------------------------------------------------------------------------------- source generator
BIN = ["+", "-", "*", "/", "//", "%", "**", "&", "|", "^", "<<", ">>"]
UN = ["-", "+", "~", "not "]
CMP = ["<", "<=", ">", ">=", "==", "!=", "is", "is not", "in", "not in"]
NAMES = ["a", "b", "xs", "s", "d", "n"]
STRS = ["", "x", "mutpy", "python", "key", "hello world"]
NUMS = [0, 1, 2, -1, 3, 10, 255, 0.0, 0.5, 1.0, 2.5, 1e10]
EXCS = ["ValueError", "RuntimeError", "KeyError", "TypeError", "Exception"]
DECOS = ["_deco", "_deco2(1)", "staticmethod", "classmethod", "property"]


def _expr(draw, depth: int) -> Any:
    leaf = ["num", "num", "name", "name", "str", "bool", "none"]
    inner = ["bin", "bin", "bin", "un", "cmp", "cmp", "boolop", "boolop", "call", "slice", "slice", "fstr", "ifexp", "lambda",
             "list", "attr", "chain"]
    k = draw(st.sampled_from(leaf if depth <= 0 else leaf + inner + inner))
    i = st.integers(0, 11)
    if k == "num":
        return ["num", draw(st.integers(0, len(NUMS) - 1))]
    if k == "name":
        return ["name", draw(st.integers(0, len(NAMES) - 1))]
    if k == "str":
        return ["str", draw(st.integers(0, len(STRS) - 1))]
    if k == "bool":
        return ["bool", draw(st.booleans())]
    if k == "none":
        return ["none"]
    if k == "bin":
        return ["bin", draw(i), _expr(draw, depth - 1), _expr(draw, depth - 1)]
    if k == "un":
        return ["un", draw(st.integers(0, 3)), _expr(draw, depth - 1)]
    if k == "cmp":
        return ["cmp", draw(st.integers(0, len(CMP) - 1)), _expr(draw, depth - 1), _expr(draw, depth - 1)]
    if k == "chain":
        return ["chain", draw(st.integers(0, 5)), draw(st.integers(0, 5)), _expr(draw, depth - 1), _expr(draw, 0), _expr(draw, 0)]
    if k == "boolop":
        return ["boolop", draw(st.booleans()), [_expr(draw, depth - 1) for _ in range(draw(st.integers(2, 3)))]]
    if k == "call":
        return ["call", draw(st.sampled_from(["len", "g", "print", "log.warning", "str", "a.method"])),
                [_expr(draw, depth - 1) for _ in range(draw(st.integers(0, 2)))]]
    if k == "slice":
        parts = [(_expr(draw, 0) if draw(st.booleans()) else None) for _ in range(3)]
        return ["slice", draw(st.integers(0, len(NAMES) - 1)), parts]
    if k == "fstr":
        parts = []
        for _ in range(draw(st.integers(1, 3))):
            if draw(st.booleans()):
                parts.append(["txt", draw(st.sampled_from(["id=", " ", "v:", "-"]))])
            else:
                parts.append(["val", draw(st.integers(0, len(NAMES) - 1)), draw(st.sampled_from(["", "!r", ":>5", ":{n}", ":>{n}.2f"]))])
        return ["fstr", parts]
    if k == "ifexp":
        return ["ifexp", _expr(draw, depth - 1), _expr(draw, depth - 1), _expr(draw, depth - 1)]
    if k == "lambda":
        return ["lambda", _expr(draw, depth - 1)]
    if k == "list":
        return ["list", draw(st.booleans()), [_expr(draw, depth - 1) for _ in range(draw(st.integers(0, 3)))]]
    return ["attr", draw(st.integers(0, len(NAMES) - 1)), draw(st.sampled_from(["value", "size", "items"]))]


def _const(draw) -> Any:
    k = draw(st.sampled_from(["num", "num", "str", "bool", "none"]))
    if k == "num":
        return ["num", draw(st.integers(0, len(NUMS) - 1))]
    if k == "str":
        return ["str", draw(st.integers(0, len(STRS) - 1))]
    if k == "bool":
        return ["bool", draw(st.booleans())]
    return ["none"]


def _r(e: Any) -> str:  # noqa: C901
    k = e[0]
    if k == "num":
        v = NUMS[e[1] % len(NUMS)]
        return f"({v!r})" if v < 0 else repr(v)
    if k == "name":
        return NAMES[e[1] % len(NAMES)]
    if k == "str":
        return repr(STRS[e[1] % len(STRS)])
    if k == "bool":
        return "True" if e[1] else "False"
    if k == "none":
        return "None"
    if k == "bin":
        return f"({_r(e[2])} {BIN[e[1] % len(BIN)]} {_r(e[3])})"
    if k == "un":
        return f"({UN[e[1] % len(UN)]}{_r(e[2])})"
    if k == "cmp":
        return f"({_r(e[2])} {CMP[e[1] % len(CMP)]} {_r(e[3])})"
    if k == "chain":
        return f"({_r(e[3])} {CMP[e[1] % 6]} {_r(e[4])} {CMP[e[2] % 6]} {_r(e[5])})"
    if k == "boolop":
        return "(" + (" and " if e[1] else " or ").join(_r(x) for x in e[2]) + ")"
    if k == "call":
        return f"{e[1]}({', '.join(_r(x) for x in e[2])})"
    if k == "slice":
        lo, up, stp = [("" if p is None else _r(p)) for p in e[2]]
        return f"{NAMES[e[1] % len(NAMES)]}[{lo}:{up}" + (f":{stp}]" if e[2][2] is not None else "]")
    if k == "fstr":
        out = []
        for p in e[1]:
            if p[0] == "txt":
                out.append(p[1])
            else:
                out.append("{" + NAMES[p[1] % len(NAMES)] + p[2] + "}")
        return 'f"' + "".join(out) + '"'
    if k == "ifexp":
        return f"({_r(e[2])} if {_r(e[1])} else {_r(e[3])})"
    if k == "lambda":
        return f"(lambda q: {_r(e[1])})"
    if k == "list":
        inner = ", ".join(_r(x) for x in e[2])
        return f"[{inner}]" if e[1] else (f"({inner},)" if e[2] else "()")
    if k == "attr":
        return f"{NAMES[e[1] % len(NAMES)]}.{e[2]}"
    raise AssertionError(k)


def _stmts(draw, left: dict, depth: int, loop: bool, min_n: int = 1) -> list:
    out = []
    for _ in range(draw(st.integers(min_n, 3))):
        out.append(_stmt(draw, left, depth, loop))
        if left["n"] <= 0:
            break
    return out


def _stmt(draw, left: dict, depth: int, loop: bool) -> Any:  # noqa: C901
    left["n"] -= 1
    simple = ["assign", "assign", "aug", "aug", "expr", "return", "return", "raise", "raise", "unpack", "pass", "returnnone"]
    if loop:
        simple += ["break", "continue", "break", "continue"]
    compound = ["if", "if", "while", "for", "for", "try", "try", "match", "def"]
    k = draw(st.sampled_from(simple + (compound * 2 if depth > 0 and left["n"] > 0 else [])))
    if k in ("assign", "expr", "return"):
        return {"k": k, "e": _expr(draw, 2)}
    if k == "aug":
        return {"k": k, "op": draw(st.integers(0, 11)), "e": _expr(draw, 1)}
    if k == "raise":
        return {"k": k, "form": draw(st.integers(0, 4)), "exc": draw(st.integers(0, len(EXCS) - 1)), "e": _expr(draw, 1)}
    if k == "unpack":
        return {"k": k, "e": [_expr(draw, 0), _expr(draw, 0)]}
    if k in ("pass", "break", "continue", "returnnone"):
        return {"k": k}
    d = depth - 1
    if k == "if":
        return {"k": k, "t": _expr(draw, 2), "b": _stmts(draw, left, d, loop), "o": _stmts(draw, left, d, loop) if draw(st.booleans()) else []}
    if k == "while":
        return {"k": k, "t": _expr(draw, 2), "b": _stmts(draw, left, d, True)}
    if k == "for":
        return {"k": k, "it": _expr(draw, 1), "b": _stmts(draw, left, d, True), "o": _stmts(draw, left, d, loop) if draw(st.integers(0, 3)) == 0 else []}
    if k == "try":
        hs = []
        for _ in range(draw(st.integers(1, 2))):
            hs.append([draw(st.integers(0, len(EXCS) - 1)), draw(st.booleans()), _stmts(draw, left, d, loop)])
        return {"k": k, "b": _stmts(draw, left, d, loop), "h": hs, "f": _stmts(draw, left, d, loop) if draw(st.integers(0, 3)) == 0 else []}
    if k == "match":
        return {"k": k, "e": _expr(draw, 0), "cases": [[draw(st.integers(0, 4)), _stmts(draw, left, d, loop)] for _ in range(draw(st.integers(1, 3)))]}
    return {"k": "def", "deco": draw(st.lists(st.integers(0, 1), max_size=1)), "b": _stmts(draw, left, d, False, 2)}


def _method(draw, left: dict, name: str, overriding: bool) -> dict:
    body = _stmts(draw, left, 2, False)
    sup = draw(st.sampled_from(["none", "none", "first", "last", "middle"])) if overriding else "none"
    return {"k": "method", "name": name, "deco": draw(st.lists(st.integers(0, 4), max_size=1)) if sup == "none" else [],
            "sig": draw(st.integers(0, 3)), "doc": draw(st.booleans()), "b": body, "super": sup}


@st.composite
def _module(draw, size: int) -> dict:
    left = {"n": draw(st.integers(8, size))}
    items: list = []
    classes: list[int] = []
    for idx in range(draw(st.integers(2, 5))):
        if left["n"] <= 0:
            break
        if draw(st.booleans()) or (idx >= 2 and not classes):
            base = draw(st.sampled_from([None, *classes, *classes, *classes])) if classes else None
            members = []
            base_names = _member_names(items, base)
            for m in range(draw(st.integers(1, 4))):
                mk = draw(st.sampled_from(["method", "method", "var", "unpackvar", "nested"]))
                over = bool(base_names) and draw(st.integers(0, 3)) > 0
                if mk == "method":
                    pool = [n for n in base_names if n.startswith("m")] if over else []
                    name = draw(st.sampled_from(pool)) if pool else f"m{m}"
                    members.append(_method(draw, left, name, bool(pool)))
                elif mk == "var":
                    pool = [n for n in base_names if n.startswith("v")] if over else []
                    members.append({"k": "var", "name": draw(st.sampled_from(pool)) if pool else f"v{m}", "e": _const(draw)})
                elif mk == "unpackvar":
                    pool = [n for n in base_names if n.startswith("v")]
                    n1 = draw(st.sampled_from(pool)) if pool and over else f"v{m}"
                    members.append({"k": "unpackvar", "names": [n1, f"v{m}x"], "e": [_const(draw), _const(draw)]})
                else:
                    members.append({"k": "nested", "name": f"N{m}", "members": [_method(draw, left, "m0", False)]})
            classes.append(len(items))
            items.append({"k": "class", "name": f"K{len(items)}", "base": base, "members": members})
        else:
            items.append({"k": "func", "name": f"f{len(items)}", "deco": draw(st.lists(st.integers(0, 1), max_size=2)),
                          "doc": draw(st.booleans()), "b": _stmts(draw, left, 3, False, 2)})
    return {"kind": "gen", "items": items}


def _member_names(items: list, base: int | None) -> list[str]:
    names: list[str] = []
    while base is not None:
        for m in items[base]["members"]:
            if m["k"] in ("method", "var"):
                names.append(m["name"])
            elif m["k"] == "unpackvar":
                names.extend(m["names"])
        base = items[base]["base"]
    return sorted(set(names))


PRELUDE = '''"""Generated module (never executed beyond its definitions)."""
import functools


def _deco(fn):
    @functools.wraps(fn)
    def wrapper(*args, **kwargs):
        return fn(*args, **kwargs)
    return wrapper


def _deco2(k):
    return _deco
'''


class _Src:
    def __init__(self) -> None:
        self.lines: list[str] = PRELUDE.splitlines()
        self.n = 0

    def emit(self, ind: int, text: str) -> None:
        self.lines.append("    " * ind + text)

    def block(self, stmts: list, ind: int, loop: bool) -> None:
        if not stmts:
            self.emit(ind, "pass")
        for s in stmts:
            self.stmt(s, ind, loop)

    def stmt(self, s: dict, ind: int, loop: bool) -> None:  # noqa: C901
        k = s["k"]
        e = self.emit
        if k == "assign":
            e(ind, f"a = {_r(s['e'])}")
        elif k == "aug":
            e(ind, f"n {BIN[s['op'] % len(BIN)]}= {_r(s['e'])}")
        elif k == "expr":
            e(ind, _r(["call", "print", [s["e"]]]) if s["e"][0] not in ("call",) else _r(s["e"]))
        elif k == "return":
            e(ind, f"return {_r(s['e'])}")
        elif k == "returnnone":
            e(ind, "return None")
        elif k == "raise":
            name = EXCS[s["exc"] % len(EXCS)]
            e(ind, ["raise", f"raise {name}", f"raise {name}({_r(s['e'])})", f"raise {name}('bad value') from None",
                    f"raise d.errors.{name}({_r(s['e'])})"][s["form"] % 5])
        elif k == "unpack":
            e(ind, f"a, b = {_r(s['e'][0])}, {_r(s['e'][1])}")
        elif k == "pass":
            e(ind, "pass")
        elif k in ("break", "continue"):
            e(ind, k if loop else "pass")
        elif k == "if":
            e(ind, f"if {_r(s['t'])}:")
            self.block(s["b"], ind + 1, loop)
            if s.get("o"):
                e(ind, "else:")
                self.block(s["o"], ind + 1, loop)
        elif k == "while":
            e(ind, f"while {_r(s['t'])}:")
            self.block(s["b"], ind + 1, True)
        elif k == "for":
            e(ind, f"for b in {_r(s['it'])}:")
            self.block(s["b"], ind + 1, True)
            if s.get("o"):
                e(ind, "else:")
                self.block(s["o"], ind + 1, loop)
        elif k == "try":
            e(ind, "try:")
            self.block(s["b"], ind + 1, loop)
            for ex, named, b in s["h"]:
                e(ind, f"except {EXCS[ex % len(EXCS)]}" + (" as err:" if named else ":"))
                self.block(b, ind + 1, loop)
            if s.get("f"):
                e(ind, "finally:")
                self.block(s["f"], ind + 1, loop)
        elif k == "match":
            e(ind, f"match {_r(s['e'])}:")
            pats = ["1", "'x'", "[p, q]", "{'key': p}", "None"]
            for pat, b in s["cases"]:
                e(ind + 1, f"case {pats[pat % len(pats)]}:")
                self.block(b, ind + 2, loop)
        elif k == "def":
            self.n += 1
            for dco in s.get("deco", []):
                e(ind, "@" + DECOS[dco % 2])
            e(ind, f"def h{self.n}(q, r=1):")
            self.block(s["b"], ind + 1, False)
        else:
            raise AssertionError(k)

    def method(self, m: dict, ind: int, has_base: bool) -> None:
        sig = ["(self)", "(self, a, b=2)", "(self, a, *xs, n=3, **d)", "(self, a=1, b='x')"][m["sig"] % 4]
        call = ["()", "(a, b=b)", "(a, *xs, n=n, **d)", "(a=a, b=b)"][m["sig"] % 4]
        deco = [DECOS[d % len(DECOS)] for d in m.get("deco", [])]
        if "staticmethod" in deco:
            sig = sig.replace("(self, ", "(").replace("(self)", "()")
        if "classmethod" in deco:
            sig = sig.replace("self", "cls")
        if "property" in deco:
            sig = "(self)"
        for dname in deco:
            self.emit(ind, "@" + dname)
        self.emit(ind, f"def {m['name']}{sig}:")
        if m.get("doc"):
            self.emit(ind + 1, '"""Docstring of a method."""')
        sup = m.get("super", "none") if has_base else "none"
        call_line = f"super().{m['name']}{call}"
        if sup == "first":
            self.emit(ind + 1, call_line)
        body = m["b"]
        if sup == "middle" and len(body) >= 2:
            self.block(body[:1], ind + 1, False)
            self.emit(ind + 1, call_line)
            self.block(body[1:], ind + 1, False)
        else:
            self.block(body, ind + 1, False)
            if sup in ("last", "middle"):
                self.emit(ind + 1, call_line)


def render(model: dict) -> str:
    src = _Src()
    for it in model["items"]:
        src.emit(0, "")
        if it["k"] == "func":
            for dco in it.get("deco", []):
                src.emit(0, "@" + DECOS[dco % 2])
            src.emit(0, f"def {it['name']}(a, b=0, *xs, n=1, **d):")
            if it.get("doc"):
                src.emit(1, '"""Docstring of a function."""')
            src.block(it["b"], 1, False)
        else:
            base = it.get("base")
            has_base = base is not None and 0 <= base < len(model["items"]) and model["items"][base]["k"] == "class"
            src.emit(0, f"class {it['name']}" + (f"({model['items'][base]['name']}):" if has_base else ":"))
            src.emit(1, '"""Docstring of a class."""')
            for m in it["members"]:
                if m["k"] == "method":
                    src.method(m, 1, has_base)
                elif m["k"] == "var":
                    src.emit(1, f"{m['name']} = {_r(m['e'])}")
                elif m["k"] == "unpackvar":
                    src.emit(1, f"{m['names'][0]}, {m['names'][1]} = {_r(m['e'][0])}, {_r(m['e'][1])}")
                else:
                    src.emit(1, f"class {m['name']}:")
                    for mm in m["members"]:
                        src.method(mm, 2, False)
    return "\n".join(src.lines) + "\n"


# ------------------------------------------------------------------------------------- strategy
def _config() -> st.SearchStrategy:
    fo = st.fixed_dictionaries({"kind": st.just("first"), "reorder": st.booleans(),
                                "cap": st.sampled_from([-1, -1, 0, 1, 2, 3, 5, 8, 13, 30, 100000]), "seed": st.integers(0, 2**31)})
    ho = st.fixed_dictionaries({"kind": st.just("high"), "strategy": st.sampled_from(HOM), "order": st.integers(1, 3),
                                "seed": st.integers(0, 2**31)})
    return st.one_of(fo, fo, ho)


def _pygen():
    if os.environ.get("VF_C28_PYGEN", "1") == "0":
        return None
    try:
        from vf.gen import pygen  # type: ignore[attr-defined]
    except Exception:  # noqa: BLE001
        return None
    if not (hasattr(pygen, "module_strategy") and hasattr(pygen, "render")):
        return None
    return pygen


def strategy(ctx) -> st.SearchStrategy:
    own: st.SearchStrategy = _module(int(ctx.params.get("size", 30)))
    pg = _pygen()
    mods = own
    if pg is not None:
        try:
            other = pg.module_strategy(max_stmts=18).map(lambda m: {"kind": "pygen", "model": m})
            mods = st.integers(0, 4).flatmap(lambda i: other if i == 0 else own)
        except Exception:  # noqa: BLE001
            mods = own
    return st.fixed_dictionaries({
        "module": mods,
        # operator subset: indices into standard+experimental (+ the two unregistered operators); empty = all registered
        "ops": st.one_of(st.just([]), st.just([]), st.lists(st.integers(0, 29), min_size=1, max_size=8, unique=True)),
        "configs": st.lists(_config(), min_size=1, max_size=3),
    })


# --------------------------------------------------------------------------------------- oracle
def _paths(tree: ast.AST) -> dict[int, tuple]:
    """id(node) -> path of (field, index|None) steps from the root (our own traversal)."""
    out: dict[int, tuple] = {}
    todo: list[tuple[ast.AST, tuple]] = [(tree, ())]
    while todo:
        node, path = todo.pop()
        out[id(node)] = path
        for field, value in ast.iter_fields(node):
            if isinstance(value, ast.AST):
                todo.append((value, (*path, (field, None))))
            elif isinstance(value, list):
                for i, item in enumerate(value):
                    if isinstance(item, ast.AST):
                        todo.append((item, (*path, (field, i))))
    return out


def _all_paths(tree: ast.AST) -> set[tuple]:
    """All node paths of a tree (ast.parse shares context singletons such as Load(), so ids are useless here)."""
    out: set[tuple] = set()
    todo: list[tuple[ast.AST, tuple]] = [(tree, ())]
    while todo:
        node, path = todo.pop()
        out.add(path)
        for field, value in ast.iter_fields(node):
            if isinstance(value, ast.AST):
                todo.append((value, (*path, (field, None))))
            elif isinstance(value, list):
                for i, item in enumerate(value):
                    if isinstance(item, ast.AST):
                        todo.append((item, (*path, (field, i))))
    return out


class _Swap:
    """Temporarily puts replacement nodes at given paths of the pristine tree."""

    def __init__(self, root: ast.AST, repl: list[tuple[tuple, ast.AST]]) -> None:
        self.root = root
        self.repl = repl
        self.undo: list[tuple[Any, str, Any, Any]] = []

    def __enter__(self) -> ast.AST:
        root = self.root
        for path, new in self.repl:
            if not path:
                raise LookupError("root replaced")
            parent: Any = root
            for field, idx in path[:-1]:
                parent = getattr(parent, field)
                if idx is not None:
                    parent = parent[idx]
            field, idx = path[-1]
            if idx is None:
                self.undo.append((parent, field, None, getattr(parent, field)))
                setattr(parent, field, new)
            else:
                lst = getattr(parent, field)
                self.undo.append((parent, field, idx, lst[idx]))
                lst[idx] = new
        return root

    def __exit__(self, *exc: Any) -> None:
        for parent, field, idx, old in reversed(self.undo):
            if idx is None:
                setattr(parent, field, old)
            else:
                getattr(parent, field)[idx] = old


def _nested(p: tuple, q: tuple) -> bool:
    return p[: len(q)] == q or q[: len(p)] == p


def _round_robin(lists: list[list]) -> list:
    out = []
    i = 0
    while any(i < len(l) for l in lists):
        out.extend(l[i] for l in lists if i < len(l))
        i += 1
    return out


def _all_operators() -> tuple[list[type], list[type]]:
    """(operators pynguin registers for every run, operators that exist but are not registered)."""
    from pynguin.assertion.mutation_analysis import operators as mo
    from pynguin.assertion.mutation_analysis.operators import misc

    registered = [*mo.standard_operators, *mo.experimental_operators]
    extras = [getattr(misc, n) for n in ("AssignmentValueReplacement", "LambdaReplacement") if hasattr(misc, n)]
    return registered, [e for e in extras if e not in registered]


def _materialise(case: dict, out: Outcome) -> tuple[str, types.ModuleType] | None:
    mod = case["module"]
    if mod["kind"] == "stdlib":
        real = importlib.import_module(mod["name"])
        with open(real.__file__, encoding="utf-8") as fh:  # type: ignore[arg-type]
            return fh.read(), real
    if mod["kind"] == "pygen":
        pg = _pygen()
        if pg is None:
            out.inconclusive = "pygen-not-available"
            return None
        try:
            src = pg.render(mod["model"])
        except Exception:  # noqa: BLE001
            out.inconclusive = "pygen-render-error"
            return None
    else:
        src = render(mod)
    module = types.ModuleType("vfsut_c28")
    try:
        import warnings

        warnings.simplefilter("ignore", SyntaxWarning)
        exec(compile(src, "<vf-c28>", "exec", dont_inherit=True), module.__dict__)  # noqa: S102
    except SyntaxError as exc:
        out.inconclusive = f"generator-syntax-error:{exc.msg}" if mod["kind"] == "gen" else "pygen-syntax-error"
        return None
    except Exception as exc:  # noqa: BLE001
        out.inconclusive = f"module-import-raises:{type(exc).__name__}"
        return None
    return src, module


def _build_mutator(cfg: dict, ops: list[type]):
    from pynguin.assertion.mutation_analysis import mutators as mu
    from pynguin.assertion.mutation_analysis import strategies as ms

    if cfg["kind"] == "first":
        return mu.FirstOrderMutator(ops, maximum_mutants=cfg["cap"], sampling_seed=cfg["seed"], reorder=cfg["reorder"])
    cls = {"first_to_last": ms.FirstToLastHOMStrategy, "each_choice": ms.EachChoiceHOMStrategy,
           "between_operators": ms.BetweenOperatorsHOMStrategy, "random": ms.RandomHOMStrategy}[cfg["strategy"]]
    return mu.HighOrderMutator(ops, hom_strategy=cls(cfg["order"]))


def _enumerate(mutator, tree, module, src_tree: ast.AST, paths: dict[int, tuple], orig_dump: str, out: Outcome, tag: str,
               max_order: int) -> list[tuple] | None:
    """Runs one complete enumeration with the per-yield oracle. Returns the list of mutant keys or None after a failure
    that makes later comparisons meaningless."""
    keys: list[tuple] = []
    broken = False
    for mutations, mutant in mutator.mutate(tree, module):
        out.evaluations += 1
        if not (1 <= len(mutations) <= max_order):
            out.fail(f"{tag}|mutation-list-length", f"{len(mutations)} mutations in one mutant, order {max_order}")
            broken = True
            continue
        repl = []
        key = []
        ok = True
        for m in mutations:
            path = paths.get(id(m.node))
            if path is None:
                out.fail(f"{tag}|mutation-node-not-in-original-tree|{m.operator.__name__}", f"{m.visitor_name}: {ast.dump(m.node)[:200]}")
                ok = False
                break
            repl.append((path, m.replacement_node))
            key.append((m.operator.__name__, m.visitor_name, path))
        if not ok:
            broken = True
            continue
        if any(_nested(p, q) for (p, _), (q, _) in itertools.combinations(repl, 2)):
            out.fail(f"{tag}|overlapping-mutations", repr(key)[:300])
            broken = True
            continue
        got = ast.dump(mutant)
        with _Swap(src_tree, repl) as swapped:
            want = ast.dump(swapped)
        opname = "+".join(sorted({m.operator.__name__ for m in mutations}))
        if got != want:
            out.fail(f"{tag}|mutant-differs-elsewhere|{opname if len(mutations) == 1 else 'hom'}",
                     f"{key!r}\nyielded : {_first_diff(got, want)}")
            broken = True
            continue
        if got == orig_dump:
            out.fail(f"{tag}|mutant-equals-original|{opname}", f"{key!r}")
        try:
            text = ast.unparse(mutant)
        except Exception as exc:  # noqa: BLE001
            text = f"<unparse failed: {type(exc).__name__}>"
        keys.append((tuple(key), text))
    after = ast.dump(tree)
    if after != orig_dump:
        out.fail(f"{tag}|original-not-restored", _first_diff(after, orig_dump))
        return None
    return None if broken else keys


def _first_diff(a: str, b: str) -> str:
    i = 0
    n = min(len(a), len(b))
    while i < n and a[i] == b[i]:
        i += 1
    return f"at {i}: got …{a[max(0, i - 60): i + 100]}… / expected …{b[max(0, i - 60): i + 100]}…"


def evaluate(case: dict) -> Outcome:  # noqa: C901
    from pynguin.assertion.mutation_analysis.transformer import ParentNodeTransformer
    from pynguin.utils import randomness

    out = Outcome()
    out.evaluations = 0
    mat = _materialise(case, out)
    if mat is None:
        out.evaluations = 1
        return out
    src, module = mat
    registered, extras = _all_operators()
    all_ops = registered + extras
    ops = [all_ops[i % len(all_ops)] for i in case["ops"]] or registered
    # keep the list duplicate-free and in registry order (as pynguin builds it)
    ops = [o for o in all_ops if o in ops]
    tree = ParentNodeTransformer.create_ast(src)
    pristine = ast.parse(src)
    orig_dump = ast.dump(tree)
    if orig_dump != ast.dump(pristine):
        out.fail("setup|create_ast-differs-from-ast.parse", _first_diff(orig_dump, ast.dump(pristine)))
        return out
    paths = _paths(tree)
    if len(paths) != len(_all_paths(tree)) or set(paths.values()) != _all_paths(pristine):
        out.fail("setup|create_ast-shares-nodes-or-paths-differ", "")
        return out

    from pynguin.assertion.mutation_analysis import mutators as mu

    # ---- baseline: plain first-order enumeration (historical order), the reference multiset
    plain = mu.FirstOrderMutator(ops)
    full = _enumerate(plain, tree, module, pristine, paths, orig_dump, out, "first-plain", 1)
    if full is None:
        return out
    full_keys = [k[0] for k, _ in full]
    if len(set(full_keys)) != len(full_keys):
        out.fail("first-plain|duplicate-mutation", repr([k for k in full_keys if full_keys.count(k) > 1][:2]))
        return out
    text_of = {k[0]: t for k, t in full}
    per_op: dict[str, list] = {}
    for k in full_keys:
        per_op.setdefault(k[0], []).append(k)
    op_order = [o.__name__ for o in ops]
    # historical order: concatenation in operator-list order
    if [k[0] for k in full_keys] != [o for o in op_order for _ in per_op.get(o, [])]:
        out.fail("first-plain|not-in-operator-list-order", repr([k[0] for k in full_keys])[:300])
    total = len(full_keys)
    cnt = plain.mutation_count(tree, module)
    if cnt != total:
        out.fail("count|first-plain", f"mutation_count {cnt}, enumeration yields {total}")
    if ast.dump(tree) != orig_dump:
        out.fail("count|original-not-restored", "")
        return out
    out.labels.append(f"mutants:{'0' if total == 0 else '1-9' if total < 10 else '10-49' if total < 50 else '50-199' if total < 200 else '200+'}")
    out.labels.extend(f"op:{o}" for o in per_op)

    exercised = set()
    for cfg in case["configs"]:
        mutator = _build_mutator(cfg, ops)
        if cfg["kind"] == "first":
            cap, reorder = cfg["cap"], cfg["reorder"]
            tag = "first-plain" if (cap < 0 and not reorder) else ("first-reorder" if cap < 0 else "first-capped")
            got = _enumerate(mutator, tree, module, pristine, paths, orig_dump, out, tag, 1)
            if got is None:
                return out
            keys = [k[0] for k, _ in got]
            exercised.add(tag if cap < 0 else f"{tag}:{'0' if cap == 0 else '<total' if cap < total else '>=total'}")
            if len(set(keys)) != len(keys):
                out.fail(f"{tag}|duplicate-mutant", "")
            unknown = [k for k in keys if k not in text_of]
            if unknown:
                out.fail(f"{tag}|mutant-not-in-full-enumeration", repr(unknown[:2]))
                continue
            wrong_text = [k for (k, t) in ((k[0], t) for k, t in got) if text_of[k] != t]
            if wrong_text:
                out.fail(f"{tag}|same-mutation-different-mutant", repr(wrong_text[:1]))
            want_n = total if cap < 0 else min(cap, total)
            if len(keys) != want_n:
                out.fail(f"{tag}|wrong-number-of-mutants", f"cap {cap}, total {total}: yielded {len(keys)}, expected {want_n}")
            if tag == "first-plain":
                if keys != full_keys:
                    out.fail("first-plain|enumeration-not-repeatable", "")
            else:
                sel: dict[str, list] = {}
                for k in keys:
                    sel.setdefault(k[0], []).append(k)
                regular = [sel[o] for o in op_order if o in sel and o not in LOOP_OPS]
                deferred = [sel[o] for o in op_order if o in sel and o in LOOP_OPS]
                if keys != _round_robin(regular) + _round_robin(deferred):
                    out.fail(f"{tag}|schedule-not-round-robin-with-loops-last", repr([k[0] for k in keys])[:400])
                for o, lst in sel.items():
                    it = iter(per_op[o])
                    if not all(any(k == c for c in it) for k in lst):
                        out.fail(f"{tag}|source-order-not-kept-within-operator", o)
                        break
                if 0 <= cap < total:
                    for o in op_order:
                        size = len(per_op.get(o, []))
                        exact = size * cap / total
                        n = len(sel.get(o, []))
                        if not (math.floor(exact) <= n <= math.ceil(exact)):
                            out.fail(f"{tag}|quota-not-proportional", f"{o}: size {size}, cap {cap}, total {total}: kept {n}")
                            break
                    again = _enumerate(_build_mutator(cfg, ops), tree, module, pristine, paths, orig_dump, out, tag, 1)
                    if again is None:
                        return out
                    if [k[0] for k, _ in again] != keys:
                        out.fail(f"{tag}|same-seed-different-sample", "")
            cnt = mutator.mutation_count(tree, module)
            if cnt != total:
                out.fail(f"count|{tag}", f"mutation_count {cnt}, the uncapped enumeration yields {total}")
        else:
            tag = f"high-{cfg['strategy']}"
            order = cfg["order"]
            randomness.RNG.seed(cfg["seed"])
            got = _enumerate(mutator, tree, module, pristine, paths, orig_dump, out, tag, order)
            if got is None:
                return out
            exercised.add(tag)
            used = [k for ks, _ in got for k in ks]
            unknown = [k for k in used if k not in text_of]
            if unknown:
                out.fail(f"{tag}|mutation-not-in-first-order-enumeration", repr(unknown[:2]))
            if total and not got:
                out.fail(f"{tag}|no-mutant-although-first-order-mutations-exist", "")
            randomness.RNG.seed(cfg["seed"])
            cnt = mutator.mutation_count(tree, module)
            if cnt != len(got):
                out.fail("count|high-order", f"mutation_count {cnt}, the mutator's own enumeration yields {len(got)} "
                                             f"({total} first-order mutations, order {order})")
        if ast.dump(tree) != orig_dump:
            out.fail("count|original-not-restored", "")
            return out
    out.labels.extend(f"cfg:{e}" for e in sorted(exercised))
    out.labels.append(f"module:{case['module']['kind']}")
    out.nontrivial = total >= 10 and len(per_op) >= 4 and bool(exercised - {"first-plain"})
    out.evaluations = max(1, out.evaluations)
    if case["module"]["kind"] == "stdlib":
        out.sample = {"stdlib": case["module"]["name"], "ops": len(ops), "configs": case["configs"], "first_order_mutants": total}
    else:
        out.sample = {"source": src[len(PRELUDE):] if case["module"]["kind"] == "gen" else src, "ops": [o.__name__ for o in ops],
                      "configs": case["configs"], "first_order_mutants": total}
    return out


def shard(ctx) -> None:
    from hypothesis import strategies as hst

    from vf.hyp import run_cases

    per = max(1, int(ctx.params["examples"]) // ctx.nshards)
    run_cases(ctx, strategy(ctx), evaluate, per)
    # stdlib modules: module fixed, configurations drawn
    mods = [m for i, m in enumerate(ctx.params.get("stdlib", [])) if i % ctx.nshards == ctx.shard]
    for name in mods:
        strat = hst.fixed_dictionaries({"module": hst.just({"kind": "stdlib", "name": name}), "ops": hst.just([]),
                                        "configs": hst.lists(_config(), min_size=2, max_size=2)})
        run_cases(ctx, strat, evaluate, int(ctx.params.get("stdlib_examples", 2)), shrink=False)
