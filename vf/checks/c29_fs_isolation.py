"""C29 — filesystem isolation never modifies or deletes pre-existing paths.

A case is an operation list (history).  The whole list runs inside ONE ``with FilesystemIsolation():``
block (the isolation patches os / shutil / pathlib.Path / open process-wide, so no Hypothesis code
runs in between).  Path arguments are *selectors* resolved against the state of the sandbox at that
step (pre-existing paths that still exist, paths created so far, fresh names), so later steps depend
on earlier ones as the rules of a state machine would.

Oracle: snapshot (path -> type, content hash, link target) of the sandbox before entering; after
``__exit__`` every pre-existing path has the same snapshot and no other path exists in the sandbox.
A snapshot after every step is used only to *attribute* a violation to the step that caused it.
``PermissionError`` (or any other ``OSError``) raised by a step is an accepted outcome.

SAFETY: every path handed to any operation is an absolute path strictly inside a per-case sandbox
directory created under the shard's scratch directory (asserted before every call; names come from
a fixed alphabet, no ``..``; the only symlinks are relative links to entries of the sandbox).  The
isolation's own clean-up only touches paths it recorded, i.e. these arguments.
"""

from __future__ import annotations

import builtins
import hashlib
import io
import os
import shutil
import stat
import tempfile
from pathlib import Path
from typing import Any

from hypothesis import strategies as st

from vf.core import Outcome

PROPERTY = "C29"
META = {
    "title": "Filesystem isolation never modifies or deletes pre-existing paths",
    "technique": "model-based / history-based property testing: drawn operation lists over a pre-populated sandbox tree inside one "
                 "FilesystemIsolation block; before/after snapshot oracle with per-step attribution",
    "design_ref": "DESIGN.md §3 C29",
    "rule": "case = 2..25 steps over the patched entry points (open/io.open/Path.open with w,a,x,r+,w+; os.open with flag sets; "
            "Path.write_text/write_bytes/touch; os.mkdir/makedirs(exist_ok); Path.mkdir(parents, exist_ok); os.rename/replace; "
            "Path.rename/replace; shutil.copy/copy2/copyfile/copytree/move; os.remove/unlink/rmdir; shutil.rmtree; Path.unlink/"
            "rmdir), positional or keyword arguments, each path argument drawn from {pre-existing file/dir/symlink, created in "
            "this run, fresh name in sandbox / in a pre-existing dir / in a created dir, fresh nested}; non-trivial = at least one "
            "step targets a pre-existing path in a writing role and at least one step creates a path; distinct by the whole case",
    "assumptions": ["only the entry points FilesystemIsolation patches are in the domain (os.symlink, os.link, os.truncate, "
                    "chmod/utime, os.removedirs/renames and file descriptors are not patched at all and are out of scope)",
                    "mtime/atime and permission bits are not part of the snapshot (content, type and link target are)"],
    "level_text": "Generated operation histories with pre-existing, created and fresh targets against a snapshot oracle; all patched "
                  "entry points, positional and keyword call styles. Exploration, not proof.",
    "level_note": "Trusted: os.scandir/os.lstat/os.readlink and the unpatched open captured at import time for the snapshots.",
}
PLAN = {
    "quick": {"shards": 8, "examples": 1600},
    "thorough": {"shards": 16, "examples": 160000, "timeout": 3000},
}

# originals, captured before any isolation can be active
_OPEN = builtins.open
_ORIG = {("os", n): getattr(os, n) for n in ("mkdir", "makedirs", "rename", "replace", "remove", "unlink", "rmdir", "open")}
_ORIG.update({("shutil", n): getattr(shutil, n) for n in ("copyfile", "copy", "copy2", "copytree", "move", "rmtree")})
_ORIG.update({("Path", n): getattr(Path, n) for n in ("mkdir", "touch", "write_text", "write_bytes", "unlink", "rmdir", "rename",
                                                     "replace", "open")})
_ORIG[("builtins", "open")] = builtins.open
_ORIG[("io", "open")] = io.open
_RMTREE = shutil.rmtree

_SCRATCH: str | None = None

NAMES = ["n0", "n1", "n2.txt", "n3.d", "n4"]
SELECTOR_KINDS = ["pre", "pre", "pre", "new", "new", "fresh", "fresh", "fresh-in", "fresh-in", "nested"]

OPEN_MODES = ["w", "a", "x", "r+", "w+", "wb", "ab", "r"]
OS_OPEN_FLAGS = {
    "wronly-creat": os.O_WRONLY | os.O_CREAT,
    "wronly-trunc": os.O_WRONLY | os.O_TRUNC,
    "rdwr": os.O_RDWR,
    "creat-excl": os.O_WRONLY | os.O_CREAT | os.O_EXCL,
    "append": os.O_WRONLY | os.O_APPEND,
    "rdonly": os.O_RDONLY,
}
ONE_PATH_OPS = ["open", "io.open", "Path.open", "os.open", "Path.write_text", "Path.write_bytes", "Path.touch", "os.mkdir",
                "os.makedirs", "Path.mkdir", "os.remove", "os.unlink", "os.rmdir", "shutil.rmtree", "Path.unlink", "Path.rmdir"]
TWO_PATH_OPS = ["os.rename", "os.replace", "Path.rename", "Path.replace", "shutil.move", "shutil.copyfile", "shutil.copy",
                "shutil.copy2", "shutil.copytree"]
WRITING_ONE = {"open", "io.open", "Path.open", "os.open", "Path.write_text", "Path.write_bytes", "Path.touch", "os.mkdir",
               "os.makedirs", "Path.mkdir"}


def _selector() -> st.SearchStrategy:
    return st.tuples(st.sampled_from(SELECTOR_KINDS), st.integers(0, 11), st.integers(0, len(NAMES) - 1)).map(list)


def _step() -> st.SearchStrategy:
    one = st.fixed_dictionaries({"op": st.sampled_from(ONE_PATH_OPS), "p": _selector(), "flag": st.integers(0, 7), "kw": st.booleans()})
    two = st.fixed_dictionaries({"op": st.sampled_from(TWO_PATH_OPS), "p": _selector(), "q": _selector(), "flag": st.integers(0, 7),
                                 "kw": st.booleans()})
    return st.one_of(one, one, two)


def strategy(ctx) -> st.SearchStrategy:
    return st.fixed_dictionaries({"steps": st.lists(_step(), min_size=2, max_size=25)})


# ------------------------------------------------------------------------------------ sandbox
def _populate(root: str) -> None:
    """Builds the pre-existing tree with unpatched primitives (called before the isolation is entered)."""
    def w(rel: str, data: bytes) -> None:
        with _OPEN(os.path.join(root, rel), "wb") as fh:
            fh.write(data)

    os.mkdir(os.path.join(root, "pre"))
    os.mkdir(os.path.join(root, "pre", "sub"))
    os.mkdir(os.path.join(root, "pre", "sub", "deep"))
    os.mkdir(os.path.join(root, "pre", "empty"))
    w("top.txt", b"top\n")
    w("pre/f1.txt", b"one\n")
    w("pre/f2.txt", b"two\n")
    w("pre/sub/g.txt", b"gee\n")
    w("pre/sub/deep/h.bin", bytes(range(32)))
    os.symlink("f1.txt", os.path.join(root, "pre", "link"))
    os.symlink("sub", os.path.join(root, "pre", "dlink"))


def _snapshot(root: str) -> dict[str, tuple]:
    """relative path -> ('dir',) | ('file', sha1) | ('link', target) | ('other',); never follows symlinks."""
    snap: dict[str, tuple] = {}
    todo = [root]
    while todo:
        d = todo.pop()
        try:
            entries = sorted(os.scandir(d), key=lambda e: e.name)
        except OSError:
            continue
        for e in entries:
            rel = os.path.relpath(e.path, root)
            try:
                stt = os.lstat(e.path)
            except OSError:
                continue
            if stat.S_ISLNK(stt.st_mode):
                snap[rel] = ("link", os.readlink(e.path))
            elif stat.S_ISDIR(stt.st_mode):
                snap[rel] = ("dir",)
                todo.append(e.path)
            elif stat.S_ISREG(stt.st_mode):
                try:
                    with _OPEN(e.path, "rb") as fh:
                        snap[rel] = ("file", hashlib.sha1(fh.read()).hexdigest()[:10])
                except OSError:
                    snap[rel] = ("file", "unreadable")
            else:
                snap[rel] = ("other",)
    return snap


def _classify(rel: str, pre: dict[str, tuple], now: dict[str, tuple]) -> str:
    if rel in pre:
        kind = pre[rel][0]
        if rel not in now:
            return f"pre-{kind}-gone"
        return f"pre-{kind}" + ("-empty" if kind == "dir" and not any(k.startswith(rel + os.sep) for k in now) else "")
    if rel in now:
        return f"new-{now[rel][0]}"
    parent = os.path.dirname(rel)
    if parent == "":
        return "fresh"
    if parent in now:
        return "fresh-in-pre-dir" if parent in pre else "fresh-in-new-dir"
    return "fresh-nested"


def _resolve(sel: list, root: str, pre: dict[str, tuple], now: dict[str, tuple]) -> str:
    kind, i, j = sel
    name = NAMES[j % len(NAMES)]
    if kind == "pre":
        cands = sorted(k for k in pre if k in now)
        if cands:
            return os.path.join(root, cands[i % len(cands)])
        kind = "fresh"
    if kind == "new":
        cands = sorted(k for k in now if k not in pre)
        if cands:
            return os.path.join(root, cands[i % len(cands)])
        kind = "fresh"
    if kind == "fresh-in":
        dirs = sorted(k for k, v in now.items() if v[0] == "dir")
        if dirs:
            return os.path.join(root, dirs[i % len(dirs)], name)
        kind = "fresh"
    if kind == "nested":
        return os.path.join(root, NAMES[i % len(NAMES)] + "_x", name)
    return os.path.join(root, name)


def _guard(root: str, *paths: str) -> None:
    for p in paths:
        if not (os.path.isabs(p) and p.startswith(root + os.sep) and ".." not in p.split(os.sep) and os.path.normpath(p) == p):
            raise AssertionError(f"harness safety: path {p!r} is not strictly inside the sandbox {root!r}")


def _run_step(step: dict, p: str, q: str | None) -> None:  # noqa: C901
    """Performs one operation through the public (patched) entry points."""
    op, flag, kw = step["op"], step["flag"], step["kw"]
    if op in ("open", "io.open", "Path.open"):
        mode = OPEN_MODES[flag % len(OPEN_MODES)]
        if op == "open":
            fh = open(file=p, mode=mode) if kw else open(p, mode)  # noqa: PTH123, SIM115
        elif op == "io.open":
            fh = io.open(file=p, mode=mode) if kw else io.open(p, mode)  # noqa: UP020, SIM115
        else:
            fh = Path(p).open(mode=mode) if kw else Path(p).open(mode)  # noqa: SIM115
        try:
            if mode != "r":
                fh.write(b"DATA" if "b" in mode else "DATA")
        finally:
            fh.close()
    elif op == "os.open":
        flags = list(OS_OPEN_FLAGS.values())[flag % len(OS_OPEN_FLAGS)]
        fd = os.open(path=p, flags=flags) if kw else os.open(p, flags, 0o644)
        try:
            if flags & (os.O_WRONLY | os.O_RDWR):
                os.write(fd, b"FD")
        finally:
            os.close(fd)
    elif op == "Path.write_text":
        Path(p).write_text(data="TEXT") if kw else Path(p).write_text("TEXT")
    elif op == "Path.write_bytes":
        Path(p).write_bytes(b"BYTES")
    elif op == "Path.touch":
        Path(p).touch(exist_ok=bool(flag % 2))
    elif op == "os.mkdir":
        os.mkdir(path=p) if kw else os.mkdir(p)  # noqa: PTH102
    elif op == "os.makedirs":
        os.makedirs(name=p, exist_ok=bool(flag % 2)) if kw else os.makedirs(p, exist_ok=bool(flag % 2))  # noqa: PTH103
    elif op == "Path.mkdir":
        Path(p).mkdir(parents=bool(flag & 2), exist_ok=bool(flag & 1))
    elif op == "os.remove":
        os.remove(path=p) if kw else os.remove(p)  # noqa: PTH107
    elif op == "os.unlink":
        os.unlink(path=p) if kw else os.unlink(p)  # noqa: PTH108
    elif op == "os.rmdir":
        os.rmdir(path=p) if kw else os.rmdir(p)  # noqa: PTH106
    elif op == "shutil.rmtree":
        shutil.rmtree(path=p) if kw else shutil.rmtree(p)
    elif op == "Path.unlink":
        Path(p).unlink(missing_ok=bool(flag % 2))
    elif op == "Path.rmdir":
        Path(p).rmdir()
    elif op == "os.rename":
        os.rename(src=p, dst=q) if kw else os.rename(p, q)  # noqa: PTH104
    elif op == "os.replace":
        os.replace(src=p, dst=q) if kw else os.replace(p, q)  # noqa: PTH105
    elif op == "Path.rename":
        Path(p).rename(target=q) if kw else Path(p).rename(q)
    elif op == "Path.replace":
        Path(p).replace(target=q) if kw else Path(p).replace(q)
    elif op == "shutil.move":
        shutil.move(src=p, dst=q) if kw else shutil.move(p, q)
    elif op == "shutil.copyfile":
        shutil.copyfile(src=p, dst=q) if kw else shutil.copyfile(p, q)
    elif op == "shutil.copy":
        shutil.copy(src=p, dst=q) if kw else shutil.copy(p, q)
    elif op == "shutil.copy2":
        shutil.copy2(src=p, dst=q) if kw else shutil.copy2(p, q)
    elif op == "shutil.copytree":
        shutil.copytree(src=p, dst=q, dirs_exist_ok=bool(flag % 2)) if kw else shutil.copytree(p, q, dirs_exist_ok=bool(flag % 2))
    else:
        raise AssertionError(op)


def _variant(step: dict) -> str:
    op, flag = step["op"], step["flag"]
    if op in ("open", "io.open", "Path.open"):
        return f"{op}:{OPEN_MODES[flag % len(OPEN_MODES)].replace('b', '')}"
    if op == "os.open":
        return f"os.open:{list(OS_OPEN_FLAGS)[flag % len(OS_OPEN_FLAGS)]}"
    if op in ("os.makedirs",):
        return f"{op}:{'exist_ok' if flag % 2 else 'strict'}"
    if op == "Path.mkdir":
        return f"{op}:{'parents' if flag & 2 else 'flat'}{'+exist_ok' if flag & 1 else ''}"
    if op == "Path.touch":
        return f"{op}:{'exist_ok' if flag % 2 else 'strict'}"
    if op == "shutil.copytree":
        return f"{op}:{'dirs_exist_ok' if flag % 2 else 'strict'}"
    return op


def _patches_active() -> list[str]:
    mods = {"os": os, "shutil": shutil, "Path": Path, "builtins": builtins, "io": io}
    return [f"{m}.{n}" for (m, n), orig in _ORIG.items() if getattr(mods[m], n) is not orig]


def evaluate(case: dict) -> Outcome:  # noqa: C901
    import pynguin.configuration as config
    from pynguin.utils.fs_isolation import FilesystemIsolation

    out = Outcome()
    base = _SCRATCH or os.environ.get("VF_SCRATCH_DIR") or os.environ.get("VERIF_SCRATCH") or tempfile.gettempdir()
    root = os.path.realpath(tempfile.mkdtemp(prefix="vf_c29_sbx_", dir=base))
    old_flag = config.configuration.filesystem_isolation
    try:
        _populate(root)
        pre = _snapshot(root)
        config.configuration.filesystem_isolation = True
        iso = FilesystemIsolation()
        log: list[dict[str, Any]] = []  # per step: descriptor, damaged pre paths, created paths, newly recorded paths
        with iso:
            if not _patches_active():
                out.inconclusive = "isolation-did-not-patch-anything"
            before = dict(pre)
            recorded_before: set[str] = set(getattr(iso, "_created", set()))
            for step in case["steps"]:
                p = _resolve(step["p"], root, pre, before)
                q = _resolve(step["q"], root, pre, before) if "q" in step else None
                _guard(root, *([p] if q is None else [p, q]))
                pc = _classify(os.path.relpath(p, root), pre, before)
                qc = _classify(os.path.relpath(q, root), pre, before) if q is not None else None
                desc = _variant(step) + ("|kw" if step["kw"] else "|pos") + f"|{pc}" + (f"->{qc}" if qc else "")
                result = "ok"
                try:
                    if q is not None and step["op"] in ("shutil.copytree", "shutil.move") and \
                            (os.path.realpath(q) + os.sep).startswith(os.path.realpath(p) + os.sep):
                        raise OSError("skipped by the harness: destination inside source (shutil recurses)")
                    _run_step(step, p, q)
                except PermissionError as exc:
                    result = "refused" if "non-isolated" in str(exc) else "PermissionError"
                except (OSError, shutil.Error) as exc:
                    result = type(exc).__name__
                after = _snapshot(root)
                recorded_now = set(getattr(iso, "_created", set()))
                top_created = sorted(k for k in after if k not in pre and os.path.dirname(k) not in
                                     {c for c in after if c not in pre})
                rec_rel = {os.path.relpath(r, root) for r in recorded_now if r.startswith(root + os.sep)}
                entry = {
                    "desc": desc, "result": result, "op": _variant(step).split(":")[0], "style": "kw" if step["kw"] else "pos",
                    "args": {"p": (os.path.relpath(p, root), pc), **({"q": (os.path.relpath(q, root), qc)} if q is not None else {})},
                    "damaged": sorted(k for k in pre if k in before and before.get(k) != after.get(k)),
                    "pre_alive": {k for k in pre if k in after},
                    "created": sorted(k for k in after if k not in before and k not in pre),
                    "recorded": sorted(os.path.relpath(r, root) for r in recorded_now - recorded_before if r.startswith(root + os.sep)),
                    # created paths (top-most only) that the isolation does not track (neither they nor an ancestor)
                    "untracked": [k for k in top_created if not (_chain(k) & rec_rel)],
                    "writes_pre": (step["op"] in WRITING_ONE and pc.startswith("pre-")) or (qc is not None and qc.startswith("pre-")),
                }
                log.append(entry)
                out.labels.append(f"op:{step['op']}")
                out.labels.append(f"result:{result}")
                before = after
                recorded_before = recorded_now
            in_block_final = before
        left = _patches_active()
        if left:
            out.fail("exit|patches-not-removed", repr(left))
        final = _snapshot(root)

        seen: set[str] = set()

        def report(sig: str, detail: str) -> None:
            if sig not in seen:
                seen.add(sig)
                out.fail(sig, detail)

        def history() -> str:
            return "; ".join(f"{i}:{e['desc']}={e['result']}" for i, e in enumerate(log))

        # (1) pre-existing paths modified while the block was running
        for i, e in enumerate(log):
            for rel in e["damaged"]:
                culprit = _first(log[: i + 1], "recorded", rel) or e
                how = "deleted" if rel not in e["pre_alive"] else "changed"
                report(f"during|pre-{pre[rel][0]}-{how}|{_bucket(culprit, rel)}",
                       f"step {i} ({e['desc']}) damaged pre-existing {rel!r}; {history()}")
        # (2) pre-existing paths intact at the end of the block but not after __exit__
        for rel, val in pre.items():
            if in_block_final.get(rel) == val and final.get(rel) != val:
                culprit = _first(log, "recorded", rel)
                how = "deleted" if rel not in final else "changed"
                report(f"at-exit|pre-{val[0]}-{how}|{_bucket(culprit, rel) if culprit else 'unattributed'}",
                       f"pre-existing {rel!r} was {val} before __exit__, {final.get(rel)} after; {history()}")
        # (3) paths created during the run that survive __exit__ (top-most surviving path only)
        survivors = [k for k in sorted(final) if k not in pre]
        for rel in survivors:
            if os.path.dirname(rel) in survivors:
                continue
            culprit = next((e for e in log if rel in e["untracked"]), None)
            report(f"left-behind|{final[rel][0]}|{_bucket(culprit, rel) if culprit else 'tracked-but-not-removed'}",
                   f"created path {rel!r} still exists after __exit__; {history()}")
        out.nontrivial = any(e["writes_pre"] for e in log) and any(e["created"] for e in log)
        if any(e["result"] == "refused" for e in log):
            out.labels.append("class:refused-by-isolation")
        if any(e["created"] for e in log):
            out.labels.append("class:created-something")
        if any(e["writes_pre"] for e in log):
            out.labels.append("class:writes-to-pre-existing")
        out.sample = {"steps": [f"{e['desc']} -> {e['result']}" for e in log]}
    finally:
        config.configuration.filesystem_isolation = old_flag
        if not _patches_active():
            _RMTREE(root, ignore_errors=True)
        else:  # never walk the tree with patched primitives
            _force_remove(root)
    return out


def _chain(rel: str) -> set[str]:
    parts = rel.split(os.sep)
    return {os.sep.join(parts[: k + 1]) for k in range(len(parts))}


def _first(log: list[dict], field: str, rel: str) -> dict | None:
    """First step whose ``field`` (paths the isolation newly recorded as 'created') contains ``rel`` or an ancestor.

    The private ``_created`` set is read only to name the root cause in the signature; verdicts come from snapshots.
    """
    chain = _chain(rel)
    for e in log:
        if chain & set(e[field]):
            return e
    return None


def _coarse(cls: str) -> str:
    if cls.startswith("pre-dir"):
        return "pre-dir"
    if cls.startswith("fresh-in"):
        return "fresh"
    return cls


def _bucket(e: dict, rel: str) -> str:
    """Root-cause bucket of a step: operation | call style | role and class of the argument related to ``rel``."""
    chain = _chain(rel)
    role = None
    for r in ("q", "p"):
        if r in e["args"]:
            arel = e["args"][r][0]
            if arel in chain or rel in _chain(arel):
                role = r
                break
    if role is None:
        role = "q" if "q" in e["args"] else "p"
    names = {"p": "src" if "q" in e["args"] else "path", "q": "dst"}
    others = "".join(f",{names[r]}={_coarse(e['args'][r][1])}" for r in e["args"] if r != role)
    return f"{e['op']}|{e['style']}|{names[role]}={_coarse(e['args'][role][1])}{others}"


def _force_remove(root: str) -> None:
    """Removes the sandbox with the original primitives (used only if patches were left active)."""
    for dirpath, dirnames, filenames in os.walk(root, topdown=False):
        for n in filenames:
            try:
                _ORIG[("os", "unlink")](os.path.join(dirpath, n))
            except OSError:
                pass
        for n in dirnames:
            full = os.path.join(dirpath, n)
            try:
                if os.path.islink(full):
                    _ORIG[("os", "unlink")](full)
                else:
                    _ORIG[("os", "rmdir")](full)
            except OSError:
                pass
    try:
        _ORIG[("os", "rmdir")](root)
    except OSError:
        pass


def shard(ctx) -> None:
    global _SCRATCH  # noqa: PLW0603
    from vf.hyp import run_cases

    _SCRATCH = ctx.scratch
    per = max(1, int(ctx.params["examples"]) // ctx.nshards)
    run_cases(ctx, strategy(ctx), evaluate, per)
