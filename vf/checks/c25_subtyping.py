"""C25 — subtyping is a preorder consistent with the class hierarchy.

A case is a generated module pair (class hierarchies with single/multiple/diamond inheritance, abstract classes, enums,
classes derived from dict/list/Exception and from helper-module classes) plus a handful of type specs.  The type system is
the one the real ``generate_test_cluster`` builds; proper types are produced both by ``convert_type_hint`` from evaluated
hints and by direct construction over the cluster's ``TypeInfo``s.  The laws of the property statement are then checked on
all pairs / triples of the drawn types and on all pairs of analysed classes.
"""

from __future__ import annotations

import itertools
from typing import Any

from hypothesis import strategies as st

from vf.core import Outcome
from vf.gen import modules as gm
from vf.oracle import c25_types as ty

PROPERTY = "C25"
META = {
    "title": "Subtyping is a preorder consistent with the class hierarchy",
    "technique": "property-based testing of algebraic laws over generated class hierarchies and generated proper types; class "
                 "subsumption against an independent closure (module model + Python's MRO of external classes + numeric tower)",
    "design_ref": "DESIGN.md §3 C25",
    "rule": "case = module model + 3..8 type specs, some of them variants of another one with a single leaf replaced (instances of generated/builtin classes, list/set/dict generics, tuples, unions, "
            "None, Any, bare containers; via convert_type_hint or direct construction); laws: reflexivity (all types), transitivity "
            "of is_subtype (Any-free types), T <= Any, union rule (all / any for the maybe variant), is_subclass == closure of "
            "declared bases + numeric tower on analysed classes (and is_subtype on argument-less instances agrees with it), subtype_distance defined => is_maybe_subtype, distance(T,T)==0 for "
            "types without Any/None components; non-trivial = the hierarchy has an inheritance edge and the types contain a "
            "generated class and a union or generic; distinct by the whole case",
    "assumptions": [
        "Any is gradual (top and bottom): excluded from transitivity chains and from inside their generics",
        "distance(T,T)==0 is only demanded for types without Any/None components (the visitor gives those special distances)",
        "hard-coded generics (list/set/dict) are only built with their correct number of arguments",
        "the class hierarchy is the nominal one (__bases__/__mro__); ABC.register-style virtual subclasses (int vs numbers.Rational) "
        "are outside the domain and counted in the label 'class-pairs:virtual-only'",
        "analysed classes = classes bound in the SUT namespace (incl. re-exports, helper classes if the helper module is bound) "
        "and all their ancestors, plus the primitive/collection builtins; itertools.chain excluded (blacklisted module)",
    ],
    "level_text": "Algebraic laws on all pairs/triples of generated types over type systems built by the real module analysis of "
                  "generated hierarchies; class subsumption compared with an independently computed closure. Exploration, not proof.",
    "level_note": "Trusted: the module generator's model of the hierarchy (self-tested against the interpreter), Python's __mro__ "
                  "for stdlib classes.",
}
PLAN = {
    "quick": {"shards": 16, "examples": 1280, "shrink_sigs": 3, "shrink_calls": 120, "shrink_seconds": 15},
    "thorough": {"shards": 16, "examples": 60000, "timeout": 3000},
}


@st.composite
def _cases(draw: Any) -> dict[str, Any]:
    model = draw(gm.module_models(max_functions=2, max_enums=1))
    desc = gm.describe(model)
    specs = draw(st.lists(ty.type_specs(desc), min_size=3, max_size=5, unique_by=repr))
    # variants: an earlier type with one leaf replaced (related pairs: list[A] vs list[B], unions sharing members, ...)
    for _ in range(draw(st.integers(1, 3))):
        base = draw(st.sampled_from(specs))
        n = ty.count_leaves(base["h"])
        leaf = draw(ty.type_specs(desc, atoms_only=True))["h"]
        variant = {"h": ty.replace_leaf(base["h"], draw(st.integers(0, n - 1)), leaf), "via": draw(st.sampled_from(["hint", "direct"]))}
        if variant not in specs:
            specs.append(variant)
    return {"model": model, "types": specs}


def strategy(ctx: Any) -> st.SearchStrategy:
    return _cases()


def _class_category(full: str, desc: dict[str, Any]) -> str:
    if full in ("builtins.bool", "builtins.int", "builtins.float", "builtins.complex"):
        return "numeric"
    if full.startswith("builtins."):
        return "builtin"
    if full.startswith(desc["sut"] + ".") or full.startswith(desc["helper"] + "."):
        return "generated"
    return "stdlib"


def evaluate(case: dict[str, Any]) -> Outcome:
    out = Outcome()
    model = case["model"]
    desc = gm.describe(model)
    n_eval = 0
    with ty.world(model) as (imp, cluster):
        ts = cluster.type_system
        types = []
        for spec in case["types"]:
            tp = ty.materialise(spec, desc, imp.module, ts)
            if tp not in types:
                types.append(tp)

        def q(name: str, *args: Any) -> Any:
            try:
                return getattr(ts, name)(*args)
            except Exception as exc:  # noqa: BLE001
                out.fail(f"query-raises|{name}|{'-'.join(ty.kind(a) for a in args)}|{type(exc).__name__}",
                         f"{name}({', '.join(map(repr, args))}) raised {type(exc).__name__}: {exc}")
                return exc

        # ---- L1 reflexive, L3 top, L7 distance(T,T)
        from pynguin.analyses.typesystem import ANY

        for t in types:
            n_eval += 3
            for name in ("is_subtype", "is_maybe_subtype"):
                if q(name, t, t) is False:
                    out.fail(f"reflexive|{name}|{ty.kind(t)}", f"{name}({t!r}, {t!r}) is False")
                if q(name, t, ANY) is False:
                    out.fail(f"top|{name}|{ty.kind(t)}", f"{name}({t!r}, Any) is False")
            if not ty.contains(t, "any") and not ty.contains(t, "none"):
                d = q("subtype_distance", t, t)
                if not isinstance(d, Exception) and d != 0:
                    out.fail(f"distance-self-nonzero|{ty.kind(t)}", f"subtype_distance({t!r}, {t!r}) == {d!r}")

        # ---- L4 union rule, L6 distance => maybe subtype
        for a, b in itertools.product(types, repeat=2):
            n_eval += 2
            if ty.kind(a) == "union":
                items = ty.children(a)
                whole = q("is_subtype", a, b)
                parts = [q("is_subtype", x, b) for x in items]
                if isinstance(whole, bool) and all(isinstance(p, bool) for p in parts) and whole != all(parts):
                    out.fail(f"union-all|right:{ty.kind(b)}", f"is_subtype({a!r}, {b!r}) == {whole} but members give {parts}")
                whole = q("is_maybe_subtype", a, b)
                parts = [q("is_maybe_subtype", x, b) for x in items]
                if isinstance(whole, bool) and all(isinstance(p, bool) for p in parts) and whole != any(parts):
                    out.fail(f"maybe-union-any|right:{ty.kind(b)}", f"is_maybe_subtype({a!r}, {b!r}) == {whole} but members give {parts}")
            d = q("subtype_distance", a, b)  # a = supertype, b = subtype
            if d is not None and not isinstance(d, Exception):
                if not isinstance(d, int) or d < 0:
                    out.fail(f"distance-not-a-natural-number|{ty.kind(a)}-{ty.kind(b)}", f"subtype_distance({a!r}, {b!r}) == {d!r}")
                if q("is_maybe_subtype", b, a) is False:
                    for tag in ty.blame(ts, a, b):
                        out.fail(f"distance-defined-not-maybe-subtype|{tag}",
                                 f"subtype_distance({a!r}, {b!r}) == {d} but is_maybe_subtype({b!r}, {a!r}) is False")

        # ---- L2 transitivity on Any-free types
        anyfree = [t for t in types if not ty.contains(t, "any")]
        sub = {(a, b): q("is_subtype", a, b) for a, b in itertools.product(anyfree, repeat=2)}
        for a, b, c in itertools.product(anyfree, repeat=3):
            n_eval += 1
            if sub[(a, b)] is True and sub[(b, c)] is True and sub[(a, c)] is False:
                out.fail(f"transitive|{ty.kind(a)}-{ty.kind(b)}-{ty.kind(c)}",
                         f"{a!r} <= {b!r} and {b!r} <= {c!r} but not {a!r} <= {c!r}")

        # ---- L5 class subsumption on analysed classes
        classes = [f for f in ty.analysed_classes(desc, model) if f != "itertools.chain"]
        infos = {}
        for full in classes:
            info = ts.find_type_info(full)
            if info is None:
                out.fail(f"is_subclass|class-not-in-type-system|{_class_category(full, desc)}", f"{full} was not registered by the analysis")
            else:
                infos[full] = info
        for left, right in itertools.product(infos, repeat=2):
            n_eval += 1
            want = ty.model_subclass_with_tower(desc, left, right)
            got = q("is_subclass", infos[left], infos[right])
            if isinstance(got, bool) and got != want:
                out.fail(f"is_subclass|expected-{want}|{_class_category(left, desc)}-{_class_category(right, desc)}",
                         f"is_subclass({left}, {right}) == {got}, closure of declared bases + numeric tower says {want}")
        # ---- L5b: on argument-less instances the subtype relations are exactly class subsumption
        for a, b in itertools.product(types, repeat=2):
            if ty.kind(a) == ty.kind(b) == "instance" and a.type.full_name in infos and b.type.full_name in infos:
                n_eval += 1
                want = ty.model_subclass_with_tower(desc, a.type.full_name, b.type.full_name)
                for name in ("is_subtype", "is_maybe_subtype"):
                    got = q(name, a, b)
                    if isinstance(got, bool) and got != want:
                        out.fail(f"instance-subtype-vs-class-hierarchy|{name}|expected-{want}",
                                 f"{name}({a!r}, {b!r}) == {got}, class hierarchy (+ numeric tower) says {want}")
        # harness self-check: the model closure agrees with Python on the imported classes (never a pynguin failure)
        virtual_only = False
        for left, right in itertools.product(infos, repeat=2):
            rl, rr = infos[left].raw_type, infos[right].raw_type
            if isinstance(rl, type) and isinstance(rr, type):
                assert ty.py_subclass_with_tower(rl, rr) == ty.model_subclass_with_tower(desc, left, right), (left, right)
                virtual_only = virtual_only or (issubclass(rl, rr) and rr not in rl.__mro__)

        kinds = {ty.kind(t) for t in types}
        has_generated = any("generated" == _class_category(t.type.full_name, desc) for t in _instances(types))
        has_edge = any(c["bases"] and not c["enum"] for c in desc["classes"].values())
        out.nontrivial = has_edge and has_generated and bool(kinds & {"union", "generic", "tuple"})
        out.labels = sorted({f"type:{k}" for k in kinds} | {f"via:{s['via']}" for s in case["types"]}
                            | ({"hier:multiple-inheritance"} if any(len(c["bases"]) > 1 for c in desc["classes"].values()) else set())
                            | ({"hier:enum"} if any(c["enum"] for c in desc["classes"].values()) else set())
                            | ({"hier:builtin-root"} if any(c["root"] for c in desc["classes"].values()) else set())
                            | ({"hier:helper-base"} if any(b.startswith("helper:") for c in desc["classes"].values()
                                                          if c["mod"] == "sut" for b in c["bases"]) else set())
                            | ({"types:any-free-triples"} if len(anyfree) >= 3 else set())
                            | ({"class-pairs:virtual-only"} if virtual_only else set()))
        out.sample = {"types": [repr(t) for t in types], "classes": len(infos)}
    out.evaluations = max(1, n_eval)
    return out


def _instances(types: list[Any]) -> list[Any]:
    from pynguin.analyses.typesystem import Instance

    found: list[Any] = []

    def walk(t: Any) -> None:
        if isinstance(t, Instance):
            found.append(t)
        for c in ty.children(t):
            walk(c)

    for t in types:
        walk(t)
    return found
