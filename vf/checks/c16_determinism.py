"""C16 — the same seed and budget reproduce the same test suite.

Each case = two fresh interpreters running `python -m pynguin` with identical configuration and seed, iteration budgets only
(all wall-clock budgets disabled), and different PYTHONHASHSEED values; the exported files must be byte-identical.
"""

from __future__ import annotations

import difflib
import os
import shutil
import tempfile
from typing import Any

from hypothesis import strategies as st

from vf.core import Outcome

PROPERTY = "C16"
META = {
    "title": "The same seed and budget reproduce the same test suite",
    "technique": "whole-tool metamorphic check over generated configurations: Hypothesis-drawn (module, seed, algorithm, budget, assertion "
                 "mode) run twice in fresh interpreters under different PYTHONHASHSEED; byte comparison of the exported files",
    "design_ref": "DESIGN.md §3 C16",
    "rule": "case = corpus module (incl. 3 extra modules: several documented user exceptions, set-of-str results, class hierarchy) x flat or inside a package with sibling modules x annotations kept|stripped x no_xfail x seed x algorithm in {DYNAMOSA, MOSA, MIO, WHOLE_SUITE, RANDOM} x iterations 2..12 x assertion mode x second "
            "hash seed 1..10000 (first is 0). Non-trivial = both runs wrote a file with >= 2 test functions calling the SUT; distinct by "
            "the whole case. Runs whose log shows a test-execution timeout are inconclusive",
    "assumptions": ["corpus modules are deterministic", "two runs are compared with each other; there is no specification of the output"],
    "level_text": "Pairs of whole-tool runs over drawn configurations; equality of output bytes across string-hash randomisation. "
                  "Exploration, not proof.",
    "level_note": "Trusted: fresh interpreters share nothing but the file system inputs; PYTHONHASHSEED controls str hashing.",
}
PLAN = {
    "quick": {"shards": 16, "examples": 16, "timeout": 1500},
    "thorough": {"shards": 16, "examples": 320, "timeout": 7200},
}

ALGOS = ["DYNAMOSA", "MOSA", "MIO", "WHOLE_SUITE", "RANDOM"]


def strategy(ctx):
    from vf.corpus import EXTRA_MODULES, MODULES

    return st.fixed_dictionaries({
        # vfc_records is left out: its frozen dataclass exposes __hash__(), whose value over str fields depends on
        # PYTHONHASHSEED by design of CPython, i.e. that module is not deterministic across hash seeds.
        "module": st.sampled_from([m for m in MODULES if m != "vfc_records"] + EXTRA_MODULES + EXTRA_MODULES),
        "in_package": st.booleans(),
        "seed": st.integers(0, 10**6),
        "strip_annotations": st.booleans(),
        "algo": st.sampled_from(ALGOS),
        "iterations": st.integers(2, 12),
        "assertion": st.sampled_from(["SIMPLE", "MUTATION_ANALYSIS", "NONE"]),
        "hashseed": st.integers(1, 10000),
        "no_xfail": st.booleans(),
    })


def evaluate(case: dict[str, Any]) -> Outcome:
    from vf import cli
    from vf.corpus import materialise_package, materialise_variant

    out = Outcome()
    base = tempfile.mkdtemp(prefix="vf_c16_", dir=os.environ.get("VF_SCRATCH_DIR") or os.environ.get("VERIF_SCRATCH") or None)
    try:
        proj = os.path.join(base, "proj")
        if case.get("in_package"):
            module = materialise_package(case["module"], proj, strip_annotations=case.get("strip_annotations", False))
        else:
            module = materialise_variant(case["module"], proj, case.get("strip_annotations", False))
        runs = []
        for i, hs in enumerate((0, case["hashseed"])):
            runs.append(cli.run_pynguin(proj, module, os.path.join(base, f"out{i}"), seed=case["seed"], algorithm=case["algo"],
                                        iterations=case["iterations"], assertion_generation=case["assertion"], hashseed=hs,
                                        extra=["--no-xfail", str(case.get("no_xfail", False))]))
        out.labels += [f"algo:{case['algo']}", f"assert:{case['assertion']}", f"annotations:{'stripped' if case.get('strip_annotations') else 'kept'}"]
        if any(r.timed_out for r in runs):
            out.inconclusive = "pynguin run exceeded 600 s"
            return out
        files = [open(r.test_file).read() if r.test_file else None for r in runs]
        if files[0] != files[1] and any(cli.log_has_timeouts(r.log) for r in runs):
            # a difference next to a wall-clock timeout in one of the runs says nothing about hash seeds
            out.inconclusive = "outputs differ but a run had a test-execution/mutant timeout (time-dependent)"
            return out
        if files[0] is None and files[1] is None:
            out.labels.append("no-test-file")
            return out
        if files[0] != files[1]:
            a = (files[0] or "").splitlines()
            b = (files[1] or "").splitlines()
            diff = "\n".join(list(difflib.unified_diff(a, b, "hashseed=0", f"hashseed={case['hashseed']}", lineterm="", n=1))[:40])
            out.fail(f"output-depends-on-hash-seed|{case['algo']}|{case['assertion']}", f"case={case}\n{diff}")
        n_tests = (files[0] or "").count("\ndef test_")
        out.nontrivial = n_tests >= 2
        out.labels.append("tests:" + ("2+" if n_tests >= 2 else str(n_tests)))
        out.sample = {"case": case, "tests_in_file": n_tests, "identical": files[0] == files[1]}
    finally:
        shutil.rmtree(base, ignore_errors=True)
    return out


#: saved inputs that are always replayed (one per shard 0..n-1): shapes that a drawn campaign of 16 cases reaches rarely
ANCHORS = [
    {"module": "vfx_ledger", "in_package": False, "strip_annotations": False, "seed": 99, "algo": "DYNAMOSA", "iterations": 12,
     "assertion": "SIMPLE", "hashseed": 4, "no_xfail": True},
    {"module": "vfc_strings", "in_package": True, "strip_annotations": False, "seed": 1234, "algo": "DYNAMOSA", "iterations": 10,
     "assertion": "SIMPLE", "hashseed": 2, "no_xfail": False},
    {"module": "vfx_shapes", "in_package": False, "strip_annotations": True, "seed": 7, "algo": "MOSA", "iterations": 8,
     "assertion": "NONE", "hashseed": 3, "no_xfail": False},
    {"module": "vfx_tags", "in_package": False, "strip_annotations": False, "seed": 11, "algo": "WHOLE_SUITE", "iterations": 8,
     "assertion": "SIMPLE", "hashseed": 5, "no_xfail": False},
]


def shard(ctx) -> None:
    from vf.hyp import guarded, run_cases

    os.environ["VF_SCRATCH_DIR"] = ctx.scratch
    if ctx.shard < len(ANCHORS):
        anchor = dict(ANCHORS[ctx.shard])
        res = guarded(evaluate)(anchor)
        res.labels.append("anchor-case")
        ctx.record(anchor, res)
    run_cases(ctx, strategy(ctx), evaluate, max(1, ctx.params["examples"] // ctx.nshards), shrink=False)
