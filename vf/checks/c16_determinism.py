"""C16 — the same seed and budget reproduce the same test suite.

Each case = two fresh interpreters running `python -m pynguin` with identical configuration and seed, iteration budgets only
(all wall-clock budgets disabled), and different PYTHONHASHSEED values; the exported files must be byte-identical.
"""

from __future__ import annotations

import difflib
import os
import shutil
import tempfile
from typing import Any

from hypothesis import strategies as st

from vf.core import Outcome

PROPERTY = "C16"
META = {
    "title": "The same seed and budget reproduce the same test suite",
    "technique": "whole-tool metamorphic check over generated configurations: Hypothesis-drawn (module, seed, algorithm, budget, assertion "
                 "mode) run twice in fresh interpreters under different PYTHONHASHSEED; byte comparison of the exported files",
    "design_ref": "DESIGN.md §3 C16",
    "rule": "case = corpus module x seed x algorithm in {DYNAMOSA, MOSA, MIO, WHOLE_SUITE, RANDOM} x iterations 2..12 x assertion mode x second "
            "hash seed 1..10000 (first is 0). Non-trivial = both runs wrote a file with >= 2 test functions calling the SUT; distinct by "
            "the whole case. Runs whose log shows a test-execution timeout are inconclusive",
    "assumptions": ["corpus modules are deterministic", "two runs are compared with each other; there is no specification of the output"],
    "level_text": "Pairs of whole-tool runs over drawn configurations; equality of output bytes across string-hash randomisation. "
                  "Exploration, not proof.",
    "level_note": "Trusted: fresh interpreters share nothing but the file system inputs; PYTHONHASHSEED controls str hashing.",
}
PLAN = {
    "quick": {"shards": 16, "examples": 16, "timeout": 1500},
    "thorough": {"shards": 16, "examples": 320, "timeout": 7200},
}

ALGOS = ["DYNAMOSA", "MOSA", "MIO", "WHOLE_SUITE", "RANDOM"]


def strategy(ctx):
    from vf.corpus import MODULES

    return st.fixed_dictionaries({
        "module": st.sampled_from(MODULES),
        "seed": st.integers(0, 10**6),
        "strip_annotations": st.booleans(),
        "algo": st.sampled_from(ALGOS),
        "iterations": st.integers(2, 12),
        "assertion": st.sampled_from(["SIMPLE", "MUTATION_ANALYSIS", "NONE"]),
        "hashseed": st.integers(1, 10000),
    })


def evaluate(case: dict[str, Any]) -> Outcome:
    from vf import cli
    from vf.corpus import materialise_variant

    out = Outcome()
    base = tempfile.mkdtemp(prefix="vf_c16_", dir=os.environ.get("VF_SCRATCH_DIR") or os.environ.get("VERIF_SCRATCH") or None)
    try:
        proj = os.path.join(base, "proj")
        materialise_variant(case["module"], proj, case.get("strip_annotations", False))
        runs = []
        for i, hs in enumerate((0, case["hashseed"])):
            runs.append(cli.run_pynguin(proj, case["module"], os.path.join(base, f"out{i}"), seed=case["seed"], algorithm=case["algo"],
                                        iterations=case["iterations"], assertion_generation=case["assertion"], hashseed=hs))
        out.labels += [f"algo:{case['algo']}", f"assert:{case['assertion']}", f"annotations:{'stripped' if case.get('strip_annotations') else 'kept'}"]
        if any(r.timed_out for r in runs):
            out.inconclusive = "pynguin run exceeded 600 s"
            return out
        if any(cli.log_has_timeouts(r.log) for r in runs):
            out.inconclusive = "test-execution timeout in a run (time-dependent)"
            return out
        files = [open(r.test_file).read() if r.test_file else None for r in runs]
        if files[0] is None and files[1] is None:
            out.labels.append("no-test-file")
            return out
        if files[0] != files[1]:
            a = (files[0] or "").splitlines()
            b = (files[1] or "").splitlines()
            diff = "\n".join(list(difflib.unified_diff(a, b, "hashseed=0", f"hashseed={case['hashseed']}", lineterm="", n=1))[:40])
            out.fail(f"output-depends-on-hash-seed|{case['algo']}|{case['assertion']}", f"case={case}\n{diff}")
        n_tests = (files[0] or "").count("\ndef test_")
        out.nontrivial = n_tests >= 2
        out.labels.append("tests:" + ("2+" if n_tests >= 2 else str(n_tests)))
        out.sample = {"case": case, "tests_in_file": n_tests, "identical": files[0] == files[1]}
    finally:
        shutil.rmtree(base, ignore_errors=True)
    return out


def shard(ctx) -> None:
    from vf.hyp import run_cases

    os.environ["VF_SCRATCH_DIR"] = ctx.scratch
    run_cases(ctx, strategy(ctx), evaluate, max(1, ctx.params["examples"] // ctx.nshards), shrink=False)
