"""C12 — cached fitness and coverage values are never stale.

History-based property test (operation lists = a replayable rule-based machine).  One real session per case (corpus
module, real ``TestFactory`` and ``TestCaseExecutor``, MOSA with BRANCH + LINE goals).  The history operates on a pool
of real ``TestCaseChromosome`` s and a pool of real ``TestSuiteChromosome`` s using only the public operators that maintain
``changed`` themselves: ``mutate()``, ``SinglePointRelativeCrossOver.cross_over``, ``clone()``,
``add/delete/set_test_case_chromosome``, ``add_fitness_function``, ``add_coverage_function`` — and the five queries
``get_fitness``, ``get_fitness_for``, ``get_is_covered``, ``get_coverage``, ``get_coverage_for`` in drawn order with drawn
function arguments.  Members of a suite are never touched behind the suite's back (clones are added), statements are never
hand-edited.  pynguin's RNG is seeded with a drawn integer before every randomised operator.

Oracle (after every query): the returned value equals the value obtained from a NEW chromosome built from
``test_case.clone()`` (empty cache, no last execution result) with the same functions — the SUT is deterministic, so
recomputation from scratch is the specification.  For ``get_is_covered`` the from-scratch value may be either
``compute_is_covered`` or "from-scratch fitness is 0" (the cache legitimately derives it from a fitness it has; whether the
two agree is C10's subject).  No query on a registered function may raise.  Which functions are registered on a
chromosome is the harness's own model (registered at construction, by ``add_*_function``, inherited by ``clone()``): before every
query ``get_fitness_functions()`` / ``get_coverage_functions()`` must be exactly that list, and aggregates are recomputed with it.
"""

from __future__ import annotations

import math
from typing import Any

from hypothesis import strategies as st

from vf.core import Outcome

PROPERTY = "C12"
META = {
    "title": "Cached fitness and coverage values are never stale",
    "technique": "history-based (stateful) property testing over real chromosomes in a real session; every query compared with "
                 "recomputation on a fresh chromosome built from test_case.clone()",
    "design_ref": "DESIGN.md §3 C12",
    "rule": "case = corpus module + session seed + initial pool (2..4 factory-built test cases, 1 suite) + 25..60 operations (new/mutate/crossover/clone/add function on test-case "
            "chromosomes; new/mutate/crossover/clone/add/delete/set test, add function on suites; 5 query kinds with drawn "
            "function index); non-trivial = a query follows an operator that changed the code of that chromosome and an earlier "
            "query of another function on it; distinct by the whole history",
    "assumptions": ["corpus SUTs are deterministic, so re-execution of a clone is the from-scratch value",
                    "get_is_covered may legitimately be derived from a cached fitness (agreement of the two is C10)",
                    "suite members are only changed through suite operators (direct t.mutate() on a member is not a pynguin "
                    "operation)"],
    "level_text": "Generated operator/query histories over real TestCaseChromosome/TestSuiteChromosome objects (real factory and "
                  "executor, 10 corpus modules); every answered query recomputed from scratch. Exploration, not proof.",
    "level_note": "Trusted: the in-process executor (C30/C31), vf/session.py.",
}
PLAN = {
    "quick": {"shards": 16, "examples": 480, "timeout": 3000, "time_budget": 420},
    "thorough": {"shards": 16, "examples": 16000, "timeout": 3000, "time_budget": 2400},
}

QUERIES = ["fitness", "fitness_for", "is_covered", "coverage", "coverage_for"]


def shard(ctx) -> None:
    """Default driver + a wall-clock budget for case *generation* (never for a verdict): on an overloaded machine the
    shard stops drawing new cases after ``time_budget`` seconds and says so (``case-budget-cut-by-time`` in the evidence)
    instead of running into the runner's hard limit."""
    from vf.hyp import run_cases

    per = max(1, int(ctx.params["examples"]) // ctx.nshards)
    run_cases(ctx, strategy(ctx), evaluate, per, time_budget=ctx.params.get("time_budget"))


def strategy(ctx) -> st.SearchStrategy:
    from vf.corpus import MODULES

    i = st.integers(0, 7)
    seed = st.integers(0, 2**31 - 1)
    q = st.sampled_from(QUERIES)
    weighted = [
        (1, st.tuples(st.just("tc_new"), seed, st.integers(1, 7), st.integers(0, 3))),
        (1, st.tuples(st.just("tc_seeded"), st.integers(0, 3), st.integers(1, 3))),
        (5, st.tuples(st.just("tc_mutate"), i, seed)),
        (3, st.tuples(st.just("tc_crossover"), i, i, seed)),
        # correlated draws: query f, operator, query f again on the same chromosome (the shape a stale cache needs)
        (4, st.tuples(st.just("tc_qmq"), i, q, st.integers(0, 60), seed)),
        (2, st.tuples(st.just("tc_qxq"), i, i, q, st.integers(0, 60), seed)),
        (2, st.tuples(st.just("s_qmq"), i, q, st.integers(0, 3), seed)),
        # query f, operator, clone, query f on the clone
        (2, st.tuples(st.just("tc_qmcq"), i, q, st.integers(0, 60), seed)),
        (2, st.tuples(st.just("s_qmcq"), i, q, st.integers(0, 3), seed)),
        # clone, register a function on exactly ONE of the two, query aggregates + function list on the OTHER
        (2, st.tuples(st.just("tc_caq"), i, st.integers(0, 1), st.integers(0, 60), st.integers(0, 1))),
        (2, st.tuples(st.just("s_caq"), i, st.integers(0, 1), st.integers(0, 1), st.integers(0, 1))),
        # DIRECT suite.cross_over(other live suite, p1, p2) (the public Chromosome API; SinglePointRelativeCrossOver passes
        # clones), then mutate the receiver, then query the donor
        (3, st.tuples(st.just("s_dxq"), i, i, st.integers(0, 5), st.integers(0, 5), q, st.integers(0, 3), seed)),
        (1, st.tuples(st.just("tc_clone"), i)),
        (1, st.tuples(st.just("tc_add_ff"), i, st.integers(0, 60))),
        (1, st.tuples(st.just("tc_add_cf"), i, st.integers(0, 1))),
        (8, st.tuples(st.just("tc_query"), i, q, st.integers(0, 60))),
        (1, st.tuples(st.just("s_new"), st.integers(0, 3))),
        (2, st.tuples(st.just("s_mutate"), i, seed)),
        (1, st.tuples(st.just("s_crossover"), i, i, seed)),
        (1, st.tuples(st.just("s_clone"), i)),
        (1, st.tuples(st.just("s_add_tc"), i, i)),
        (1, st.tuples(st.just("s_del_tc"), i, i)),
        (1, st.tuples(st.just("s_set_tc"), i, i, i)),
        (1, st.tuples(st.just("s_add_ff"), i, st.integers(0, 1))),
        (1, st.tuples(st.just("s_add_cf"), i, st.integers(0, 1))),
        (4, st.tuples(st.just("s_query"), i, q, st.integers(0, 3))),
    ]
    table = [strat for w, strat in weighted for _ in range(w)]
    op = st.integers(0, len(table) - 1).flatmap(lambda k: table[k]).map(list)
    return st.fixed_dictionaries({
        "module": st.sampled_from(MODULES),
        "seed": st.integers(0, 10_000),
        # initial pool: 2..4 factory-built test cases (seed, size, number of goals registered) and one suite
        "init": st.lists(st.tuples(seed, st.integers(2, 7), st.integers(1, 4)).map(list), min_size=2, max_size=4),
        "ops": st.lists(op, min_size=25, max_size=60),
    })


def _same(a: Any, b: Any) -> bool:
    if isinstance(a, bool) or isinstance(b, bool):
        return a == b
    return a == b or math.isclose(a, b, rel_tol=1e-12, abs_tol=1e-12)


class _Track:
    """Book-keeping per chromosome (harness side only)."""

    def __init__(self) -> None:
        self.last_op = "new"
        self.code_changed_since_query = False
        self.queried: set[int] = set()  # ids of functions queried since creation


def evaluate(case: dict[str, Any]) -> Outcome:  # noqa: C901, PLR0912, PLR0915
    import pynguin.ga.computations as ff
    import pynguin.ga.testcasechromosome as tcc
    import pynguin.ga.testsuitechromosome as tsc
    from pynguin.ga.operators.crossover import SinglePointRelativeCrossOver

    from vf.corpus import CORPUS_DIR
    from vf.session import Session

    out = Outcome()
    with Session(CORPUS_DIR, case["module"], seed=case["seed"], algorithm="MOSA", coverage_metrics=("BRANCH", "LINE"),
                 overrides={"search_algorithm.chromosome_length": 20,
                            "stopping.maximum_test_execution_timeout": 20,
                            "stopping.test_execution_time_per_statement": 10}) as s:
        s.executor.clear_observers()
        ex = s.executor
        tc_ffs = list(s.fitness_functions)
        tc_cfs = [ff.TestCaseBranchCoverageFunction(ex), ff.TestCaseLineCoverageFunction(ex)]
        s_ffs = [ff.BranchDistanceTestSuiteFitnessFunction(ex), ff.LineTestSuiteFitnessFunction(ex)]
        s_cfs = [ff.TestSuiteBranchCoverageFunction(ex), ff.TestSuiteLineCoverageFunction(ex)]
        xover = SinglePointRelativeCrossOver()
        tcs: list[Any] = []
        suites: list[Any] = []
        track: dict[int, _Track] = {}
        n_queries = 0
        nontrivial_hits = 0

        def tr(c: Any) -> _Track:
            return track.setdefault(id(c), _Track())

        # harness-side model of which functions were registered on which chromosome (never read back from pynguin,
        # except right after construction of a brand-new chromosome)
        reg: dict[int, tuple[list[Any], list[Any]]] = {}

        def adopt(c: Any) -> None:
            reg[id(c)] = (list(c.get_fitness_functions()), list(c.get_coverage_functions()))

        def add_ff(c: Any, f: Any) -> None:
            if not any(f is x for x in reg[id(c)][0]):
                c.add_fitness_function(f)
                reg[id(c)][0].append(f)

        def add_cf(c: Any, f: Any) -> None:
            if not any(f is x for x in reg[id(c)][1]):
                c.add_coverage_function(f)
                reg[id(c)][1].append(f)

        def cloned(c: Any) -> Any:
            n = c.clone()
            reg[id(n)] = (list(reg[id(c)][0]), list(reg[id(c)][1]))
            t0, t1 = tr(c), tr(n)
            t1.last_op = "clone-after-" + t0.last_op
            t1.code_changed_since_query = t0.code_changed_since_query
            t1.queried = set(t0.queried)
            return n

        def code_of(c: Any) -> str:
            if isinstance(c, tcc.TestCaseChromosome):
                return c.test_case.to_code()
            return "\n#--\n".join(t.test_case.to_code() for t in c.test_case_chromosomes)

        def touched(c: Any, op: str, before: str) -> None:
            t = tr(c)
            t.last_op = op
            if code_of(c) != before:
                t.code_changed_since_query = True

        def fresh_tc(c: Any, fit: list[Any], cov: list[Any]) -> Any:
            n = tcc.TestCaseChromosome(test_case=c.test_case.clone(), test_factory=s.factory)
            for f in fit:
                n.add_fitness_function(f)
            for f in cov:
                n.add_coverage_function(f)
            return n

        def fresh_suite(c: Any, fit: list[Any], cov: list[Any]) -> Any:
            n = tsc.TestSuiteChromosome(c.test_case_chromosome_factory)
            for t in c.test_case_chromosomes:
                n.add_test_case_chromosome(tcc.TestCaseChromosome(test_case=t.test_case.clone(), test_factory=s.factory))
            for f in fit:
                n.add_fitness_function(f)
            for f in cov:
                n.add_coverage_function(f)
            return n

        def query(level: str, c: Any, kind: str, k: int) -> None:
            nonlocal n_queries, nontrivial_hits
            fresh = fresh_tc if level == "tc" else fresh_suite
            fit, cov = list(reg[id(c)][0]), list(reg[id(c)][1])
            t = tr(c)
            for what, real, model in (("fitness", c.get_fitness_functions(), fit), ("coverage", c.get_coverage_functions(), cov)):
                if [id(x) for x in real] != [id(x) for x in model]:
                    out.fail(f"{level}|{what}-functions|list-differs-from-registered|last-op:{t.last_op}",
                             f"get_{what}_functions() has {len(real)} entries {[type(x).__name__ for x in real][:8]}, "
                             f"{len(model)} were registered on this chromosome")
                    return
            if kind in ("fitness", "fitness_for", "is_covered"):
                if not fit:
                    return
                f = fit[k % len(fit)]
            else:
                if not cov:
                    return
                f = cov[k % len(cov)]
            timed_out_before = _any_timeout(c)
            try:
                if kind == "fitness":
                    got = c.get_fitness()
                    want = [fresh(c, fit, []).get_fitness()]
                elif kind == "fitness_for":
                    got = c.get_fitness_for(f)
                    want = [fresh(c, [f], []).get_fitness_for(f)]
                elif kind == "is_covered":
                    got = c.get_is_covered(f)
                    want = [fresh(c, [f], []).get_is_covered(f),
                            math.isclose(fresh(c, [f], []).get_fitness_for(f), 0.0)]
                elif kind == "coverage":
                    got = c.get_coverage()
                    want = [fresh(c, [], cov).get_coverage()]
                else:
                    got = c.get_coverage_for(f)
                    want = [fresh(c, [], [f]).get_coverage_for(f)]
            except Exception as exc:  # noqa: BLE001
                from vf.core import exc_detail, exc_sig, has_pynguin_frame

                if not has_pynguin_frame(exc):
                    raise
                out.fail(f"{level}|{kind}|raises:{exc_sig(exc)}|last-op:{t.last_op}", exc_detail(exc))
                return
            n_queries += 1
            if timed_out_before or _any_timeout(c):
                out.inconclusive = "execution-timeout"
                return
            if t.code_changed_since_query and any(q != id(f) for q in t.queried):
                nontrivial_hits += 1
            if kind in ("fitness", "coverage"):
                t.queried.update(id(x) for x in (fit if kind == "fitness" else cov))
            else:
                t.queried.add(id(f))
            t.code_changed_since_query = False
            out.labels.append(f"{level}:q:{kind}")
            if not any(_same(got, w) for w in want):
                out.fail(f"{level}|{kind}|stale|last-op:{t.last_op}",
                         f"{kind} returned {got!r}, from scratch {want!r}; function {type(f).__name__}; changed={c.changed}; "
                         f"code:\n{code_of(c)[:800]}")

        def _any_timeout(c: Any) -> bool:
            members = [c] if isinstance(c, tcc.TestCaseChromosome) else c.test_case_chromosomes
            return any((r := m.get_last_execution_result()) is not None and r.timeout for m in members)

        prologue = [["tc_new", *t] for t in case.get("init", [])] + ([["s_new", 3]] if case.get("init") else [])
        expanded: list[list[Any]] = []
        for op in prologue + case["ops"]:
            if op[0] == "tc_qmq":
                expanded += [["tc_query", op[1], op[2], op[3]], ["tc_mutate", op[1], op[4]], ["tc_query", op[1], op[2], op[3]]]
            elif op[0] == "tc_qxq":
                expanded += [["tc_query", op[1], op[3], op[4]], ["tc_crossover", op[1], op[2], op[5]],
                             ["tc_query", op[1], op[3], op[4]]]
            elif op[0] == "s_qmq":
                expanded += [["s_query", op[1], op[2], op[3]], ["s_mutate", op[1], op[4]], ["s_query", op[1], op[2], op[3]]]
            elif op[0] == "tc_qmcq":
                expanded += [["tc_query", op[1], op[2], op[3]], ["tc_mutate", op[1], op[4]], ["tc_clone", op[1]],
                             ["tc_query", -1, op[2], op[3]]]
            elif op[0] == "s_qmcq":
                expanded += [["s_query", op[1], op[2], op[3]], ["s_mutate", op[1], op[4]], ["s_clone", op[1]],
                             ["s_query", -1, op[2], op[3]]]
            else:
                expanded.append(op)
        for op in expanded:
            name = op[0]
            if name == "tc_new":
                c = s.chromosome(s.random_test_case(op[1], op[2]))
                for j in range(op[3]):
                    if tc_ffs:
                        f = tc_ffs[(op[1] + 7 * j) % len(tc_ffs)]
                        if f not in c.get_fitness_functions():
                            c.add_fitness_function(f)
                if op[1] % 3:
                    c.add_coverage_function(tc_cfs[op[1] % 2])
                adopt(c)
                tcs.append(c)
                tr(c)
            elif name == "tc_seeded":
                # a test case as population seeding / crossover can supply it: primitive statements only (variant 0..2)
                # or primitives followed by one SUT call (variant 3); built once, never edited by the harness
                steps: list[dict[str, Any]] = [{"value": v} for v in ([5, "a", 2.5][:op[2]])]
                if op[1] == 3:
                    fn = next((a_.function_name for a_ in s.cluster.accessible_objects_under_test
                               if getattr(a_, "function_name", None)), None)
                    if fn is not None:
                        steps.append({"fn": fn, "args": []})
                c = s.chromosome(s.build_test_case_from_calls(steps))
                for f in tc_ffs[:2 + op[1]]:
                    c.add_fitness_function(f)
                c.add_coverage_function(tc_cfs[op[1] % 2])
                adopt(c)
                tcs.append(c)
                tr(c).last_op = "seeded-without-sut-call" if op[1] != 3 else "seeded"
            elif name.startswith("tc_"):
                if not tcs:
                    continue
                c = tcs[-1] if op[1] == -1 else tcs[op[1] % len(tcs)]
                before = code_of(c)
                if name == "tc_mutate":
                    s.seed_rng(op[2])
                    was_changed = c.changed
                    c.mutate()
                    touched(c, "mutate", before)
                    if code_of(c) != before and not c.changed and not was_changed:
                        out.labels.append("diag:mutate-changed-code-without-flag")
                elif name == "tc_crossover":
                    d = tcs[op[2] % len(tcs)]
                    if d is c:
                        continue
                    before_d = code_of(d)
                    s.seed_rng(op[3])
                    xover.cross_over(c, d)
                    touched(c, "crossover", before)
                    touched(d, "crossover", before_d)
                elif name == "tc_clone":
                    tcs.append(cloned(c))
                elif name == "tc_caq":
                    n = cloned(c)
                    tcs.append(n)
                    target, other = (n, c) if op[2] else (c, n)
                    if tc_ffs:
                        add_ff(target, tc_ffs[op[3] % len(tc_ffs)])
                    add_cf(target, tc_cfs[op[4]])
                    tr(other).last_op = "function-added-to-" + ("clone" if op[2] else "original-after-clone")
                    query("tc", other, "fitness", 0)
                    query("tc", other, "coverage", 0)
                    query("tc", target, "fitness", 0)
                elif name == "tc_add_ff":
                    if tc_ffs:
                        add_ff(c, tc_ffs[op[2] % len(tc_ffs)])
                elif name == "tc_add_cf":
                    add_cf(c, tc_cfs[op[2]])
                elif name == "tc_query":
                    query("tc", c, op[2], op[3])
            elif name == "s_new":
                su = s.suite(fitness_functions=s_ffs[:1 + op[1] % 2], coverage_functions=s_cfs[:op[1] // 2 + 0])
                for c in tcs[:op[1] + 1]:
                    su.add_test_case_chromosome(c.clone())
                adopt(su)
                suites.append(su)
                tr(su)
            elif name.startswith("s_"):
                if not suites:
                    continue
                su = suites[-1] if op[1] == -1 else suites[op[1] % len(suites)]
                before = code_of(su)
                if name == "s_mutate":
                    if su.size() == 0:
                        continue
                    s.seed_rng(op[2])
                    su.mutate()
                    touched(su, "mutate", before)
                elif name == "s_crossover":
                    other = suites[op[2] % len(suites)]
                    if other is su:
                        continue
                    before_o = code_of(other)
                    s.seed_rng(op[3])
                    xover.cross_over(su, other)
                    touched(su, "crossover", before)
                    touched(other, "crossover", before_o)
                elif name == "s_clone":
                    suites.append(cloned(su))
                elif name == "s_caq":
                    n = cloned(su)
                    suites.append(n)
                    target, other = (n, su) if op[2] else (su, n)
                    add_ff(target, s_ffs[op[3]])
                    add_cf(target, s_cfs[op[4]])
                    tr(other).last_op = "function-added-to-" + ("clone" if op[2] else "original-after-clone")
                    query("suite", other, "fitness", 0)
                    query("suite", other, "coverage", 0)
                    query("suite", target, "fitness", 0)
                elif name == "s_dxq":
                    donor = suites[op[2] % len(suites)]
                    if donor is su or donor.size() == 0:
                        continue
                    query("suite", donor, op[5], op[6])
                    before_d = code_of(donor)
                    su.cross_over(donor, op[3] % (su.size() + 1), op[4] % donor.size())
                    touched(su, "direct-crossover", before)
                    for extra in range(3):  # each member is mutated with probability 1/size
                        if su.size() == 0:
                            break
                        b2 = code_of(su)
                        s.seed_rng(op[7] + extra)
                        su.mutate()
                        touched(su, "mutate", b2)
                    touched(donor, "donor-of-direct-crossover", before_d)
                    query("suite", donor, op[5], op[6])
                    query("suite", donor, "fitness", 0)
                    query("suite", donor, "coverage", 0)
                    query("suite", su, "fitness", 0)
                elif name == "s_add_tc":
                    if tcs:
                        su.add_test_case_chromosome(tcs[op[2] % len(tcs)].clone())
                        touched(su, "add_test", before)
                elif name == "s_del_tc":
                    if su.size() > 0:
                        su.delete_test_case_chromosome(su.get_test_case_chromosome(op[2] % su.size()))
                        touched(su, "delete_test", before)
                elif name == "s_set_tc":
                    if su.size() > 0 and tcs:
                        su.set_test_case_chromosome(op[2] % su.size(), tcs[op[3] % len(tcs)].clone())
                        touched(su, "set_test", before)
                elif name == "s_add_ff":
                    add_ff(su, s_ffs[op[2]])
                elif name == "s_add_cf":
                    add_cf(su, s_cfs[op[2]])
                elif name == "s_query":
                    query("suite", su, op[2], op[3])
            out.labels.append("op:" + name)
        out.evaluations = max(1, n_queries)
        out.nontrivial = nontrivial_hits > 0
        if nontrivial_hits:
            out.labels.append("class:query-after-code-change-and-other-query")
    return out
