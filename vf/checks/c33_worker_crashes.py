"""C33 — worker crashes never hang Pynguin and restarts are bounded.

(a) model level: Hypothesis draws crash scripts ``[(outcome, worker lifetime)]`` and drives the real
    ``RunningTask`` / ``MasterProcess`` / ``PynguinClient`` with ``_start_worker`` replaced by a scripted
    fake connection and ``time.time`` (as seen by master.py) replaced by a scripted clock.
(b) real processes: ``python -m pynguin`` (master-worker mode, spawn) on a tiny module with the guarded
    crash hook (``SE2P_PYNGUIN_VERIF=1``; pynguin/utils/verif_hooks.py) killing worker *k* at phase *p*.
"""

from __future__ import annotations

import json
import os
import shutil
import subprocess
import sys
import tempfile
import time
from typing import Any

from hypothesis import strategies as st

from vf.core import REPO, Outcome

PROPERTY = "C33"
META = {
    "title": "Worker crashes never hang Pynguin and restarts are bounded",
    "technique": "fault-sequence generation: Hypothesis-drawn crash scripts against the real restart logic (scripted pipe + clock) "
                 "and drawn kill plans injected into real master/worker CLI runs through a guarded crash hook",
    "design_ref": "DESIGN.md §3 C33, §4",
    "rule": "model case = initial maximum_search_time in {-1,0,1..40} x script of 0..8 worker lives (crash|garbage|deliver-ok|deliver-none, "
            "lifetime in [1e-6, 25] s); real case = search time 8..14 s x up to 3 planned deaths (attempt, phase in worker_start/import/"
            "search/assertions/export, how in exit/kill/timer). Non-trivial = at least one worker death followed by a restart decision; "
            "distinct by the whole script/plan",
    "assumptions": ["worker lifetimes are > 0 (>= 1 microsecond): a zero-length life is not realisable",
                    "(b) samples OS schedules; its time bound (initial search time + 150 s) is loose, an overrun is reported only as hang "
                    "after the process had to be killed",
                    "a worker that hangs without dying is outside the property (no death to react to)"],
    "level_text": "Generated crash sequences against the real restart protocol with a scripted pipe and clock (thousands of sequences) plus "
                  "real multi-process CLI runs with injected deaths at every pipeline phase. Exploration of fault sequences, not proof.",
    "level_note": "Trusted: the fake connection/clock reproduce what multiprocess pipes and time.time deliver; the crash hook "
                  "(verif_hooks.crash_point) kills where it says.",
}
PLAN = {
    "quick": {"shards": 16, "examples": 6400, "real_per_shard": 1, "timeout": 900},
    "thorough": {"shards": 16, "examples": 160000, "real_per_shard": 12, "timeout": 5400},
}

OUTCOMES = ["crash", "crash", "crash", "garbage", "deliver_ok", "deliver_none", "deliver_error"]
PHASES = ["worker_start", "import", "search", "assertions", "export"]

model_case = st.fixed_dictionaries({
    "kind": st.just("model"),
    "search_time": st.one_of(st.sampled_from([-1, 0, 1, 2, 3]), st.integers(1, 40)),
    "via": st.sampled_from(["task", "master", "client"]),
    "use_master_worker": st.booleans(),
    "script": st.lists(st.tuples(st.sampled_from(OUTCOMES),
                                 st.one_of(st.floats(1e-6, 25.0, allow_nan=False), st.sampled_from([1e-6, 0.5, 1.0, 0.999999, 2.0]))).map(list),
                       max_size=8),
})

real_case = st.fixed_dictionaries({
    "kind": st.just("real"),
    "search_time": st.integers(8, 14),
    "seed": st.integers(0, 10_000),
    "deaths": st.lists(st.tuples(st.integers(0, 2), st.sampled_from(PHASES),
                                 st.sampled_from(["exit", "kill", "timer=0.05", "timer=0.4"])).map(list),
                       min_size=1, max_size=3, unique_by=lambda d: d[0]),
})


# ----------------------------------------------------------------------------------------------- (a)
class _Clock:
    def __init__(self) -> None:
        self.now = 1_000_000.0

    def time(self) -> float:
        return self.now


class _FakeConn:
    def __init__(self, driver: "_Driver") -> None:
        self.driver = driver
        self.closed = False

    def recv(self) -> Any:
        return self.driver.recv()

    def close(self) -> None:
        self.closed = True


class _FakeProcess:
    def is_alive(self) -> bool:
        return False


class _Driver:
    """Scripted replacement of worker processes."""

    MAX_STARTS = 200

    def __init__(self, case: dict[str, Any], clock: _Clock, task_holder: list) -> None:
        self.script = list(case["script"])
        self.clock = clock
        self.starts: list[int] = []  # maximum_search_time seen at each worker start
        self.delivered: list[Any] = []
        self.deaths = 0
        self.task_holder = task_holder
        self.runaway = False

    def recv(self) -> Any:
        from pynguin.generator import ReturnCode
        from pynguin.master_worker.worker import WorkerError, WorkerResult, WorkerReturnCode

        idx = len(self.starts) - 1
        outcome, life = self.script[idx] if idx < len(self.script) else ("crash", 0.75)
        self.clock.now += life
        if outcome == "crash":
            self.deaths += 1
            raise EOFError
        if outcome == "garbage":
            self.deaths += 1
            raise ValueError("unpickling failed")
        if outcome == "deliver_ok":
            res = WorkerResult(task_id="t", worker_return_code=WorkerReturnCode.OK, return_code=ReturnCode.OK)
        elif outcome == "deliver_none":
            res = WorkerResult(task_id="t", worker_return_code=WorkerReturnCode.OK, return_code=None,
                               error=WorkerError("boom", "tb"))
        else:
            res = WorkerResult(task_id="t", worker_return_code=WorkerReturnCode.ERROR, return_code=None)
        self.delivered.append(res)
        return res


class _Runaway(BaseException):
    pass


def _eval_model(case: dict[str, Any]) -> Outcome:
    import pynguin.configuration as config
    from pynguin.generator import ReturnCode
    from pynguin.master_worker import master as master_mod
    from pynguin.master_worker.client import PynguinClient
    from pynguin.master_worker.worker import WorkerReturnCode, WorkerTask

    out = Outcome()
    cfg = config.Configuration(
        project_path="/nonexistent", module_name="m",
        test_case_output=config.TestCaseOutputConfiguration(output_path="/nonexistent"),
    )
    cfg.stopping.maximum_search_time = case["search_time"]
    cfg.use_master_worker = case["use_master_worker"]
    old_cfg = config.configuration
    config.configuration = cfg
    clock = _Clock()
    holder: list = []
    drv = _Driver(case, clock, holder)

    def fake_start(self, task) -> None:  # replaces RunningTask._start_worker
        if len(drv.starts) >= drv.MAX_STARTS:
            drv.runaway = True
            raise _Runaway
        self._worker_process = _FakeProcess()
        self._receiving_connection = _FakeConn(drv)
        self._task = task
        self._start_time = clock.time()
        drv.starts.append(task.configuration.stopping.maximum_search_time)

    orig_start = master_mod.RunningTask._start_worker
    orig_time = master_mod.time
    master_mod.RunningTask._start_worker = fake_start
    master_mod.time = clock  # master.py calls time.time()
    result = None
    rc = None
    try:
        try:
            if case["via"] == "task":
                rt = master_mod.RunningTask(WorkerTask(task_id="t", configuration=cfg))
                result = rt.get_result()
            elif case["via"] == "master":
                mp_ = master_mod.MasterProcess()
                tid = mp_.start_pynguin(cfg)
                result = mp_.get_result(tid)
            else:
                rc = PynguinClient(cfg).run_pynguin()
        except _Runaway:
            pass
        except RecursionError:
            out.fail("model|recursion-error", f"starts={len(drv.starts)}")
    finally:
        master_mod.RunningTask._start_worker = orig_start
        master_mod.time = orig_time
        config.configuration = old_cfg

    starts = drv.starts
    init = case["search_time"]
    if drv.runaway:
        out.fail("model|unbounded-restarts", f"more than {drv.MAX_STARTS} worker starts; search times {starts[:12]}…")
        return out
    # restarts happen only while search time remains
    for i, s in enumerate(starts[1:], 1):
        if s <= 0:
            out.fail("model|restart-without-remaining-time", f"worker {i} started with maximum_search_time={s}; starts={starts}")
            break
    for a, b in zip(starts, starts[1:]):
        if not b < a:
            out.fail("model|search-time-not-strictly-decreasing", f"starts={starts}")
            break
    if init > 0 and len(starts) > init + 1:
        out.fail("model|too-many-restarts", f"{len(starts)} starts for initial search time {init}")
    # a worker that delivered ends the protocol; its result is what is reported
    delivered = drv.delivered
    if len(delivered) > 1:
        out.fail("model|worker-started-after-delivery", f"{len(delivered)} deliveries")
    if case["via"] in ("task", "master"):
        if result is None:
            out.fail("model|no-result", "get_result returned None")
        else:
            ok = result.worker_return_code == WorkerReturnCode.OK and result.return_code is not None
            if ok and not delivered:
                out.fail("model|success-without-delivery", f"script={case['script']} starts={starts}")
            if delivered and result is not delivered[0]:
                out.fail("model|delivered-result-lost", f"script={case['script']} starts={starts} result={result}")
            if delivered and result.restart_count != len(starts) - 1:
                out.fail("model|restart-count-wrong", f"restart_count={result.restart_count} starts={len(starts)}")
    else:
        if rc == ReturnCode.OK and not (delivered and delivered[0].return_code == ReturnCode.OK
                                        and delivered[0].worker_return_code == WorkerReturnCode.OK):
            out.fail("model|client-success-without-delivery", f"script={case['script']} starts={starts}")
        if delivered and delivered[0].return_code == ReturnCode.OK and delivered[0].worker_return_code == WorkerReturnCode.OK \
                and rc != ReturnCode.OK:
            out.fail("model|client-lost-success", f"rc={rc}")
        if rc is None and not out.failures:
            out.fail("model|client-no-return-code", "run_pynguin returned None")
    out.nontrivial = drv.deaths >= 1
    out.labels.append(f"deaths:{min(drv.deaths, 4)}")
    out.labels.append(f"restarts:{min(len(starts) - 1, 4)}")
    out.labels.append("delivered" if delivered else "not-delivered")
    return out


# ----------------------------------------------------------------------------------------------- (b)
SUT = '''def classify(a: int, b: int, c: int) -> str:
    if a <= 0 or b <= 0 or c <= 0:
        return "invalid"
    if a == b and b == c:
        return "equilateral"
    if a == b or b == c or a == c:
        return "isosceles"
    return "scalene"
'''


def _eval_real(case: dict[str, Any]) -> Outcome:
    out = Outcome()
    base = tempfile.mkdtemp(prefix="vf_c33_", dir=os.environ.get("VF_SCRATCH_DIR") or os.environ.get("VERIF_SCRATCH") or None)
    try:
        proj, outd = os.path.join(base, "proj"), os.path.join(base, "out")
        os.makedirs(proj)
        os.makedirs(outd)
        with open(os.path.join(proj, "tri.py"), "w") as fh:
            fh.write(SUT)
        plan, log = os.path.join(base, "plan"), os.path.join(base, "log")
        with open(plan, "w") as fh:
            for a, ph, how in case["deaths"]:
                fh.write(f"{a}:{ph}:{how}\n")
        env = dict(os.environ, PYNGUIN_DANGER_AWARE="1", SE2P_PYNGUIN_VERIF="1", PYNGUIN_VERIF_CRASH_PLAN=plan,
                   PYNGUIN_VERIF_CRASH_LOG=log, PYTHONPATH=f"{REPO}/src", PYTHONHASHSEED="0")
        cmd = [sys.executable, "-m", "pynguin", "--project-path", proj, "--module-name", "tri", "--output-path", outd,
               "--maximum-search-time", str(case["search_time"]), "--maximum-iterations", "10", "--seed", str(case["seed"]),
               "--assertion-generation", "SIMPLE", "--no-rich"]
        bound = case["search_time"] + 150
        t0 = time.time()
        with open(os.path.join(base, "stdout.txt"), "w") as so:
            proc = subprocess.Popen(cmd, env=env, cwd=base, stdout=so, stderr=subprocess.STDOUT, start_new_session=True)
            try:
                rc = proc.wait(timeout=bound)
            except subprocess.TimeoutExpired:
                # A genuine hang = the master is still waiting although no worker process is alive.
                kids = subprocess.run(["pgrep", "-P", str(proc.pid), "-a"], capture_output=True, text=True).stdout
                live_workers = [k for k in kids.splitlines() if "spawn_main" in k]
                try:
                    os.killpg(proc.pid, 9)
                except ProcessLookupError:
                    pass
                proc.wait()
                if live_workers:
                    out.inconclusive = "real run exceeded its time bound with a live worker (slow, not hung)"
                else:
                    out.fail("real|hang", f"master still waiting after {bound} s with no live worker; plan={case['deaths']}")
                return out
        wall = time.time() - t0
        lines = [l.split() for l in open(log).read().splitlines()] if os.path.exists(log) else []
        if not lines:
            out.inconclusive = "crash hook log empty"
            return out
        attempts: dict[int, dict[str, Any]] = {}
        for pid, att, phase, st_ in lines:
            a = attempts.setdefault(int(att), {"phases": [], "search_time": None})
            a["phases"].append(phase)
            if phase == "worker_start":
                a["search_time"] = int(st_)
        order = sorted(attempts)
        times = [attempts[a]["search_time"] for a in order]
        plan_map = {a: (ph, how) for a, ph, how in case["deaths"]}
        killed = {a for a in order if a in plan_map and plan_map[a][0] in attempts[a]["phases"]}
        for i, t in enumerate(times[1:], 1):
            if t is None or t <= 0:
                out.fail("real|restart-without-remaining-time", f"search times {times}")
        for x, y in zip(times, times[1:]):
            if x is not None and y is not None and not y < x:
                out.fail("real|search-time-not-strictly-decreasing", f"search times {times}")
                break
        if len(order) > len(killed) + 1:
            out.fail("real|restart-without-death", f"{len(order)} workers, {len(killed)} planned deaths reached; log={lines}")
        if len(order) > case["search_time"] + 1:
            out.fail("real|too-many-restarts", f"{len(order)} workers")
        last = order[-1]
        last_killed_for_sure = last in killed and not plan_map[last][1].startswith("timer")
        if rc == 0 and last_killed_for_sure:
            out.fail("real|success-although-last-worker-died", f"rc=0 plan={case['deaths']} log={lines}")
        if rc == 0 and not os.path.exists(os.path.join(outd, "test_tri.py")):
            out.fail("real|success-without-test-file", f"plan={case['deaths']}")
        out.nontrivial = len(killed) >= 1
        out.labels.append(f"real:deaths-reached:{len(killed)}")
        out.labels.append(f"real:rc:{rc}")
        for a in killed:
            out.labels.append(f"real:died-at:{plan_map[a][0]}")
        out.sample = {"case": case, "search_times": times, "rc": rc, "wall_s": round(wall, 1)}
    finally:
        shutil.rmtree(base, ignore_errors=True)
    return out


def evaluate(case: dict[str, Any]) -> Outcome:
    return _eval_model(case) if case["kind"] == "model" else _eval_real(case)


def shard(ctx) -> None:
    from vf.hyp import run_cases

    os.environ["VF_SCRATCH_DIR"] = ctx.scratch
    run_cases(ctx, model_case, evaluate, max(1, ctx.params["examples"] // ctx.nshards))
    n_real = int(ctx.params.get("real_per_shard", 1))
    if n_real and ctx.shard % 2 == 0:  # at most 8 concurrent master/worker runs
        run_cases(ctx, real_case, evaluate, n_real, shrink=False)
